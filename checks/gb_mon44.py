"""gb_mon44.py — numpy monitor of C44 (worker side): frame and hypothesis consistency of generated
behaviours, and the rotate* helper functions of orthotropic generic behaviours against numpy."""
import ctypes as C
import math
import random

import numpy as np

import gbnp
from gbnp import SSIZE, TSIZE, st2m, m2st, t2m, m2t
from checks import gb_mon41 as M
from checks.gb_mon41 import AXIAL, ULP, hooke, hooke_inv, seqv, rand_dir, rand_elastic, fl, hexs

EPS_CONV = 1e-14
STRAIN_HYPS_1D = ["AxisymmetricalGeneralisedPlaneStrain"]
STRAIN_HYPS_2D = ["Axisymmetrical", "PlaneStrain", "GeneralisedPlaneStrain"]


def embed(v, n):
    out = np.zeros(n)
    out[:len(v)] = v
    return out


def restrict(v, n):
    return np.asarray(v)[:n]


def rot_st(v, Q):
    """stensor vector -> vector of Q s Q^T (3D, or 2D when Q is a rotation about z)"""
    return m2st(Q @ st2m(v) @ Q.T, {3: 1, 4: 2, 6: 3}[len(v)])


def qs_matrix(Q, dim):
    """matrix of s -> Q s Q^T on Mandel vectors"""
    n = SSIZE[dim]
    A = np.zeros((n, n))
    for k in range(n):
        e = np.zeros(n)
        e[k] = 1.0
        A[:, k] = m2st(Q @ st2m(e) @ Q.T, dim)
    return A


def qt_matrix(Q, dim):
    """matrix of T -> Q T Q^T on TFEL unsymmetric tensor vectors"""
    n = TSIZE[dim]
    A = np.zeros((n, n))
    for k in range(n):
        e = np.zeros(n)
        e[k] = 1.0
        A[:, k] = m2t(Q @ t2m(e) @ Q.T, dim)
    return A


# ------------------------------------------------------------------ a case for an isotropic behaviour
class Case:
    """random state/increment generated in `hyp0`, transportable to other hypotheses / frames"""

    def __init__(self, g, kind, b, lib, name, hyp0, spec):
        self.kind, self.name = kind, name
        n = b.ns
        young, nu = rand_elastic(g)
        self.young, self.nu = young, nu
        self.la, self.mu = gbnp.lame(young, nu)
        self.pars = [("epsilon", EPS_CONV)] if kind not in ("elasticity", "norton_rk") else []
        self.dt = 1.0
        self.mpkw = {"YoungModulus": young, "PoissonRatio": nu}
        self.scal = {}
        self.tens = {}
        self.pname = None
        self.rk_eps = 0.0
        if kind == "elasticity":
            self.eto0 = rand_dir(g, n) * 10 ** g.uniform(-6, -2.5)
            self.de = M.rand_increment(g, n, hyp0, -6, -2.5)
            self.s0 = np.zeros(n)
            self.explicit = True
            return
        self.explicit = kind == "norton_rk"
        # adaptive Runge-Kutta schemes: the step control uses a norm of the error estimate that depends on the number of
        # components and on the frame; responses agree within the integration tolerance only (as in C41: 1000 x epsilon)
        self.rk_eps = 1e-11 if (kind == "norton_rk" and spec.get("algo") in ("rk42", "rk54", "rkCastem")) else 0.0
        if self.rk_eps:
            self.pars += [("epsilon", self.rk_eps)]
        if kind in ("implicit_norton", "norton_creep", "brick_norton", "norton_rk"):
            theta = g.choice([0.5, 1.0, round(g.uniform(0.3, 1.0), 3)])
            if kind == "brick_norton":
                E = g.choice([3.2, round(g.uniform(1.0, 8.0), 3)])
                Kn = g.uniform(50e6, 300e6)
                A = 1.0 / Kn ** E
                self.pars += [("Kn", Kn), ("En", E)]
            else:
                E = g.choice([8.2, round(g.uniform(1.0, 9.0), 3)])
                A = 10 ** g.uniform(-2, 0) / (100e6 ** E)
                if kind == "implicit_norton":
                    self.pars += [("A", A), ("E", E)]
            if kind != "norton_rk":
                self.pars += [("theta", theta)]
            s0, eel0, p0, de, _ = M.norton_state(g, b, hyp0, young, nu)
            self.dt = M.norton_rate_dt(g, A, E, young, nu, eel0, de, theta, lo=1e-2, hi=0.2 if kind == "norton_rk" else 0.5)[0]
            self.mpkw.update({"NortonCoefficient": A, "NortonExponent": E, "A": A, "E": E})
            self.pname = {"implicit_norton": "p", "norton_rk": "p"}.get(kind, "EquivalentViscoplasticStrain")
            self.info = {"A": A, "E": E, "theta": theta}
        else:
            theta = g.choice([1.0, 1.0, round(g.uniform(0.5, 1.0), 3)])
            s0y = g.uniform(20e6, 500e6)
            H = g.choice([0.0, g.uniform(0, 0.1) * young])
            self.pars += [("theta", theta)] + ([("s0", s0y), ("Hp", H)] if kind == "brick_plasticity" else [])
            s0, eel0, p0, de = M.plast_state(g, b, hyp0, young, nu, s0y, H)
            self.mpkw.update({"H": H, "s0": s0y})
            self.pname = "EquivalentPlasticStrain"
            self.info = {"s0": s0y, "H": H, "theta": theta}
        self.s0, self.de = s0, de
        self.eto0 = rand_dir(g, n) * 10 ** g.uniform(-5, -2)
        if AXIAL.get(hyp0) is not None:
            self.eto0[AXIAL[hyp0]] = 0.0
        self.tens["ElasticStrain"] = eel0
        if kind == "norton_rk":
            self.tens["evp"] = self.eto0 - eel0
        self.scal[self.pname] = p0

    def apply_parameters(self, lib, name):
        for k, v in self.pars:
            if gbnp.set_parameter(lib, name, k, v) != 1:
                raise RuntimeError("setParameter %s failed for %s" % (k, name))

    def call(self, b, K0=0, tr=None, extra_scal=None, esv=(0.0, 0.0)):
        """tr: function mapping a stensor vector of the case to the target (embedding / rotation)"""
        tr = tr or (lambda v: v)
        kw = {k: tr(v) for k, v in self.tens.items()}
        kw.update(self.scal)
        kw.update(extra_scal or {})
        e0 = tr(self.eto0)
        e1 = tr(self.eto0 + self.de)
        o = b.call(K0, self.dt, e0, e1, tr(self.s0), b.pack_mp(**self.mpkw), b.pack_isv(**kw),
                   b.pack_esv(AxialStress=esv[0]), b.pack_esv(AxialStress=esv[1]))
        return o

    def tol_strain(self, n):
        sc = max([float(np.max(np.abs(v))) for v in self.tens.values()] + [float(np.max(np.abs(self.de))), float(np.max(np.abs(self.eto0)))]
                 + [abs(x) for x in self.scal.values()])
        return (2000 * self.rk_eps if self.explicit else 200 * (n + 2) * EPS_CONV) + 4096 * ULP * sc

    def describe(self):
        d = {"behaviour": self.name, "young": self.young, "nu": self.nu, "dt": self.dt, "eto0": hexs(self.eto0), "deto": hexs(self.de),
             "sig0": fl(self.s0)}
        d.update(getattr(self, "info", {}))
        d.update({k: hexs(v) for k, v in self.tens.items()})
        d.update(self.scal)
        return d


def compare_states(R, key, c, bref, oref, b, o, tr, case, what):
    """tr maps reference tensors to the frame/hypothesis of (b, o)"""
    n = b.ns
    ts = c.tol_strain(n)
    tsig = (abs(c.la) + 2 * c.mu) * ts + 64 * ULP * float(np.max(np.abs(oref["thf"])) + 1)
    err = float(np.max(np.abs(np.array(o["thf"]) - tr(np.array(oref["thf"])))))
    R.rec(key + ":stress", err, tsig, case, "%s: stresses differ: %s vs %s" % (what, fl(o["thf"]), fl(tr(np.array(oref["thf"])))))
    for nme, t, off, sz in bref.d["isvs"]:
        if nme == "AxialStrain":
            continue
        v0 = bref.isv(oref["isv"], nme)
        v1 = b.isv(o["isv"], nme)
        if sz == 1:
            e = abs(v1 - v0)
        else:
            e = float(np.max(np.abs(v1 - tr(v0))))
        R.rec(key + ":state", e, ts, case, "%s: internal state variable %s differs" % (what, nme))


# ------------------------------------------------------------------ (a)(b)(c) isotropic behaviours
def mon_isotropic(R, s, g, ncase):
    lib = gbnp.gen.load(s["lib"])
    name, kind, key = s["name"], s["kind"], s.get("key", s["name"])
    hyps = gbnp.hypotheses(lib, name)
    bs = {h: gbnp.B(lib, name, h) for h in hyps}
    b3 = bs["Tridimensional"]
    # (a) loadings representable in several hypotheses
    for hyp0 in STRAIN_HYPS_1D + STRAIN_HYPS_2D[:1]:
        if hyp0 not in bs:
            continue
        b0 = bs[hyp0]
        targets = [h for h in (STRAIN_HYPS_2D + ["Tridimensional"]) if h in bs and h != hyp0]
        for i in range(ncase):
            c = Case(g, kind, b0, lib, name, hyp0, s)
            c.apply_parameters(lib, name)
            o0 = c.call(b0)
            R.n += 1
            if o0["rc"] != 1:
                R.skip("%s:%s:hypotheses" % (key, hyp0))
                continue
            for h in targets:
                bt = bs[h]
                tr = lambda v, n=bt.ns: embed(v, n)
                o = c.call(bt, tr=tr)
                R.n += 1
                case = lambda: dict(c.describe(), hyp_ref=hyp0, hyp=h, ref_thf=fl(o0["thf"]), thf=fl(o["thf"]), ref_isv=fl(o0["isv"]),
                                    isv=fl(o["isv"]), rc=o["rc"], msg=o["msg"])
                if o["rc"] != 1:
                    R.violation("%s:%s-vs-%s:integration-fails-in-one-hypothesis" % (key, hyp0, h),
                                "the same loading is integrated in %s and fails in %s: %s" % (hyp0, h, o["msg"]), case())
                    continue
                compare_states(R, "%s:%s-vs-%s" % (key, hyp0, h), c, b0, o0, bt, o, tr, case, "same loading in %s and %s" % (hyp0, h))
                # the extra components must vanish
                extra = np.array(o["thf"])[b0.ns:]
                if len(extra):
                    R.rec("%s:%s-vs-%s:extra-components" % (key, hyp0, h), float(np.max(np.abs(extra))),
                          (abs(c.la) + 2 * c.mu) * c.tol_strain(bt.ns), case, "shear components appear: %s" % fl(extra))
            if i < 1:
                R.samples.append(dict(c.describe(), hyp_ref=hyp0, thf=fl(o0["thf"])))
        R.distinct += ncase
    # (b) objectivity in 3D
    for i in range(ncase):
        c = Case(g, kind, b3, lib, name, "Tridimensional", s)
        c.apply_parameters(lib, name)
        Q = gbnp.rand_rotation(g)
        K0 = 4 if s.get("tangent") or kind == "elasticity" else 0
        o0 = c.call(b3, K0=K0)
        tr = lambda v: rot_st(v, Q)
        o = c.call(b3, K0=K0, tr=tr)
        R.n += 2
        case = lambda: dict(c.describe(), Q=fl(Q.ravel()), ref_thf=fl(o0["thf"]), thf=fl(o["thf"]), rc0=o0["rc"], rc=o["rc"])
        if o0["rc"] != 1 or o["rc"] != 1:
            if o0["rc"] != o["rc"]:
                R.violation("%s:rotation:integration-fails-in-one-frame" % key, "rc=%d in the reference frame, %d in the rotated frame" % (o0["rc"], o["rc"]), case())
            else:
                R.skip("%s:rotation" % key)
            continue
        compare_states(R, "%s:rotation" % key, c, b3, o0, b3, o, tr, case, "rotated loading")
        if K0 == 4:
            A = qs_matrix(Q, 3)
            Kr = np.array(o0["K"][:36]).reshape(6, 6)
            Kq = np.array(o["K"][:36]).reshape(6, 6)
            sc = float(np.max(np.abs(Kr)))
            R.rec("%s:rotation:tangent" % key, float(np.max(np.abs(Kq - A @ Kr @ A.T))),
                  (1e-5 if s.get("algo") == "NewtonRaphson_NumericalJacobian" else 1e-7) * sc, case,
                  "tangent operator of the rotated loading is not the rotated tangent operator")
    R.distinct += ncase
    # (c) plane stress: zero axial stress; same response as 3D driven with the axial strain found
    for hyp in ("PlaneStress", "AxisymmetricalGeneralisedPlaneStress"):
        if hyp not in bs:
            continue
        b = bs[hyp]
        ax = AXIAL[hyp]
        full = "Tridimensional" if hyp == "PlaneStress" else "AxisymmetricalGeneralisedPlaneStrain"
        bf = bs[full]
        for i in range(ncase):
            c = Case(g, kind, b, lib, name, hyp, s)
            c.apply_parameters(lib, name)
            szz = (0.0, 0.0)
            etozz0 = g.uniform(-1e-3, 1e-3)
            if hyp != "PlaneStress":
                # a state in equilibrium with the initial axial stress
                szz0 = float(c.s0[ax]) if kind != "elasticity" else g.uniform(-5e7, 5e7)
                szz = (szz0, szz0 + g.uniform(-1e6, 1e6))
            o = c.call(b, extra_scal={"AxialStrain": etozz0}, esv=szz)
            R.n += 1
            case = lambda: dict(c.describe(), hyp=hyp, sigzz=list(szz), etozz0=etozz0, thf=fl(o["thf"]), isv=fl(o["isv"]), rc=o["rc"], msg=o["msg"])
            if o["rc"] != 1:
                R.skip("%s:%s:axial-stress" % (key, hyp))
                continue
            sig = np.array(o["thf"])
            nrm = float(np.linalg.norm(sig)) + abs(szz[1])
            tol = (0.0 if c.explicit else 20 * (b.ns + 2) * EPS_CONV * c.young) + 64 * ULP * max(nrm, (abs(c.la) + 2 * c.mu) * float(np.max(np.abs(c.eto0 + c.de))))
            R.rec("%s:%s:axial-stress" % (key, hyp), abs(sig[ax] - szz[1]), tol, case,
                  "axial stress %r, expected %r (|sigma| = %.3g)" % (float(sig[ax]), szz[1], nrm))
            if kind == "elasticity":
                continue
            # the same step in the hypothesis where the axial strain is an input
            etozz1 = b.isv(o["isv"], "AxialStrain")

            def tr(v, n=bf.ns):
                return embed(v, n)
            c2 = c
            e0s, des = c.eto0.copy(), c.de.copy()
            c.eto0 = c.eto0.copy()
            c.de = c.de.copy()
            c.eto0[ax] = etozz0
            c.de[ax] = etozz1 - etozz0
            of = c.call(bf, tr=tr)
            c.eto0, c.de = e0s, des
            R.n += 1
            if of["rc"] != 1:
                R.skip("%s:%s-vs-%s" % (key, hyp, full))
                continue
            compare_states(R, "%s:%s-vs-%s" % (key, hyp, full), c, b, o, bf, of, tr, lambda: dict(case(), full_thf=fl(of["thf"]), full_isv=fl(of["isv"])),
                           "%s step replayed in %s with the axial strain found" % (hyp, full))
        R.distinct += ncase


# ------------------------------------------------------------------ (d) rotate* helper functions
def _fn(lib, sym, array):
    f = getattr(lib, sym)
    f.restype = None
    f.argtypes = [gbnp.gen.c_double_p, gbnp.gen.c_double_p, gbnp.gen.c_double_p] + ([C.c_size_t] if array else [])
    return f


def call_rot(lib, sym, src, rv, nout, npts=None, inplace=False):
    a_src = gbnp.gen.arr(list(src))
    a_rv = gbnp.gen.arr(list(rv))
    if inplace:
        assert nout * (npts or 1) <= len(src) or True
        a_dst = a_src
    else:
        a_dst = gbnp.gen.arr([7.25e33] * (nout * (npts or 1)))
    f = _fn(lib, sym, npts is not None)
    args = [C.cast(a_dst, gbnp.gen.c_double_p), C.cast(a_src, gbnp.gen.c_double_p), C.cast(a_rv, gbnp.gen.c_double_p)]
    if npts is not None:
        args.append(npts)
    f(*args)
    return np.array(list(a_dst)[:nout * (npts or 1)])


def rand_frame(g, dim):
    """rotation matrix from the global frame to the material frame (v_m = M v_g)"""
    if dim == 3:
        return gbnp.rand_rotation(g)
    if dim == 2:
        return gbnp.rot_z(g.uniform(-math.pi, math.pi)).T
    return np.eye(3)


def mon_rotate_functions(R, s, g, ncase):
    """documented convention (docs/web/generic-behaviours-interface.md): third argument = rotation matrix from the
    global frame to the material frame, 9 components, column-major; gradients: global -> material; thermodynamic
    forces and tangent operator blocks: material -> global (matrix transposed internally)."""
    lib = gbnp.gen.load(s["lib"])
    name, key = s["name"], s.get("key", s["name"])
    fs = s["kind"] == "ortho_finite_strain"
    for hyp in gbnp.hypotheses(lib, name):
        dim = gbnp.gen.HYP_DIM[hyp]
        ns, nt = SSIZE[dim], TSIZE[dim]
        pre = "%s_%s_" % (name, hyp)
        for i in range(ncase):
            Mx = rand_frame(g, dim)
            rv = Mx.T.ravel()  # column-major storage of Mx
            Qg = qt_matrix(Mx, dim) if fs else qs_matrix(Mx, dim)   # gradients, global -> material
            ng = nt if fs else ns
            grad = np.array([g.uniform(-1, 1) for _ in range(ng)]) * 10 ** g.uniform(-3, 0) + (np.array(m2t(np.eye(3), dim)) if fs else 0)
            case0 = {"behaviour": name, "hyp": hyp, "rv": fl(rv)}
            got = call_rot(lib, pre + "rotateGradients", grad, rv, ng)
            exp = Qg @ grad
            R.n += 1
            R.rec("%s:%s:rotateGradients" % (key, hyp), float(np.max(np.abs(got - exp))), 64 * ULP * float(np.linalg.norm(grad)),
                  dict(case0, src=fl(grad), got=fl(got), expected=fl(exp)), "rotateGradients differs from M g M^T")
            got2 = call_rot(lib, pre + "rotateGradients", grad, rv, ng, inplace=True)
            R.rec("%s:%s:rotateGradients-inplace" % (key, hyp), float(np.max(np.abs(got2 - exp))), 64 * ULP * float(np.linalg.norm(grad)),
                  dict(case0, src=fl(grad), got=fl(got2), expected=fl(exp)), "in-place rotateGradients differs from M g M^T")
            npts = g.randint(1, 5)
            arrg = np.array([g.uniform(-1, 1) for _ in range(ng * npts)])
            gota = call_rot(lib, pre + "rotateArrayOfGradients", arrg, rv, ng, npts=npts)
            expa = np.concatenate([Qg @ arrg[k * ng:(k + 1) * ng] for k in range(npts)])
            R.rec("%s:%s:rotateArrayOfGradients" % (key, hyp), float(np.max(np.abs(gota - expa))), 64 * ULP * float(np.linalg.norm(arrg)),
                  dict(case0, src=fl(arrg), got=fl(gota), expected=fl(expa), npts=npts), "rotateArrayOfGradients differs from the point-wise rotation")
            # thermodynamic forces: material -> global
            QsT, QtT = qs_matrix(Mx.T, dim), qt_matrix(Mx.T, dim)
            forces = [("rotateThermodynamicForces", "rotateArrayOfThermodynamicForces", QsT, ns)] if not fs else [
                ("rotateThermodynamicForces_CauchyStress", "rotateArrayOfThermodynamicForces_CauchyStress", QsT, ns),
                ("rotateThermodynamicForces_PK2Stress", "rotateArrayOfThermodynamicForces_PK2Stress", QsT, ns),
                ("rotateThermodynamicForces_PK1Stress", "rotateArrayOfThermodynamicForces_PK1Stress", QtT, nt)]
            for fn, afn, Qf, nf in forces:
                src = np.array([g.uniform(-1, 1) for _ in range(nf)]) * 10 ** g.uniform(0, 9)
                got = call_rot(lib, pre + fn, src, rv, nf)
                exp = Qf @ src
                R.n += 1
                R.rec("%s:%s:%s" % (key, hyp, fn), float(np.max(np.abs(got - exp))), 64 * ULP * float(np.linalg.norm(src)),
                      dict(case0, src=fl(src), got=fl(got), expected=fl(exp)), "%s differs from M^T f M" % fn)
                got = call_rot(lib, pre + fn, src, rv, nf, inplace=True)
                R.rec("%s:%s:%s-inplace" % (key, hyp, fn), float(np.max(np.abs(got - exp))), 64 * ULP * float(np.linalg.norm(src)),
                      dict(case0, src=fl(src), got=fl(got), expected=fl(exp)), "in-place %s differs from M^T f M" % fn)
                arrs = np.array([g.uniform(-1, 1) for _ in range(nf * npts)])
                gota = call_rot(lib, pre + afn, arrs, rv, nf, npts=npts)
                expa = np.concatenate([Qf @ arrs[k * nf:(k + 1) * nf] for k in range(npts)])
                R.rec("%s:%s:%s" % (key, hyp, afn), float(np.max(np.abs(gota - expa))), 64 * ULP * float(np.linalg.norm(arrs)),
                      dict(case0, src=fl(arrs), got=fl(gota), expected=fl(expa), npts=npts), "%s differs from the point-wise rotation" % afn)
            # tangent operator blocks: material -> global: K_g = Q_out K_m Q_in^T
            ops = [("rotateTangentOperatorBlocks", "rotateArrayOfTangentOperatorBlocks", QsT, ns, QsT, ns)] if not fs else [
                ("rotateTangentOperatorBlocks_dsig_dF", "rotateArrayOfTangentOperatorBlocks_dsig_dF", QsT, ns, QtT, nt),
                ("rotateTangentOperatorBlocks_dtau_ddF", "rotateArrayOfTangentOperatorBlocks_dtau_ddF", QsT, ns, QtT, nt),
                ("rotateTangentOperatorBlocks_dPK1_dF", "rotateArrayOfTangentOperatorBlocks_dPK1_dF", QtT, nt, QtT, nt),
                ("rotateTangentOperatorBlocks_dPK2_dEGL", "rotateArrayOfTangentOperatorBlocks_dPK2_dEGL", QsT, ns, QsT, ns)]
            for fn, afn, Qo, no, Qi, ni in ops:
                try:
                    getattr(lib, pre + fn)
                except AttributeError:
                    R.count("%s:missing-symbol:%s" % (key, fn))
                    continue
                Km = np.array([[g.uniform(-1, 1) for _ in range(ni)] for _ in range(no)]) * 1e11
                got = call_rot(lib, pre + fn, Km.ravel(), rv, no * ni).reshape(no, ni)
                exp = Qo @ Km @ Qi.T
                R.n += 1
                R.rec("%s:%s:%s" % (key, hyp, fn), float(np.max(np.abs(got - exp))), 256 * ULP * float(np.linalg.norm(Km)),
                      dict(case0, src=fl(Km.ravel()), got=fl(got.ravel()), expected=fl(exp.ravel())), "%s differs from the rotated fourth order tensor" % fn)
                got = call_rot(lib, pre + fn, Km.ravel(), rv, no * ni, inplace=True).reshape(no, ni)
                R.rec("%s:%s:%s-inplace" % (key, hyp, fn), float(np.max(np.abs(got - exp))), 256 * ULP * float(np.linalg.norm(Km)),
                      dict(case0, src=fl(Km.ravel()), got=fl(got.ravel()), expected=fl(exp.ravel())), "in-place %s differs" % fn)
                arrk = np.array([g.uniform(-1, 1) for _ in range(no * ni * npts)]) * 1e11
                gota = call_rot(lib, pre + afn, arrk, rv, no * ni, npts=npts)
                expa = np.concatenate([(Qo @ arrk[k * no * ni:(k + 1) * no * ni].reshape(no, ni) @ Qi.T).ravel() for k in range(npts)])
                R.rec("%s:%s:%s" % (key, hyp, afn), float(np.max(np.abs(gota - expa))), 256 * ULP * float(np.linalg.norm(arrk)),
                      dict(case0, got=fl(gota), expected=fl(expa), npts=npts), "%s differs from the point-wise rotation" % afn)
        R.distinct += ncase


def mon_ortho_invariance(R, s, g, ncase):
    """a behaviour declared orthotropic with isotropic constants: rotating the loading to any material frame,
    integrating there and rotating the stress and the operator back gives the response obtained without rotation"""
    lib = gbnp.gen.load(s["lib"])
    name, key = s["name"], s.get("key", s["name"])
    young, nu = s["young"], s["nu"]
    la, mu = gbnp.lame(young, nu)
    for hyp in gbnp.hypotheses(lib, name):
        b = gbnp.B(lib, name, hyp)
        dim, n = b.dim, b.ns
        ax = AXIAL.get(hyp)
        pre = "%s_%s_" % (name, hyp)
        for i in range(ncase):
            Mx = rand_frame(g, dim)
            rv = Mx.T.ravel()
            e0 = rand_dir(g, n) * 10 ** g.uniform(-6, -2.5)
            de = M.rand_increment(g, n, hyp, -6, -2.5)
            if ax is not None:
                e0[ax] = 0.0
            e1 = e0 + de
            o_ref = b.call(4, 1.0, e0, e1, np.zeros(n), [], [], b.pack_esv(), b.pack_esv())
            g0 = call_rot(lib, pre + "rotateGradients", e0, rv, n)
            g1 = call_rot(lib, pre + "rotateGradients", e1, rv, n)
            o = b.call(4, 1.0, g0, g1, np.zeros(n), [], [], b.pack_esv(), b.pack_esv())
            R.n += 2
            case = lambda: {"behaviour": name, "hyp": hyp, "rv": fl(rv), "eto0": hexs(e0), "eto1": hexs(e1), "thf_ref": fl(o_ref["thf"]), "rc": o["rc"]}
            if o["rc"] != 1 or o_ref["rc"] != 1:
                R.violation("%s:%s:integration-failed" % (key, hyp), "elastic behaviour returned %d/%d" % (o_ref["rc"], o["rc"]), case())
                continue
            sg = call_rot(lib, pre + "rotateThermodynamicForces", o["thf"], rv, n)
            sc = (abs(la) + 2 * mu) * float(np.sum(np.abs(e1)))
            R.rec("%s:%s:frame-invariance" % (key, hyp), float(np.max(np.abs(sg - np.array(o_ref["thf"])))), 1024 * ULP * sc, case,
                  "stress integrated in a rotated material frame and rotated back differs: %s vs %s" % (fl(sg), fl(o_ref["thf"])))
            Kg = call_rot(lib, pre + "rotateTangentOperatorBlocks", o["K"][:n * n], rv, n * n)
            Kref = np.array(o_ref["K"][:n * n])
            R.rec("%s:%s:frame-invariance-tangent" % (key, hyp), float(np.max(np.abs(Kg - Kref))), 1024 * ULP * float(np.max(np.abs(Kref))), case,
                  "tangent operator computed in a rotated material frame and rotated back differs")
            # and the isotropic closed form
            if ax is None:
                R.rec("%s:%s:hooke" % (key, hyp), float(np.max(np.abs(np.array(o_ref["thf"]) - hooke(young, nu, e1)))), 2048 * ULP * sc, case,
                      "stress differs from Hooke's law")
        R.distinct += ncase


# ------------------------------------------------------------------ orthotropic axes conventions
def ortho_stiffness(c9):
    """3D stiffness (Mandel, order 11 22 33 12 13 23) from E1 E2 E3 nu12 nu23 nu13 G12 G23 G13 through the compliance"""
    E1, E2, E3, n12, n23, n13, G12, G23, G13 = c9
    S = np.zeros((6, 6))
    S[0, 0], S[1, 1], S[2, 2] = 1 / E1, 1 / E2, 1 / E3
    S[0, 1] = S[1, 0] = -n12 / E1
    S[1, 2] = S[2, 1] = -n23 / E2
    S[0, 2] = S[2, 0] = -n13 / E1
    S[3, 3], S[4, 4], S[5, 5] = 1 / (2 * G12), 1 / (2 * G13), 1 / (2 * G23)
    return np.linalg.inv(S)


PLANE_HYPS = ("PlaneStress", "PlaneStrain", "GeneralisedPlaneStrain")


def slot_map(conv, hyp):
    """index in the 3D material-frame vector of every component stored in hypothesis `hyp`.
    Pipe convention (OrthotropicAxesConvention.hxx): (rr, zz, tt) = material axes (1, 2, 3) in 3D, axisymmetrical and 1D
    hypotheses; (rr, tt, zz) in plane stress / strain / generalised plane strain: second and third axes exchanged, the
    in-plane shear is then the 1-3 shear.  Default and Plate: no exchange."""
    d = gbnp.gen.HYP_DIM[hyp]
    if d == 3:
        return [0, 1, 2, 3, 4, 5]
    if d == 1:
        return [0, 1, 2]
    if conv == "Pipe" and hyp in PLANE_HYPS:
        return [0, 2, 1, 4]
    return [0, 1, 2, 3]


def mon_ortho_conventions(R, s, g, ncase):
    lib = gbnp.gen.load(s["lib"])
    name, key, conv, fam = s["name"], s.get("key", s["name"]), s["convention"], s["family"]
    c9 = s["constants"]
    D3 = ortho_stiffness(c9)
    hyps = gbnp.hypotheses(lib, name)
    b3 = gbnp.B(lib, name, "Tridimensional")
    dscale = float(np.max(np.abs(D3)))

    def mps(hyp):
        if fam != "required":
            return []
        d = gbnp.gen.HYP_DIM[hyp]
        # Default convention: the constants are given in the axes of the hypothesis (first 6 / 7 / 9 of them)
        return [float(x) for x in (c9[:6] if d == 1 else (c9[:7] if d == 2 else c9))]

    def call(b, hyp, K0, e0, e1, isv=None, esv=(0.0, 0.0)):
        bb = b
        mp = mps(hyp)
        bb.b.nmp = len(mp)
        kw = {"ElasticStrain": np.zeros(b.ns)}
        kw.update(isv or {})
        return bb.call(K0, 1.0, e0, e1, np.zeros(b.ns), mp, b.pack_isv(**kw), b.pack_esv(AxialStress=esv[0]), b.pack_esv(AxialStress=esv[1]))
    for hyp in hyps:
        b = gbnp.B(lib, name, hyp)
        n, dim = b.ns, b.dim
        p3 = slot_map(conv, hyp)
        DH = D3[np.ix_(p3, p3)]
        out = {"PlaneStress": 2, "AxisymmetricalGeneralisedPlaneStress": 1}.get(hyp)
        inp = [i for i in range(n) if i != out]
        pre = "%s_%s_" % (name, hyp)
        for i in range(ncase):
            e1 = rand_dir(g, n) * 10 ** g.uniform(-5, -2.5)
            szz = g.uniform(-5e7, 5e7) if hyp == "AxisymmetricalGeneralisedPlaneStress" else 0.0
            etozz0 = g.uniform(-1e-4, 1e-4)
            if out is not None:
                e1[out] = 0.0
            e0 = np.zeros(n)
            escale = float(np.sum(np.abs(e1))) + abs(szz) / dscale
            tol = 1e-12 * dscale * escale

            def expected(em):
                """stress and operator in the storage of the hypothesis for the strain em (numpy, from D3)"""
                if out is None:
                    return DH @ em, DH, None
                Doo = DH[out, out]
                eo = (szz - DH[out, inp] @ em[inp]) / Doo
                ef = em.copy()
                ef[out] = eo
                Kc = np.zeros((n, n))
                Kc[np.ix_(inp, inp)] = DH[np.ix_(inp, inp)] - np.outer(DH[inp, out], DH[out, inp]) / Doo
                return DH @ ef, Kc, eo
            # ---- material frame
            o = call(b, hyp, 4, e0, e1, isv={"AxialStrain": etozz0}, esv=(0.0, szz))
            R.n += 1
            case = lambda: {"behaviour": name, "convention": conv, "family": fam, "hyp": hyp, "eto1": hexs(e1), "sigzz": szz,
                            "constants": c9, "rc": o["rc"], "thf": fl(o["thf"]), "msg": o["msg"]}
            if o["rc"] != 1:
                R.violation("%s:%s:integration-failed" % (key, hyp), "orthotropic elastic step returned %d: %s" % (o["rc"], o["msg"]), case())
                continue
            sig = np.array(o["thf"])
            sexp, Kexp, eo = expected(e1)
            R.rec("%s:%s:stress-vs-3D-stiffness" % (key, hyp), float(np.max(np.abs(sig - sexp))), tol, case,
                  "stress differs from the reduction of the 3D orthotropic stiffness for the %s convention: got %s expected %s" % (conv, fl(sig), fl(sexp)))
            K = np.array(o["K"][:n * n]).reshape(n, n)
            sub = np.ix_(inp, inp)
            R.rec("%s:%s:operator-vs-3D-stiffness" % (key, hyp), float(np.max(np.abs(K[sub] - Kexp[sub]))), 1e-12 * dscale, case,
                  "tangent operator differs from the reduction of the 3D orthotropic stiffness: got %s expected %s" % (fl(K[sub].ravel()), fl(Kexp[sub].ravel())))
            if eo is not None and fam == "brick":
                R.rec("%s:%s:axial-strain" % (key, hyp), abs(b.isv(o["isv"], "AxialStrain") - etozz0 - eo), 1e-12 * escale + 1e-22, case,
                      "axial strain increment differs from the one zeroing / prescribing the axial stress")
            # ---- the same loading given to the Tridimensional entry point of the same library
            if hyp != "Tridimensional":
                v3 = np.zeros(6)
                ef = e1.copy()
                if out is not None:
                    ef[out] = eo
                v3[p3] = ef
                o3 = call(b3, "Tridimensional", 0, np.zeros(6), v3)
                R.n += 1
                if o3["rc"] == 1:
                    R.rec("%s:%s:stress-vs-Tridimensional" % (key, hyp), float(np.max(np.abs(sig - np.array(o3["thf"])[p3]))), tol,
                          lambda: dict(case(), thf_3D=fl(o3["thf"])), "stress differs from the Tridimensional response to the same loading (components %s)" % p3)
            # ---- through the generated rotation functions (global frame -> material frame -> global frame)
            if dim >= 2:
                Mx = rand_frame(g, dim)
                rv = Mx.T.ravel()
                eg = rand_dir(g, n) * 10 ** g.uniform(-5, -2.5)
                if out is not None:
                    eg[out] = 0.0
                gm = call_rot(lib, pre + "rotateGradients", eg, rv, n)
                om = call(b, hyp, 4, np.zeros(n), gm, isv={"AxialStrain": etozz0}, esv=(0.0, szz))
                R.n += 1
                if om["rc"] != 1:
                    R.violation("%s:%s:integration-failed" % (key, hyp), "orthotropic elastic step returned %d" % om["rc"], case())
                    continue
                sg = call_rot(lib, pre + "rotateThermodynamicForces", om["thf"], rv, n)
                Kg = call_rot(lib, pre + "rotateTangentOperatorBlocks", om["K"][:n * n], rv, n * n).reshape(n, n)
                Qg, Qb = qs_matrix(Mx, dim), qs_matrix(Mx.T, dim)
                sm_exp, Km_exp, _ = expected(Qg @ eg)
                sg_exp, Kg_exp = Qb @ sm_exp, Qb @ Km_exp @ Qb.T
                cr = lambda: dict(case(), rv=fl(rv), eto_global=hexs(eg), got=fl(sg), expected=fl(sg_exp))
                R.rec("%s:%s:rotated-stress" % (key, hyp), float(np.max(np.abs(sg - sg_exp))), 1e-12 * dscale * float(np.sum(np.abs(eg))) + 1e-12 * abs(szz), cr,
                      "stress of a loading given in the global frame (rotateGradients, integration, rotateThermodynamicForces) differs from the numpy rotation of the 3D-stiffness response")
                R.rec("%s:%s:rotated-operator" % (key, hyp), float(np.max(np.abs(Kg[sub] - Kg_exp[sub]))), 1e-12 * dscale, cr,
                      "operator rotated by rotateTangentOperatorBlocks differs from the numpy rotation of the reduced 3D stiffness")
        R.distinct += ncase


def run(group, seed, ncase):
    M.self_test()
    R = M.Strata()
    for s in group:
        g = random.Random("c44/%s/%s" % (seed, s["name"]))
        k = s["kind"]
        if k == "ortho_convention":
            mon_ortho_conventions(R, s, g, ncase)
        elif k in ("ortho_iso", "ortho_elastic", "ortho_finite_strain"):
            mon_rotate_functions(R, s, g, ncase)
            if k == "ortho_iso":
                mon_ortho_invariance(R, s, g, ncase)
        else:
            mon_isotropic(R, s, g, ncase)
    return R.report()
