"""C51 — MTest and tfel-check verdicts are sound (DESIGN.md §4.6)."""
import math
import re

import vfcore
from checks import mt_common as M

META = {
    "engine": "mtest", "level": "exploration", "design_ref": "DESIGN.md §4.6 C51",
    "technique": "generated .check + data files judged by the real tfel-check binary (per-comparison verdicts read from the .checklog), AreaComparison::compare of libTFELCheck driven directly, generated .mtest files with one @Test each on an echo behaviour; verdicts compared with an independent evaluation of the documented criteria, only where every reasonable reading of a criterion gives the same answer with a 1e-9 margin",
    "text": "Random columns (positive, negative, mixed sign, with zeros, huge, tiny; NaN and +-Inf planted at random rows of either file; tolerances 0, 1 and log-uniform in between; columns addressed by name or number; None/Linear/Spline/LocalSpline interpolation on refined grids) are compared by tfel-check with Absolute, Relative, RelativeAndAbsolute and Mixed tests, one @TestType per @Test. A comparison reported as a success although a compared value is non finite or a row is outside the tolerance under every reading of the criterion (relative to |a|, |b|, min or max; 'and'/'or' combination) is a violation; so is a failure of a finite column compared with itself, alone or after another comparison of the same @TestType block failed. Area: through the binary (identical curves must succeed) and through a direct driver of AreaComparison::compare (identical curves, same-sign differences on identical or refined grids so that the trapezoidal area is exact, normalisation by max|reference|). MTest: an echo behaviour copies an external state variable into an internal one, so the generator chooses the computed column; @Test<function> and @Test<file> with one test per run must not report success when a row is off by more than eps or a computed/reference value is non finite.",
    "note": "Only 'success although it should fail' and 'self-comparison fails' are judged (the property is one-directional); failures of comparisons that should pass are counted. Ambiguous cases (readings of an undocumented criterion disagree, or a row within 1e-9 of the limit) are skipped and counted. Trusted: python float arithmetic for the oracle.",
}

TYPES = ["Absolute", "Relative", "RelativeAndAbsolute", "Mixed"]
TWO_PREC = {"RelativeAndAbsolute", "Mixed"}
INTERP = ["None", "Linear", "Spline", "LocalSpline"]
DBL_MIN100 = 100 * 2.2250738585072014e-308
MARGIN = 1e-9


def build(ctx):
    libs = M.build_libs(["VfEcho"])
    area = vfcore.compile_cxx("c51_area", [vfcore.VERIF / "harness/mtest/c51_area.cxx"], "plain",
                              libs=("TFELCheck", "TFELUtilities", "TFELMath", "TFELException"))
    return libs, area


# ----------------------------------------------------------------------------- data

def tok(x):
    if x != x:
        return "nan"
    if x == math.inf:
        return "inf"
    if x == -math.inf:
        return "-inf"
    return repr(float(x))


def rand_column(g, n, cls):
    def mag():
        return 10.0 ** g.uniform(-3, 6)
    if cls == "positive":
        return [mag() for _ in range(n)]
    if cls == "negative":
        return [-mag() for _ in range(n)]
    if cls == "mixed":
        v = [mag() * g.choice([-1, 1]) for _ in range(n)]
        v[0], v[1] = abs(v[0]), -abs(v[1])
        return v
    if cls == "zeros":
        v = [mag() * g.choice([-1, 1]) if g.random() < 0.5 else 0.0 for _ in range(n)]
        v[g.randrange(n)] = 0.0
        return v
    if cls == "huge":
        return [g.choice([-1, 1]) * 10.0 ** g.uniform(280, 300) for _ in range(n)]
    if cls == "tiny":
        return [g.choice([-1, 1]) * 10.0 ** g.uniform(-300, -280) for _ in range(n)]
    raise ValueError(cls)


CLASSES = ["positive", "negative", "mixed", "zeros", "huge", "tiny"]


def sign_class(col):
    f = [x for x in col if math.isfinite(x)]
    if all(x == 0 for x in f):
        return "zero"
    if all(x >= 0 for x in f):
        return "positive"
    if all(x <= 0 for x in f):
        return "negative"
    return "mixed-sign"


def rand_prec(g, scale=1.0):
    u = g.random()
    if u < 0.1:
        return 0.0
    if u < 0.2:
        return 1.0 * scale
    return 10.0 ** g.uniform(-12, 0) * scale


def row_verdict(typ, a, b, p1, p2):
    """-> 'ok' (within tolerance under every reading), 'bad' (outside under every reading), 'amb'"""
    err = abs(a - b)
    lo, hi = min(abs(a), abs(b)), max(abs(a), abs(b))
    if not math.isfinite(err):
        return "amb"   # overflow of the difference of finite values: not judged

    def le(x, y):   # x <= y with margin -> True / False / None
        if x <= y * (1 - MARGIN) - 5e-324 or (x == 0 and y >= 0):
            return True
        if x > y * (1 + MARGIN) + 5e-324:
            return False
        return None
    if typ == "Absolute":
        r = le(err, p1)
        return "amb" if r is None else ("ok" if r else "bad")
    rel_ok = le(err, p1 * (lo + DBL_MIN100)) is True          # passes with the smallest denominator
    rel_bad = le(err, p1 * (hi + DBL_MIN100)) is False        # fails with the largest one
    if typ == "Relative":
        return "ok" if rel_ok else ("bad" if rel_bad else "amb")
    if typ == "RelativeAndAbsolute":
        a_ok, a_bad = le(err, p2) is True, le(err, p2) is False
        if rel_ok and a_ok:
            return "ok"
        if rel_bad and a_bad:
            return "bad"
        return "amb"
    if typ == "Mixed":
        if le(err, p1 * lo + p2) is True:
            return "ok"
        if le(err, p1 * hi + p2) is False:
            return "bad"
        return "amb"
    raise ValueError(typ)


NONFINITE = ["nan-a", "nan-b", "nan-both", "inf-a", "inf-b", "inf-both-same", "inf-both-opposite"]


def make_pair(g, typ, n, cls=None, mode=None, nfkind=None):
    """-> dict(a, b, p1, p2, cls, expected 'success'|'failure'|'amb', cause)"""
    cls = cls or g.choice(CLASSES)
    a = rand_column(g, n, cls)
    scale = max(abs(x) for x in a)
    p1 = rand_prec(g, scale if typ == "Absolute" else 1.0)
    p2 = rand_prec(g, scale) if typ in TWO_PREC else 0.0
    mode = mode or g.choice(["inside", "inside", "outside", "equal", "nonfinite", "nonfinite"])
    b = list(a)
    if mode in ("inside", "outside", "nonfinite"):
        for k in range(n):
            if typ == "Absolute":
                lim = p1
            elif typ == "Relative":
                lim = p1 * abs(a[k])
            elif typ == "Mixed":
                lim = p1 * abs(a[k]) + p2
            else:
                lim = max(p1 * abs(a[k]), p2)
            if mode == "outside" and (k == 0 or g.random() < 0.3):
                d = max(lim * g.uniform(3, 30), abs(a[k]) * 1e-6, 1e-300)
            else:
                d = lim * g.uniform(0, 0.3) if typ != "RelativeAndAbsolute" else min(p1 * abs(a[k]), p2) * g.uniform(0, 0.3)
            b[k] = a[k] + d * g.choice([-1, 1])
    cause = None
    if mode == "nonfinite":
        kind = nfkind or g.choice(NONFINITE)
        for k in sorted(g.sample(range(n), g.randrange(1, 3))):
            s = 1 if nfkind else g.choice([-1, 1])     # ("-inf" is not readable by TextData: such files are rejected, which is fine)
            if kind == "nan-a":
                a[k] = math.nan
            elif kind == "nan-b":
                b[k] = math.nan
            elif kind == "nan-both":
                a[k] = b[k] = math.nan
            elif kind == "inf-a":
                a[k] = s * math.inf
            elif kind == "inf-b":
                b[k] = s * math.inf
            elif kind == "inf-both-same":
                a[k] = b[k] = s * math.inf
            else:
                a[k], b[k] = s * math.inf, -s * math.inf
        cause = "nan-accepted" if kind.startswith("nan") else "inf-accepted"
        exp = "failure"
    else:
        v = [row_verdict(typ, x, y, p1, p2) for x, y in zip(a, b)]
        if any(x == "bad" for x in v):
            exp, cause = "failure", "out-of-tolerance-accepted"
        elif all(x == "ok" for x in v):
            exp = "success"
        else:
            exp = "amb"
    return {"a": a, "b": b, "p1": p1, "p2": p2, "cls": cls, "expected": exp, "cause": cause, "mode": mode, "type": typ}


def write_table(path, t, cols, legends=("t", "x", "y")):
    with open(path, "w") as f:
        f.write(" ".join(legends[:1 + len(cols)]) + "\n")
        for k in range(len(t)):
            f.write(" ".join([tok(t[k])] + [tok(c[k]) for c in cols]) + "\n")


def prec_line(typ, p1, p2):
    return "@Precision %s%s;" % (repr(p1), (" " + repr(p2)) if typ in TWO_PREC else "")


# ----------------------------------------------------------------------------- tfel-check batches

def gen_batch(seed, bi, ncmp):
    """one directory, one .check, ncmp comparisons; -> (files {name: writer args}, check text, list of expectations)"""
    g = vfcore.rng(seed, "c51", "batch", bi)
    files, lines, exps = {}, [], []
    core = []
    if bi == 0:
        # batch 0 is structured: every (type, non finite kind) and every (type, self-compared column class) is present whatever the seed
        for typ in TYPES:
            core += [(typ, "pair", None, nf) for nf in NONFINITE] + [(typ, "self", cls, None) for cls in CLASSES] + [(typ, "sticky", None, None)]
        ncmp = len(core)
    for k in range(ncmp):
        typ = TYPES[(bi + k) % 4]
        n = g.randrange(3, 13)
        kind = g.choice(["pair", "pair", "pair", "self", "interp", "sticky"])
        fcls = fnf = None
        if core:
            typ, kind, fcls, fnf = core[k]
        t = sorted({round(g.uniform(0, 100), 6) for _ in range(n)})
        while len(t) < n:
            t.append(t[-1] + 1.0)
        byname = g.random() < 0.5
        colref = "'x'" if byname else "2"
        fa, fb = "a%d.txt" % k, "b%d.txt" % k
        e = {"k": k, "type": typ, "kind": kind, "ncompare": 1}
        if kind == "pair":
            pr = make_pair(g, typ, n, cls="positive" if fnf else None, mode="nonfinite" if fnf else None, nfkind=fnf)
            files[fa] = (t, [pr["a"]])
            files[fb] = (t, [pr["b"]])
            lines += ["@Interpolation None;", "@TestType %s;" % typ, prec_line(typ, pr["p1"], pr["p2"]), "@Test '%s' '%s' %s;" % (fa, fb, colref)]
            e.update(pr)
        elif kind == "self":
            cls = fcls or g.choice(CLASSES)
            col = rand_column(g, n, cls)
            scale = max(abs(x) for x in col)
            p1 = rand_prec(g, scale if typ == "Absolute" else 1.0)
            p2 = rand_prec(g, scale) if typ in TWO_PREC else 0.0
            if fcls:
                p1, p2 = (1e-3 * scale if typ == "Absolute" else 1e-3), (1e-9 * scale if typ in TWO_PREC else 0.0)
            files[fa] = (t, [col])
            lines += ["@Interpolation None;", "@TestType %s;" % typ, prec_line(typ, p1, p2), "@Test '%s' '%s' %s;" % (fa, fa, colref)]
            e.update({"a": col, "b": col, "p1": p1, "p2": p2, "cls": cls, "expected": "success", "self": True})
        elif kind == "interp":
            # reference on a refined grid containing the times of the first file; finite values only
            itp = g.choice(INTERP[1:])
            pr = make_pair(g, typ, n)
            while pr["mode"] == "nonfinite" or pr["cls"] in ("huge", "tiny"):
                pr = make_pair(g, typ, n)
            t2, b2 = [], []
            for i in range(n):
                t2.append(t[i])
                b2.append(pr["b"][i])
                if i + 1 < n and g.random() < 0.6:
                    w = g.uniform(0.2, 0.8)
                    t2.append(t[i] + w * (t[i + 1] - t[i]))
                    b2.append(pr["b"][i] + w * (pr["b"][i + 1] - pr["b"][i]) + g.uniform(-1, 1) * abs(pr["b"][i]) * 0.01)
            files[fa] = (t, [pr["a"]])
            files[fb] = (t2, [b2])
            lines += ["@Interpolation %s using 't';" % itp, "@TestType %s;" % typ, prec_line(typ, pr["p1"], pr["p2"]),
                      "@Test '%s' '%s' %s;" % (fa, fb, colref)]
            e.update(pr)
            e["interp"] = itp
            if itp != "Linear" and e["expected"] != "amb":
                # splines pass through their nodes up to rounding: keep a wider margin
                worst = max(abs(x) for x in pr["b"]) * 1e-7
                rv = [row_verdict(typ, x, y + s * worst, pr["p1"], pr["p2"]) for x, y in zip(pr["a"], pr["b"]) for s in (-1, 1)]
                if not (all(v == "ok" for v in rv) or (e["expected"] == "failure" and any(
                        all(row_verdict(typ, x, y + s * worst, pr["p1"], pr["p2"]) == "bad" for s in (-1, 1)) for x, y in zip(pr["a"], pr["b"])))):
                    e["expected"] = "amb"
        else:  # sticky: a failing comparison then a self comparison under the same @TestType
            pr = make_pair(g, typ, n)
            while not (pr["expected"] == "failure" and pr["mode"] == "outside"):
                pr = make_pair(g, typ, n)
            files[fa] = (t, [pr["a"]])
            files[fb] = (t, [pr["b"]])
            lines += ["@Interpolation None;", "@TestType %s;" % typ, prec_line(typ, pr["p1"], pr["p2"]),
                      "@Test '%s' '%s' %s;" % (fa, fb, colref), "@Test '%s' '%s' %s;" % (fb, fb, colref)]
            e.update(pr)
            e["ncompare"] = 2
            e["second_self_cls"] = sign_class(pr["b"])
        exps.append(e)
    return files, "\n".join(lines) + "\n", exps


RE_CMP = re.compile(r"^(\S+):Compare-(\d+)\s+\[\s*(SUCCESS|FAILED)\]", re.M)


def run_tfel_check(ctx, d, name):
    r = vfcore.run([vfcore.tool("plain", "tfel-check"), name + ".check"], timeout=120, cwd=d, env=M.env(), merge=True)
    verd = {}
    try:
        for m in RE_CMP.finditer((d / (name + ".checklog")).read_text()):
            verd[int(m.group(2))] = (m.group(3) == "SUCCESS")
    except OSError:
        pass
    return r, verd


def describe(e, n=4):
    return "type %s, precision %r%s, column class %s, first rows a=%s b=%s" % (
        e["type"], e["p1"], (" %r" % e["p2"]) if e["type"] in TWO_PREC else "", e.get("cls"),
        [tok(x) for x in e["a"][:n]], [tok(x) for x in e["b"][:n]])


def do_batch(ctx, bi, ncmp, flip=None):
    files, chk, exps = gen_batch(ctx.seed, bi, ncmp)
    d = ctx.work / ("b%d" % bi)
    d.mkdir(parents=True, exist_ok=True)
    for fn, (t, cols) in files.items():
        write_table(d / fn, t, cols)
    (d / "c.check").write_text(chk)
    r, verd = run_tfel_check(ctx, d, "c")
    res = {"viol": [], "counts": {}, "n": 0}

    def cnt(k, n=1):
        res["counts"][k] = res["counts"].get(k, 0) + n
    crash = ctx.classify_crash(r)
    nexp = sum(e["ncompare"] for e in exps)
    if crash == "hang":
        cnt("watchdog")
        return res
    if crash:
        res["viol"].append(("tfel-check:crash:%s" % crash, "tfel-check died (%s) on generated Absolute/Relative/Mixed comparisons\n%s" % (crash, r.out[-800:]),
                            {"check": chk}))
        return res
    if len(verd) != nexp:
        cnt("batches_with_missing_verdicts")
        res["incomplete"] = "batch %d: %d verdicts for %d comparisons\n%s" % (bi, len(verd), nexp, r.out[-600:])
        return res
    idx = 1
    for e in exps:
        v = verd[idx]
        if flip:
            v = flip(e, v)
        idx += 1
        res["n"] += 1
        typ = e["type"]
        rp = {"check_lines": [l for l in chk.splitlines() if ("a%d.txt" % e["k"]) in l or ("b%d.txt" % e["k"]) in l],
              "type": typ, "p1": e["p1"], "p2": e["p2"], "a": [tok(x) for x in e["a"]], "b": [tok(x) for x in e["b"]], "kind": e["kind"]}
        cnt("cmp:%s:%s" % (typ, e["kind"]))
        if e.get("self"):
            cnt("judged:self")
            if not v:
                res["viol"].append(("tfel-check:%s:self-compare-%s-column" % (typ, sign_class(e["a"])),
                                    "a finite column compared with itself is reported FAILED: " + describe(e), rp))
        elif e["expected"] == "failure":
            cnt("judged:must-fail:%s" % e["cause"])
            if v:
                res["viol"].append(("tfel-check:%s:%s" % (typ, e["cause"]),
                                    "comparison reported SUCCESS although %s: %s" % (
                                        {"nan-accepted": "a compared value is NaN", "inf-accepted": "a compared value is infinite",
                                         "out-of-tolerance-accepted": "a row is outside the tolerance under every reading of the criterion"}[e["cause"]],
                                        describe(e)), rp))
        elif e["expected"] == "success":
            cnt("judged:may-pass")
            if not v:
                cnt("not_judged:failed-although-within-tolerance:%s:%s" % (typ, sign_class(e["b"])))
        else:
            cnt("skipped:ambiguous")
        if e["kind"] == "sticky":
            v2 = verd[idx]
            if flip:
                v2 = flip({"kind": "sticky2"}, v2)
            idx += 1
            res["n"] += 1
            cnt("judged:self-after-failure")
            if not v2:
                # would this self comparison fail on its own? (Mixed with negative values does)
                alone = "tfel-check:%s:self-compare-%s-column" % (typ, e["second_self_cls"])
                res["viol"].append(("tfel-check:self-compare-after-failed-comparison-in-same-TestType-block",
                                    "@TestType %s; @Test a b (fails, as it should); @Test b b -> FAILED: the Comparison object shared by the tests "
                                    "of a @TestType block never resets its `success` flag (if key %s is also raised the second test fails on its own too): %s"
                                    % (typ, alone, describe(e)), rp))
    return res


# ----------------------------------------------------------------------------- Area

def gen_area_case(g, k):
    n = g.randrange(3, 12)
    t = sorted({round(g.uniform(0, 50), 5) for _ in range(n)})
    while len(t) < n:
        t.append(t[-1] + 1.0)
    cls = g.choice(["positive", "positive", "negative", "negative", "mixed", "zero"])
    forced = {0: ("negative", "offset", 100.0), 1: ("positive", "nan", None), 2: ("negative", "identical", None), 3: ("positive", "offset", 100.0),
              4: ("negative", "refined", 100.0), 5: ("positive", "identical", None)}.get(k)
    if forced:
        cls = forced[0]
    if cls == "zero":
        a = [0.0] * n
    else:
        a = rand_column(g, n, cls)
    kind = g.choice(["identical", "identical", "offset", "offset", "offset", "refined", "nan"])
    p = rand_prec(g)
    if forced:
        kind = forced[1]
        p = 10.0 ** g.uniform(-6, -1)
    scale = max(abs(x) for x in a) or 1.0
    tb, b = list(t), list(a)
    length = t[-1] - t[0]
    if kind in ("offset", "refined"):
        # same-sign difference: |a-b| is piecewise linear on a's grid, the trapezoidal rule is exact
        fac = forced[2] if forced else g.choice([0.01, 0.1, 10.0, 100.0])
        tgt = (p if p > 0 else 1e-6) * fac * scale      # target area / max|a| * max|a|
        s = g.choice([-1, 1])
        w = [g.uniform(0.2, 1.0) for _ in range(n)]
        raw = sum((t[i + 1] - t[i]) * (w[i] + w[i + 1]) / 2 for i in range(n - 1))
        d = [s * x * tgt / raw for x in w]
        b = [x + y for x, y in zip(a, d)]
        if kind == "refined":
            tb, bb = [], []
            for i in range(n):
                tb.append(t[i])
                bb.append(b[i])
                if i + 1 < n and g.random() < 0.6:
                    u = g.uniform(0.2, 0.8)
                    tb.append(t[i] + u * (t[i + 1] - t[i]))
                    bb.append(b[i] + u * (b[i + 1] - b[i]))
            b = bb
    if kind == "nan":
        b = list(a)
        b[g.randrange(n)] = g.choice([math.nan, math.inf])
    # oracle
    if kind == "identical":
        exp, area = "success", 0.0
    elif kind == "nan":
        exp, area = "failure", math.nan
    else:
        bb = b if kind == "offset" else [b[tb.index(x)] for x in t]
        area = sum((t[i + 1] - t[i]) * (abs(a[i] - bb[i]) + abs(a[i + 1] - bb[i + 1])) / 2 for i in range(n - 1))
        norms = {max(abs(x) for x in a)}
        if max(a) > 0:
            norms.add(max(a))          # the implementation's choice, legitimate when positive
        v = set()
        for nm in norms:
            if not nm > 0:
                v.add("amb")      # all-zero reference: the normalised area is undefined
                continue
            na = area / nm
            v.add("ok" if na <= p * (1 - 1e-6) else ("bad" if na > p * (1 + 1e-6) else "amb"))
        exp = "success" if v == {"ok"} else ("failure" if v == {"bad"} else "amb")
    return {"k": k, "t": t, "a": a, "tb": tb, "b": b, "p": p, "cls": cls if cls != "zero" else "zero", "kind": kind, "expected": exp,
            "area_over_maxabs": (area / scale) if math.isfinite(area) else None, "interp": "Linear"}


def area_key(c, verdict):
    """violation key for an Area verdict, or None"""
    if c["kind"] == "identical" and not verdict:
        return "tfel-check:Area:identical-curves-fail:%s" % c["cls"]
    if c["expected"] == "failure" and verdict:
        if c["kind"] == "nan":
            return "tfel-check:Area:nan-accepted"
        if c["cls"] == "negative":
            return "tfel-check:Area:all-negative-curves"
        return "tfel-check:Area:area-above-tolerance-accepted:%s" % c["cls"]
    return None


def do_area(ctx, area_bin, ncases, nbinary, flip=None):
    g = vfcore.rng(ctx.seed, "c51", "area")
    d = ctx.work / "area"
    d.mkdir(parents=True, exist_ok=True)
    cases = [gen_area_case(g, k) for k in range(ncases)]
    lines = []
    for c in cases:
        write_table(d / ("a%d.txt" % c["k"]), c["t"], [c["a"]])
        write_table(d / ("b%d.txt" % c["k"]), c["tb"], [c["b"]])
        lines.append("%d %s %s x t %s %s" % (c["k"], d / ("a%d.txt" % c["k"]), d / ("b%d.txt" % c["k"]), c["interp"], repr(c["p"])))
    (d / "cases.txt").write_text("\n".join(lines) + "\n")
    r = vfcore.run([area_bin, d / "cases.txt"], timeout=300, cwd=d, env=M.env())
    got = {}
    for m in re.finditer(r"^@@AREA (\d+) (\S+)(.*)$", r.out, re.M):
        got[int(m.group(1))] = (m.group(2), m.group(3))
    crash = ctx.classify_crash(r)
    if crash and crash != "hang":
        last = max(got) if got else -1
        c = cases[min(last + 1, ncases - 1)]
        ctx.violation("libTFELCheck:AreaComparison:crash:%s" % crash, "AreaComparison::compare died (%s) on case %s\n%s" % (crash, c, r.err[-800:]), {"case": c})
    elif crash == "hang":
        ctx.inconc("Area driver hit the watchdog")
    for c in cases:
        if c["k"] not in got:
            continue
        v, rest = got[c["k"]]
        ctx.count("area:driver:%s:%s:%s" % (c["kind"], c["cls"], c["expected"]))
        if v == "EXC":
            ctx.count("area:driver:exception")
            if c["kind"] == "identical":
                ctx.violation("tfel-check:Area:identical-curves-fail:%s" % c["cls"], "AreaComparison::compare threw on identical curves: %s" % rest, {"case": c})
            continue
        verdict = (v == "1")
        if flip:
            verdict = flip(c, verdict)
        ctx.add_eval(1)
        key = area_key(c, verdict)
        if key:
            ctx.violation(key, "AreaComparison::compare (libTFELCheck, driven directly: the binary cannot reach it, see key tfel-check:Area:crash) reports %s: "
                          "curves %s, class %s, precision %r, area/max|ref| = %r, ref=%s..., other=%s..." %
                          ("SUCCESS" if verdict else "FAILED", c["kind"], c["cls"], c["p"], c["area_over_maxabs"], [tok(x) for x in c["a"][:4]],
                           [tok(x) for x in c["b"][:4]]), {"case": c})
        elif c["expected"] == "success" and not verdict:
            ctx.count("not_judged:area-failed-although-within-tolerance:%s" % c["cls"])
    # through the real binary: one comparison per run (a crash loses the verdicts of the whole file)
    for c in cases[:nbinary]:
        bd = d / ("bin%d" % c["k"])
        bd.mkdir(exist_ok=True)
        write_table(bd / "a.txt", c["t"], [c["a"]])
        write_table(bd / "b.txt", c["tb"], [c["b"]])
        chk = "@TestType Area interpolation %s using 't';\n@Precision %s;\n@Test 'a.txt' 'b.txt' 'x';\n" % (c["interp"], repr(c["p"]))
        (bd / "c.check").write_text(chk)
        r, verd = run_tfel_check(ctx, bd, "c")
        crash = ctx.classify_crash(r)
        ctx.add_eval(1)
        ctx.count("area:binary:%s" % ("crash" if crash else ("verdict" if verd else "no-verdict")))
        if crash == "hang":
            ctx.inconc("tfel-check hit the watchdog on an Area test")
        elif crash:
            ctx.violation("tfel-check:Area:crash:%s" % crash,
                          "tfel-check dies (%s) on any Area comparison, e.g. %s curves (class %s): no verdict is produced and the comparisons that follow "
                          "in the file are lost\n%s" % (crash, c["kind"], c["cls"], r.out[-600:]),
                          {"check": chk, "a.txt": [c["t"], [tok(x) for x in c["a"]]], "b.txt": [c["tb"], [tok(x) for x in c["b"]]]})
        elif 1 in verd:
            key = area_key(c, verd[1])
            if key:
                ctx.violation(key, "tfel-check reports %s for Area on %s curves (class %s, precision %r, area/max|ref| %r)" %
                              ("SUCCESS" if verd[1] else "FAILED", c["kind"], c["cls"], c["p"], c["area_over_maxabs"]), {"check": chk, "case": c})


# ----------------------------------------------------------------------------- mtest @Test

def gen_mtest_case(seed, i, lib):
    g = vfcore.rng(seed, "c51", "mtest", i)
    n = g.randrange(2, 8)
    ts = [0.0]
    for _ in range(n):
        ts.append(round(ts[-1] + g.uniform(0.5, 2.0), 3))
    kind = g.choice(["function", "file"])
    var = g.choice(["Echo", "Echo", "EXX"])
    eps = 10.0 ** g.uniform(-10, 0)
    a0, b0 = g.uniform(-5, 5), g.uniform(-2, 2)
    mode = g.choice(["inside", "inside", "outside", "nan-ref", "inf-ref", "inf-computed", "nan-computed"])
    forced = {0: ("file", "Echo", "nan-ref"), 1: ("file", "Echo", "inf-ref"), 2: ("function", "Echo", "outside"), 3: ("file", "Echo", "outside"),
              4: ("function", "Echo", "inf-computed"), 5: ("file", "Echo", "nan-computed"), 6: ("function", "EXX", "outside"),
              7: ("function", "Echo", "inside"), 8: ("file", "Echo", "inside")}.get(i)
    if forced:
        kind, var, mode = forced
        eps = 10.0 ** g.uniform(-6, -2)
    if var == "EXX":
        a0, b0 = 0.0, g.uniform(-1e-4, 1e-4)
        eps = 10.0 ** g.uniform(-11, -6)
        if mode in ("inf-computed", "nan-computed"):
            mode = "outside"
    if kind == "function" and mode in ("nan-ref", "inf-ref"):
        mode = "outside"          # mtest refuses non finite numbers in formulas / tables
    ref = [a0 + b0 * t for t in ts]
    comp = list(ref)
    bad_rows = []
    for k in range(1, n + 1):
        if mode == "outside" and (k == n or g.random() < 0.3):
            comp[k] = ref[k] + eps * g.uniform(3, 30) * g.choice([-1, 1])
            bad_rows.append(k)
        else:
            comp[k] = ref[k] + eps * g.uniform(0, 0.3) * g.choice([-1, 1])
    refcol = list(ref)
    if mode == "nan-ref":
        k = g.randrange(1, n + 1)
        refcol[k] = math.nan
        bad_rows.append(k)
    if mode == "inf-ref":
        k = g.randrange(1, n + 1)
        refcol[k] = g.choice([-1, 1]) * math.inf
        bad_rows.append(k)
    testvar = var
    source = list(comp)
    if mode in ("inf-computed", "nan-computed"):
        # Source jumps from -1e308 to 1e308: the increment overflows, Echo = +inf, EchoDiff = NaN
        k = g.randrange(1, n + 1)
        source = [0.0] * (n + 1)
        source[k - 1], source[k] = -1e308, 1e308
        for j in range(k + 1, n + 1):
            source[j] = 1e308
        testvar = "Echo" if mode == "inf-computed" else "EchoDiff"
        ref = [0.0] * (n + 1)
        refcol = list(ref)
        a0 = b0 = 0.0
        eps = 1e300
        bad_rows = [k]
    L = ["@OutputFilePrecision 17;", "@ModellingHypothesis 'Tridimensional';", "@Behaviour<generic> '%s' 'VfEcho';" % lib,
         "@MaterialProperty<constant> 'YoungModulus' 150e9;", "@MaterialProperty<constant> 'PoissonRatio' 0.3;",
         "@ExternalStateVariable 'Temperature' 293.15;", "@StrainEpsilon 1e-14;"]
    if var == "EXX":
        L.append("@ExternalStateVariable 'Source' 1.;")
        L.append("@ImposedStrain 'EXX' {%s};" % ",".join("%s:%s" % (M.fl(t), M.fl(v)) for t, v in zip(ts, comp)))
    else:
        L.append("@ExternalStateVariable 'Source' {%s};" % ",".join("%s:%s" % (M.fl(t), M.fl(v)) for t, v in zip(ts, source)))
        L.append("@ImposedStrain 'EXX' {0:0,%s:1e-4};" % M.fl(ts[-1]))
    L.append("@Times {%s};" % ",".join(M.fl(t) for t in ts))
    if kind == "function":
        L.append("@Test<function> '%s' '%s+%s*t' %s;" % (testvar, M.num(a0), M.num(b0), M.fl(eps)))
    else:
        L.append("@Test<file> 'ref.txt' '%s' 2 %s;" % (testvar, M.fl(eps)))
    exp = "failure" if bad_rows else "success"
    return {"i": i, "kind": kind, "var": testvar, "mode": mode, "eps": eps, "times": ts, "computed": comp, "ref": refcol, "text": "\n".join(L) + "\n",
            "expected": exp, "bad_rows": bad_rows}


def run_mtest_case(ctx, case, flip=None):
    d = ctx.work / ("m%d" % case["i"])
    d.mkdir(parents=True, exist_ok=True)
    (d / "a.mtest").write_text(case["text"])
    write_table(d / "ref.txt", case["times"], [case["ref"]], legends=("#t", "ref"))
    r = M.run_mtest(d, "a.mtest", timeout=60)
    crash = ctx.classify_crash(r, recognised_terminate=True)
    if crash == "hang":
        return "timeout", None
    if crash:
        return "crash:" + crash, r.out[-800:]
    out = re.sub(r"\x1b\[[0-9;]*m", "", r.out)
    success = (r.rc == 0) and re.search(r"End of Test Suite\s*:\s*SUCCESS", out) is not None
    if flip:
        success = flip(case, success)
    return ("success" if success else "failure"), out[-1200:]


# ----------------------------------------------------------------------------- run

def run(ctx, flip=None):
    libs, area_bin = build(ctx)
    ctx.cov["rule"] = ("case = one comparison verdict (tfel-check @Test, AreaComparison call, or mtest run with one @Test); distinct = judged verdicts "
                       "(expected outcome unambiguous); non-trivial = random data, random tolerance")
    nb, per = ctx.n(12, 400), ctx.n(25, 50)
    outs = vfcore.pmap(lambda bi: do_batch(ctx, bi, per, flip), range(nb), workers=min(vfcore.NCPU, 12))
    incomplete = []
    for o in outs:
        ctx.add_eval(o["n"])
        for k, v in o["counts"].items():
            ctx.count(k, v)
        for key, what, rp in o["viol"]:
            ctx.violation(key, what, rp)
        if o.get("incomplete"):
            incomplete.append(o["incomplete"])
    if len(incomplete) > max(1, nb // 20):
        ctx.inconc("tfel-check gave incomplete verdict lists: %s" % incomplete[0])
    do_area(ctx, area_bin, ctx.n(120, 4000), ctx.n(4, 12), flip)
    nm = ctx.n(60, 1200)
    cases = [gen_mtest_case(ctx.seed, i, libs["VfEcho"]) for i in range(nm)]
    res = vfcore.pmap(lambda c: run_mtest_case(ctx, c, flip), cases, workers=min(vfcore.NCPU, 12))
    for case, (st, tail) in zip(cases, res):
        ctx.add_eval(1)
        ctx.count("mtest:%s:%s:%s" % (case["kind"], case["mode"], st.split(":")[0]))
        if st == "timeout":
            ctx.count("watchdog")
            continue
        rp = {"mtest_file": case["text"], "ref.txt": [tok(x) for x in case["ref"]], "times": case["times"], "computed": [tok(x) for x in case["computed"]]}
        if st.startswith("crash:"):
            ctx.violation("mtest:Test<%s>:crash:%s" % (case["kind"], st[6:]), "mtest died on a generated @Test problem\n%s" % tail, rp)
            continue
        if case["expected"] == "failure" and st == "success":
            cause = {"outside": "out-of-tolerance-accepted", "nan-ref": "nan-reference-accepted", "inf-ref": "inf-reference-accepted",
                     "inf-computed": "inf-computed-accepted", "nan-computed": "nan-computed-accepted"}[case["mode"]]
            ctx.violation("mtest:Test<%s>:%s" % (case["kind"], cause),
                          "mtest reports SUCCESS for @Test<%s> on '%s' (eps %r) although row(s) %s are %s: computed %s, reference %s" %
                          (case["kind"], case["var"], case["eps"], case["bad_rows"],
                           "off by more than eps" if case["mode"] == "outside" else "non finite",
                           [tok(x) for x in case["computed"]], [tok(x) for x in case["ref"]]), rp)
        elif case["expected"] == "success" and st != "success":
            ctx.count("not_judged:mtest-test-failed-although-within-eps:%s" % case["kind"])
    cnt = ctx.cov.get("counters", {})
    judged = sum(v for k, v in cnt.items() if k.startswith("judged:"))
    ctx.add_distinct_n(judged)
    for t in TYPES:
        for kind in ("pair", "self", "interp", "sticky"):
            ctx.require(cnt.get("cmp:%s:%s" % (t, kind), 0) > 0, "no %s comparison of kind %s" % (t, kind))
    for c in ("nan-accepted", "inf-accepted", "out-of-tolerance-accepted"):
        ctx.require(cnt.get("judged:must-fail:%s" % c, 0) >= 5, "fewer than 5 judged comparisons of class %s" % c)
    ctx.require(cnt.get("judged:self", 0) >= 10 and cnt.get("judged:may-pass", 0) >= 10, "too few self / within-tolerance comparisons")
    ctx.require(sum(v for k, v in cnt.items() if k.startswith("area:driver:")) >= ctx.n(100, 3000), "Area driver produced too few verdicts")
    ctx.require(sum(v for k, v in cnt.items() if k.startswith("mtest:") and (k.endswith(":success") or k.endswith(":failure"))) >= nm * 0.8,
                "too few mtest @Test verdicts")
    if cnt.get("watchdog", 0) > 3:
        ctx.inconc("%d runs hit the watchdog" % cnt["watchdog"])
