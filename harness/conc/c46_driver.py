#!/usr/bin/env python3
"""Runs one history of mfront processes (inside a private /dev/shm) and reports, after every
quiescent point, the value of the named semaphore; the critical-section events go to the hook
log written by libverifhooks.so.  Spec (JSON file argv[1]):
 {"mfront":..., "env":{...}, "semval":..., "semname":..., "steps":[{"par":bool,"runs":[{"cwd":..,"args":[..],"delays":".."}]}]}"""
import json, os, subprocess, sys, time
spec = json.load(open(sys.argv[1]))
out = {"steps": []}
def launch(r):
    e = dict(os.environ); e.update(spec["env"])
    if r.get("delays"):
        e["VF_HOOK_DELAYS"] = r["delays"]
    return subprocess.Popen([spec["mfront"]] + r["args"], cwd=r["cwd"], env=e,
                            stdout=subprocess.PIPE, stderr=subprocess.STDOUT, start_new_session=True)
def semval():
    p = subprocess.run([spec["semval"], spec["semname"]], capture_output=True, text=True)
    return p.stdout.strip()
for st in spec["steps"]:
    res = []
    if st.get("par"):
        ps = [launch(r) for r in st["runs"]]
        for p in ps:
            try:
                o, _ = p.communicate(timeout=120)
                res.append({"pid": p.pid, "rc": p.returncode, "out": o.decode("utf-8", "replace")[-300:]})
            except subprocess.TimeoutExpired:
                os.killpg(p.pid, 9); p.communicate()
                res.append({"pid": p.pid, "rc": "timeout", "out": ""})
    else:
        for r in st["runs"]:
            p = launch(r)
            try:
                o, _ = p.communicate(timeout=120)
                res.append({"pid": p.pid, "rc": p.returncode, "out": o.decode("utf-8", "replace")[-300:]})
            except subprocess.TimeoutExpired:
                os.killpg(p.pid, 9); p.communicate()
                res.append({"pid": p.pid, "rc": "timeout", "out": ""})
    out["steps"].append({"runs": res, "sem": semval()})
print(json.dumps(out))
