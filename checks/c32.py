"""C32 — string utilities (tokenize, replace_all, starts_with/ends_with, convert) vs naive references."""
import vfcore

META = {
    "engine": "text", "level": "exploration", "design_ref": "DESIGN.md §4.2 C32", "exhaustive": True,
    "technique": "ASan+UBSan harness on libTFELUtilities: exhaustive enumeration of all strings over {a,b,delimiter} "
                 "(length <= 6 quick / 8 thorough) for every delimiter and pattern of length <= 2, random longer strings, "
                 "grammar-generated numeric literals + mutations; every result compared with naive character loops / strtod",
    "text": "Every tokenize / join-of-tokenize / replace_all / starts_with / ends_with result on the enumerated and random "
            "strings equals the result of an independent naive implementation written in the harness; convert<double> and "
            "convert<long double> accept exactly what strtod/strtold fully consume and return the same value. Exhaustive "
            "for the stated alphabets and lengths, sampled beyond; nothing is claimed outside these inputs.",
    "note": "Trusted: the naive references in harness/text/c32.cxx, glibc strtod/strtold. keep_empty_strings=false is read as "
            "'no empty field in the result'; the string-delimiter overload is read as 'split at every non-overlapping "
            "left-to-right occurrence' (an empty input may give [] or ['']). Sub-normal/overflowing literals rejected by "
            "convert are recorded, not judged. The empty string delimiter is exercised once under a memory limit and a watchdog.",
}

SRC = vfcore.VERIF / "harness/text/c32.cxx"
LIBS = ("TFELUtilities", "TFELException")


def build(ctx):
    return {"asan": vfcore.compile_cxx("c32", [SRC], "asan", libs=LIBS),
            "plain": vfcore.compile_cxx("c32", [SRC], "plain", libs=LIBS)}


def empty_delimiter(ctx, binary):
    """tokenize(s, "") must terminate.  Run with a 500 MB address-space limit and a 20 s watchdog:
    a hang or a memory exhaustion (the result grows without bound) are both the violation."""
    cmd = ["sh", "-c", 'ulimit -v 500000; exec "$@"', "sh", str(binary), "--mode", "emptydelim", "--input", "ab"]
    outcomes = []
    for attempt in range(2):
        r = vfcore.run(cmd, timeout=20, cwd=ctx.work)
        ctx.add_eval(1)
        if r.timed_out:
            outcomes.append("hang>20s")
            continue
        if "emptydelim-returned" in r.out:
            ctx.count("tokenize-string:empty-delimiter:returned")
            return
        if "emptydelim-rejected" in r.out:
            ctx.count("tokenize-string:empty-delimiter:exception")
            return
        if "emptydelim-memory" in r.out or r.rc != 0:
            outcomes.append("memory exhausted: " + (r.out.splitlines()[-1] if r.out.strip() else "rc=%s %s" % (r.rc, r.err[-200:])))
            break
        outcomes.append("rc=%s" % r.rc)
        break
    ctx.violation("tokenize-string:empty-delimiter-hang",
                  "tokenize(\"ab\", std::string_view(\"\")) does not terminate: %s (the loop never advances, the "
                  "result vector grows until memory is exhausted)" % "; ".join(outcomes),
                  {"harness": str(binary), "extra": ["--mode", "emptydelim", "--input", "ab"], "outcomes": outcomes})


def run(ctx):
    b = build(ctx)
    if ctx.replay:
        c = ctx.replay.get("case") or {}
        if "--mode" in (c.get("extra") or []) and "emptydelim" in c["extra"]:
            return empty_delimiter(ctx, b["plain"])
    ctx.cov["rule"] = ("exhaustive part: one case = (function, string over {a,b,','} or {a,b,';'} of length <= L, delimiter/pattern "
                       "of length <= 2 over the same alphabet, replacement); random part: strings of length 9..80 over four alphabets "
                       "(one with NUL, 0xff and newline) with delimiters planted with probability 0.25-0.3; convert: literals from the "
                       "decimal/scientific grammar and 1-2 character mutations of them; distinct = distinct (string, delimiter, "
                       "replacement) hash per (API, stratum); every case is non-trivial (the reference result is compared in full)")
    maxlen = ctx.n(6, 8)
    apis = ["tokenize-char-keep", "join-tokenize-char-keep", "tokenize-string", "join-tokenize-string", "replace_all-string",
            "replace_all-string-out", "replace_all-char", "replace_all-char-string", "starts_with", "ends_with"]
    ctx.run_events(b["asan"], 16, shards=16, extra=["--mode", "exhaustive", "--maxlen", maxlen],
                   require=[(a, "exhaustive", 1000) for a in apis] +
                           [("tokenize-char-nokeep", "exhaustive", 1000), ("replace_all-string", "empty-pattern", 1000)])
    ctx.cov["exhaustive_bound"] = {"alphabets": ["ab,", "ab;"], "max_string_length": maxlen, "max_pattern_length": 2}
    ctx.run_events(b["asan"], ctx.n(200000, 4000000), extra=["--mode", "random"],
                   require=[(a, "random", 1000) for a in apis])
    ctx.run_events(b["asan"], ctx.n(100000, 3000000), extra=["--mode", "convert"],
                   require=[("convert<double>", "literal", 1000), ("convert<double>", "mutated", 1000),
                            ("convert<long double>", "literal", 1000), ("convert<long double>", "mutated", 1000)])
    empty_delimiter(ctx, b["plain"])
    ctx.assumptions += ["keep_empty_strings=false means: the result holds the non-empty fields only",
                        "tokenize(s, string) splits at every non-overlapping left-to-right occurrence; for the empty input [] and [''] are both accepted",
                        "replace_all is exercised with ps=0 only",
                        "convert: strings for which strtod reports ERANGE (overflow, sub-normal) may be rejected"]
