"""C38 — material-property call contracts: status, bounds_status, return value, message, errno (DESIGN.md §4.4)."""
import ctypes
import errno as E
import math

import exprgen as X
import gen
import mpgen
import vfcore

META = {
    "engine": "gen", "level": "exploration", "design_ref": "DESIGN.md §4.4 C38",
    "technique": "random material properties with lower / upper / two-sided bounds and physical bounds on inputs and output, laws in exact IEEE arithmetic (so the output verdict is decidable at one ulp) and laws that set errno or overflow; generic interface called through a C shim that sets errno before and reads it after the call; arguments at bounds, one ulp around them, far outside, +-inf, wrong nargs, invalid parameter files; outcome compared with the table of generic-material-property-interface.md; C interface _checkBounds compared with 0 / +rank / -rank",
    "text": "For each generated property every argument vector of a systematic family (each declared bound b: b, nextafter(b,+-inf), far outside, +-inf; pairs of violations; output-bound crossings for laws y = c*x with c a power of two; errno-setting arguments for log, exp, sqrt, pow, division) is passed with each policy (None, Warning, Strict) and caller errno in {0, EDOM, ERANGE, 123}. The monitor demands: status 0 / 1 / -1 / -5 / -6 / -3 / -4 as documented, bounds_status 0, +rank (Warning) or -rank (physical or Strict) naming a really violating argument with physical bounds first (for the output only sign and a rank that names no argument are demanded), NaN returned for negative status and the law value otherwise, a message for 1, -1, -3, -6 and none for 0, c_error_number for -3, and errno after the call equal to errno before it on every path. The C interface _checkBounds must return -rank of a physically violating input, else +rank of an input outside its bounds, else 0.",
    "note": "Trusted: g++, libm, ctypes layouts (cross-checked), the shim. NaN arguments are recorded only (outside the property). When several outcomes are compatible with the documentation (errno set and result non-finite: -3 or -4; output bound crossed by an infinite value) any of them is accepted. Bounds are declared with <= 5 significant digits in the main stratum; the long-digits stratum shows the printing precision of the emitted comparisons.",
}

NONE, WARNING, STRICT = 0, 1, 2
POLNAME = {0: "None", 1: "Warning", 2: "Strict"}
ERRNOS = (0, E.EDOM, E.ERANGE, 123)
INF = math.inf


# ---------------------------------------------------------------------------------------- IEEE evaluation
def ieee(t, env):
    """value of a tree in IEEE double arithmetic, non-finite values allowed -> (value, errno set by libm or 0)"""
    k = t[0]
    if k == "num":
        return t[2], 0
    if k in ("var", "par"):
        return env[t[1]], 0
    if k == "neg":
        v, e = ieee(t[1], env)
        return -v, e
    if k == "f1":
        a, e = ieee(t[2], env)
        ctypes.set_errno(0)
        v = X.F1[t[1]][0](a)
        return v, ctypes.get_errno() or e
    a, ea = ieee(t[1], env)
    b, eb = ieee(t[2], env)
    e = ea or eb
    if k == "+":
        return a + b, e
    if k == "-":
        return a - b, e
    if k == "*":
        return a * b, e
    if k == "/":
        if b == 0:
            if a == 0 or a != a:
                return math.nan, e
            return math.copysign(INF, a) * math.copysign(1.0, b), e
        return a / b, e
    if k == "**":
        ctypes.set_errno(0)
        v = X._POW(a, b)
        return v, ctypes.get_errno() or e
    raise ValueError(k)


def interval(t, box):
    k = t[0]
    if k == "num":
        return t[2], t[2]
    if k in ("var", "par"):
        return box[t[1]]
    if k == "neg":
        lo, hi = interval(t[1], box)
        return -hi, -lo
    a, b = interval(t[1], box), interval(t[2], box)
    if k == "+":
        return a[0] + b[0], a[1] + b[1]
    if k == "-":
        return a[0] - b[1], a[1] - b[0]
    if k == "*":
        c = [x * y for x in a for y in b]
        return min(c), max(c)
    c = [x / y for x in a for y in b]
    return min(c), max(c)


def num(v):
    return ("num", repr(v), v)


# ---------------------------------------------------------------------------------------- programs
def base_spec(rng, idx, n_in, n_par, digits):
    """inputs / params with random bounds; tree and output are filled by the callers"""
    s = mpgen.random_spec(rng, idx, n_inputs=n_in, n_params=n_par, layout="multi-line-function", digits=digits, bounds_p=0.65,
                          depth=1, typed=True)
    s["locals"], s["split"] = [], False
    s.pop("gen", None)
    s["output"] = {"name": "y", "type": s["output"]["type"], "declared": True, "ext": None}
    return s


def set_tree(s, tree):
    s["tree"] = s["full_tree"] = tree


def arith_spec(rng, idx, digits):
    s = base_spec(rng, idx, rng.randint(1, 5), rng.randint(0, 2), digits)
    names = [v["name"] for v in s["inputs"]]
    box = {v["name"]: v["box"] for v in s["inputs"]}
    box.update({p["name"]: (p["value"], p["value"]) for p in s["params"]})
    leaves = [("var", n) for n in names] + [("par", p["name"]) for p in s["params"]]
    t = num(float(rng.randint(-3, 3)))
    for _ in range(rng.randint(1, 4)):
        term = ("*", num(rng.choice((0.5, 2.0, 1.5, -1.25, 3.0))), rng.choice(leaves))
        u = rng.random()
        if u < 0.3:
            term = ("*", term, rng.choice(leaves))
        elif u < 0.45:
            d = rng.choice([("var", n) for n in names])
            lo, hi = box[d[1]]
            term = ("/", term, ("+", d, num(float(math.ceil(abs(lo) + abs(hi) + 1)))))
        t = (rng.choice("+-"), t, term)
    set_tree(s, t)
    iv = interval(t, box)
    nd = 4 if digits == "short" else 10
    if rng.random() < 0.6:
        s["output"]["bounds"] = mpgen._bounds(rng, iv[0], iv[1], nd)
    if rng.random() < 0.5:
        b = s["output"].get("bounds")
        s["output"]["pbounds"] = mpgen._bounds(rng, b.get("lo", iv[0]) if b else iv[0], b.get("hi", iv[1]) if b else iv[1], nd, mpgen._pkinds(b))
    s["class"] = "arithmetic"
    return s


def probe_spec(rng, idx, digits):
    """y = c * x_k with c a power of two: the output crosses its own bounds inside the bounds of x_k, exactly"""
    s = base_spec(rng, idx, rng.randint(1, 3), 0, digits)
    k = rng.randrange(len(s["inputs"]))
    v = s["inputs"][k]
    c = rng.choice((1.0, -1.0, 2.0, 0.5, -4.0))
    set_tree(s, ("var", v["name"]) if c == 1.0 else ("*", num(c), ("var", v["name"])))
    lo, hi = v["box"]
    w = hi - lo
    a, b = sorted((c * (lo + 0.25 * w), c * (hi - 0.25 * w)))
    nd = 4 if digits == "short" else 10
    out = s["output"]
    kind = rng.choice(("both", "lower", "upper"))
    sb = {"kind": kind}
    if kind != "upper":
        sb["lo_text"], sb["lo"] = mpgen.numtext(a, nd)
    if kind != "lower":
        sb["hi_text"], sb["hi"] = mpgen.numtext(b, nd)
    out["bounds"] = sb
    if rng.random() < 0.7:
        a2, b2 = sorted((c * (lo + 0.1 * w), c * (hi - 0.1 * w)))
        pk = rng.choice(mpgen._pkinds(sb))
        pb = {"kind": pk}
        if pk != "upper":
            pb["lo_text"], pb["lo"] = mpgen.numtext(a2, nd)
        if pk != "lower":
            pb["hi_text"], pb["hi"] = mpgen.numtext(b2, nd)
        out["pbounds"] = pb
    s["class"], s["probe"] = "probe", (k, c)
    return s


ERRNO_LAWS = [
    ("log", lambda x, z: ("f1", "log", x), [[-1.0], [0.0], [2.0], [-INF]]),
    ("exp", lambda x, z: ("f1", "exp", x), [[1e4], [-1e4], [1.0], [710.0]]),
    ("sqrt", lambda x, z: ("f1", "sqrt", x), [[-1.0], [4.0], [-1e-300]]),
    ("pow", lambda x, z: ("**", x, z), [[0.0, -1.0], [-8.0, 1.0 / 3], [1e300, 2.0], [2.0, 3.0], [1e-300, 2.0]]),
    ("division", lambda x, z: ("/", x, z), [[1.0, 0.0], [0.0, 0.0], [-1.0, 0.0], [1.0, 4.0], [1e308, 1e-10]]),
    ("exp-product", lambda x, z: ("*", ("f1", "exp", x), z), [[1e4, 0.0], [-1e4, 5.0], [1.0, 2.0]]),
    ("cosh", lambda x, z: ("f1", "cosh", x), [[1e4], [1.0]]),
    ("log-sum", lambda x, z: ("+", ("f1", "log", x), z), [[-1.0, 1.0], [0.0, 1.0], [3.0, 1.0]]),
]


def errno_spec(rng, idx, which):
    name, mk, pts = ERRNO_LAWS[which]
    nin = len(pts[0])
    s = base_spec(rng, idx, nin, 0, "short")
    for v in s["inputs"]:
        v.pop("bounds", None)
        v.pop("pbounds", None)
        v["type"] = "real"
    x = ("var", s["inputs"][0]["name"])
    z = ("var", s["inputs"][1]["name"]) if nin > 1 else None
    set_tree(s, mk(x, z))
    s["class"], s["errno_law"], s["errno_points"] = "errno", name, pts
    if rng.random() < 0.5:      # bounds on the output that finite results respect
        s["output"]["bounds"] = {"kind": "both", "lo": -1e300, "hi": 1e300, "lo_text": "-1e300", "hi_text": "1e300"}
    return s


# ---------------------------------------------------------------------------------------- oracle
def viol_ranks(vars_, args, which):
    r = []
    for i, (v, a) in enumerate(zip(vars_, args)):
        if which in v and mpgen.outside(v[which], a):
            r.append(i + 1)
    return r


def expected(spec, args, policy, nargs, bound_of=lambda b: b):
    """-> dict describing what the documentation allows for this call.
    bound_of: transformation of a bounds dict (identity, or 'as printed with 6 digits')"""
    ins = [dict(v, **{k: bound_of(v[k]) for k in ("bounds", "pbounds") if k in v}) for v in spec["inputs"]]
    out = dict(spec["output"], **{k: bound_of(spec["output"][k]) for k in ("bounds", "pbounds") if k in spec["output"]})
    n = len(ins)
    if nargs is not None and nargs != n:
        return {"path": "wrong-nargs", "status": {-5}, "nan": True, "msg": None}
    if any(a != a for a in args):
        return None
    P = viol_ranks(ins, args, "pbounds")
    if P:
        return {"path": "physical-bounds:input", "status": {-1}, "bs": {-r for r in P}, "nan": True, "msg": True}
    S = viol_ranks(ins, args, "bounds")
    if S and policy == STRICT:
        # the path is named after the first violating input (the generated function returns at the first one it meets)
        return {"path": "strict:input:%s" % ins[min(S) - 1]["bounds"]["kind"], "status": {-1}, "bs": {-r for r in S}, "nan": True, "msg": True}
    env = {v["name"]: a for v, a in zip(ins, args)}
    env.update({p["name"]: p["value"] for p in spec["params"]})
    y, en = ieee(spec["full_tree"], env)
    res = {"y": y, "errno": en}
    fin = math.isfinite(y)
    op = mpgen.outside(out["pbounds"], y) if "pbounds" in out else 0
    ob = mpgen.outside(out["bounds"], y) if "bounds" in out else 0
    special = {}
    if en and fin:
        special = {"status": {-3}, "cerr": en, "msg": True, "nan": True, "path": "c-error:finite-result"}
    elif en:
        special = {"status": {-3, -4}, "nan": True, "msg": None, "path": "c-error:non-finite-result"}
    elif not fin:
        special = {"status": {-4}, "nan": True, "msg": None, "path": "non-finite-result"}
    if op:
        r = {"path": "physical-bounds:output", "status": {-1}, "bs_out": -1, "nan": True, "msg": True}
    elif ob and policy == STRICT:
        r = {"path": "strict:output:%s" % out["bounds"]["kind"], "status": {-1}, "bs_out": -1, "nan": True, "msg": True}
    elif policy == WARNING and (S or ob):
        r = {"path": "warning:%s" % ("+".join((["input"] if S else []) + (["output"] if ob else []))), "status": {1},
             "bs": set(S), "bs_out": 1 if ob else 0, "nan": False, "msg": True}
    else:
        r = {"path": "in-bounds" if not (S or ob) else "outside-bounds-under-None", "status": {0}, "bs": {0}, "nan": False, "msg": False}
    if special:
        if r["status"] == {-1}:      # an infinite result crossing an output bound: both readings are documented
            r["status"] = r["status"] | special["status"]
            r["msg"] = None
            r["bs"] = None
            r["bs_out"] = None
            r["path"] = special["path"] + "+" + r["path"]
        else:
            keep = r
            r = dict(special)
            r["bs"] = None if keep["status"] == {1} else {0}
            r["bs_out"] = None
            if keep["status"] == {1}:
                r["status"] = r["status"] | {1}     # which of the two reports wins is not documented
                r["msg"] = None
                r["cerr"] = None
    r.update(res)
    r["n"] = n
    return r


def compare(exp, obs, e0):
    """-> list of (what, detail) discrepancies between one observed call and the expectation"""
    bad = []
    v = mpgen.unf(obs["v"])
    st = obs["status"]
    if st not in exp["status"]:
        bad.append(("status", "status %d, documented %s" % (st, sorted(exp["status"]))))
        return bad
    n = exp.get("n", 0)
    bs = obs["bs"]
    if st in (-5, -6):
        pass
    elif st == -1 or st == 1:
        ok_in = exp.get("bs") or set()
        so = exp.get("bs_out")
        if exp.get("bs") is None and so is None:
            pass
        elif bs in ok_in and bs != 0:
            pass
        elif so and bs * so > 0 and abs(bs) > n:
            pass
        else:
            bad.append(("bounds_status", "bounds_status %d, documented %s%s" % (bs, sorted(ok_in), " or the output (%+d*rank beyond the arguments)" % so if so else "")))
    elif st == 0 and exp.get("bs") is not None and bs != 0:
        bad.append(("bounds_status", "bounds_status %d with status 0" % bs))
    if st < 0:
        if v == v:
            bad.append(("return-value:status=%d:%s-returned-instead-of-nan" % (st, "inf" if math.isinf(v) else "finite-value"),
                        "returns %r with status %d; the documentation says nan is returned for every negative status" % (v, st)))
    elif not exp["nan"]:
        y = exp["y"]
        if not (v == y or abs(v - y) <= 1e-12 * abs(y)):
            bad.append(("return-value", "returns %r, the law gives %r" % (v, y)))
    if exp.get("msg") is True and st in (1, -1, -3, -6) and not obs["msg"]:
        bad.append(("message:empty:status=%d" % st, "no message with status %d" % st))
    if exp.get("msg") is False and st == 0 and obs["msg"]:
        bad.append(("message:not-empty:status=0", "message %r with status 0" % obs["msg"][:80]))
    if st == -3 and exp.get("cerr") and obs["cerr"] != exp["cerr"]:
        bad.append(("c_error_number", "c_error_number %d, libm set errno to %d" % (obs["cerr"], exp["cerr"])))
    if obs["e1"] != e0:
        bad.append(("errno-not-restored", "errno is %d after the call, was %d before" % (obs["e1"], e0)))
    return bad


def expected_cb(spec, args, bound_of=lambda b: b):
    ins = [dict(v, **{k: bound_of(v[k]) for k in ("bounds", "pbounds") if k in v}) for v in spec["inputs"]]
    if any(a != a for a in args):
        return None
    P = viol_ranks(ins, args, "pbounds")
    if P:
        return {-r for r in P}
    S = viol_ranks(ins, args, "bounds")
    return set(S) if S else {0}


def as_printed6(b):
    c = dict(b)
    for k in ("lo", "hi"):
        if k in c:
            c[k] = mpgen.printed6(c[k])
    return c


# ---------------------------------------------------------------------------------------- argument families
def edge_values(b):
    vals = []
    for k in ("lo", "hi"):
        if k in b:
            x = b[k]
            w = max(abs(x), 1.0)
            vals += [x, math.nextafter(x, -INF), math.nextafter(x, INF), x - 0.37 * w, x + 0.37 * w, x * (1 - 3e-7) if x else -3e-7, x * (1 + 3e-7) if x else 3e-7]
    return vals


def inside_point(rng, spec):
    return [rng.uniform(v["box"][0] + 0.3 * (v["box"][1] - v["box"][0]), v["box"][1] - 0.3 * (v["box"][1] - v["box"][0])) for v in spec["inputs"]]


def call_family(rng, spec, budget):
    """-> list of {"args", "policy", "nargs", "e0", "why"}"""
    n = len(spec["inputs"])
    vecs = []
    if spec["class"] == "errno":
        for p in spec["errno_points"]:
            vecs.append((list(p), "errno-law"))
    base = inside_point(rng, spec)
    vecs.append((list(base), "inside"))
    for i, v in enumerate(spec["inputs"]):
        for which in ("bounds", "pbounds"):
            if which in v:
                for x in edge_values(v[which]):
                    a = inside_point(rng, spec)
                    a[i] = x
                    vecs.append((a, "%s-edge" % which))
        for x in (INF, -INF):
            a = list(base)
            a[i] = x
            vecs.append((a, "infinite-argument"))
        a = list(base)
        a[i] = math.nan
        vecs.append((a, "nan-argument"))
    bounded = [i for i, v in enumerate(spec["inputs"]) if "bounds" in v or "pbounds" in v]
    for _ in range(6):
        if len(bounded) >= 2:
            i, j = rng.sample(bounded, 2)
            a = inside_point(rng, spec)
            for k in (i, j):
                v = spec["inputs"][k]
                b = v[rng.choice([w for w in ("bounds", "pbounds") if w in v])]
                side = rng.choice([s for s in ("lo", "hi") if s in b])
                a[k] = b[side] - 1.0 - abs(b[side]) if side == "lo" else b[side] + 1.0 + abs(b[side])
            vecs.append((a, "two-violations"))
    if spec["class"] == "probe":
        k, c = spec["probe"]
        for which in ("bounds", "pbounds"):
            if which in spec["output"]:
                for y in edge_values(spec["output"][which]):
                    a = inside_point(rng, spec)
                    a[k] = y / c
                    vecs.append((a, "output-%s-edge" % which))
    for _ in range(8):
        vecs.append((inside_point(rng, spec), "inside"))
    calls = []
    for a, why in vecs:
        for pol in (NONE, WARNING, STRICT):
            calls.append({"args": a, "policy": pol, "nargs": None, "e0": rng.choice(ERRNOS), "why": why})
    for na in (n - 1, n + 1, 0, 7):
        if na >= 0 and na != n:
            calls.append({"args": list(base), "policy": rng.choice((0, 1, 2)), "nargs": na, "e0": rng.choice(ERRNOS), "why": "wrong-nargs"})
    if len(calls) > budget:
        head = [c for c in calls if c["why"] in ("errno-law", "wrong-nargs")]
        rest = [c for c in calls if c["why"] not in ("errno-law", "wrong-nargs")]
        rng.shuffle(rest)
        calls = head + rest[:max(0, budget - len(head))]
    return calls


BAD_FILES = [("three-tokens", "%s 1.5 extra\n"), ("not-a-number", "%s abc\n"), ("unknown-parameter", "vf_no_such_parameter 1.0\n"),
             ("one-token", "%s\n"), ("trailing-garbage", "%s 1.5x\n")]


# ---------------------------------------------------------------------------------------- check
def build(ctx):
    vfcore.ensure_tree("plain")
    gen.check_layout()
    return mpgen.shim()


def make_programs(ctx):
    n_ar, n_pr, rep_er, budget = ctx.n((10, 8, 1, 500), (100, 80, 4, 600))
    progs = []
    idx = 0
    for i in range(n_ar):
        rng = vfcore.rng(ctx.seed, "c38", "a", i)
        progs.append((arith_spec(rng, idx, "long" if i % 5 == 4 else "short"), rng))
        idx += 1
    for i in range(n_pr):
        rng = vfcore.rng(ctx.seed, "c38", "p", i)
        progs.append((probe_spec(rng, idx, "long" if i % 4 == 3 else "short"), rng))
        idx += 1
    for rep in range(rep_er):
        for w in range(len(ERRNO_LAWS)):
            rng = vfcore.rng(ctx.seed, "c38", "e", rep, w)
            progs.append((errno_spec(rng, idx, w), rng))
            idx += 1
    return [{"spec": s, "rng": r, "text": mpgen.mfront_text(s, r)} for s, r in progs], budget


def run(ctx):
    sh = build(ctx)
    progs, budget = make_programs(ctx)
    ctx.cov["rule"] = ("case = (program, argument vector, policy, caller errno[, nargs]); non-trivial = every case (each is judged against the table); "
                       "distinct = distinct (program, arguments, policy)")
    root = ctx.work / "p"

    def g(k):
        p = progs[k]
        p["dir"] = root / ("%04d" % k)
        p["gen"] = mpgen.generate_spec(p["dir"], p["spec"], p["text"], ["c", "generic"])
        return k
    vfcore.pmap(g, range(len(progs)))
    jobs = []
    for k, p in enumerate(progs):
        r = p["gen"]
        p["res"] = {}
        ctx.count("programs:" + p["spec"]["class"])
        if r.timed_out or mpgen.tool_unavailable(r):
            ctx.inconc("mfront could not be run on %s (watchdog, or tree being rebuilt): rc=%s %s" % (mpgen.fname(p["spec"]), r.rc, r.err[-300:]))
            continue
        if r.rc != 0:
            ctx.violation("mfront:%s:does-not-generate" % p["spec"]["class"], "mfront refuses a well-formed generated file: %s" % " / ".join((r.out + r.err).strip().splitlines()[1:3]),
                          {"mfront": p["text"], "output": (r.out + r.err)[-2000:]})
            continue
        jobs += [(k, "c"), (k, "generic")]

    def comp(j):
        k, i = j
        return j, mpgen.compile_iface(progs[k]["dir"], progs[k]["spec"], i)
    for (k, i), res in vfcore.pmap(comp, jobs):
        progs[k]["res"][i] = res
        if res["stage"] != "ok" and mpgen.link_race(res["log"]):
            ctx.inconc("compilation disturbed by a concurrent rebuild of the TFEL libraries: %s" % mpgen.first_error(res["log"]))
        elif res["stage"] != "ok":
            ctx.violation("%s:%s:does-not-compile" % (i, progs[k]["spec"]["class"]), "generated %s source does not compile: %s" % (i, mpgen.first_error(res["log"])),
                          {"mfront": progs[k]["text"], "compiler": res["log"][-2500:]})

    env = {"LD_LIBRARY_PATH": vfcore.ld_path("plain")}
    work = []
    for k, p in enumerate(progs):
        spec = p["spec"]
        libs = {i: r["lib"] for i, r in p["res"].items() if r["lib"]}
        if "generic" not in libs:
            continue
        p["calls"] = call_family(p["rng"], spec, budget)
        d0 = p["dir"] / "cwd0"
        d0.mkdir(exist_ok=True)
        hexcalls = [dict(c, args=[mpgen._f(x) for x in c["args"]]) for c in p["calls"]]
        base = {"libs": libs, "name": mpgen.fname(spec), "nin": len(spec["inputs"]), "shim_path": str(sh)}
        work.append((k, "table", dict(base, calls=hexcalls, cwd=str(d0))))
        if spec["params"]:
            q = spec["params"][0]
            for j, (tag, content) in enumerate(BAD_FILES):
                d = p["dir"] / ("bad%d" % j)
                d.mkdir(exist_ok=True)
                (d / (mpgen.fname(spec) + "-parameters.txt")).write_text("# invalid on purpose\n" + (content % q["name"] if "%s" in content else content))
                a = inside_point(p["rng"], spec)
                cs = [{"args": [mpgen._f(x) for x in a], "policy": pol, "nargs": None, "e0": e0} for pol, e0 in ((0, 0), (2, E.EDOM), (1, 123), (0, E.ERANGE))]
                work.append((k, "bad-file:" + tag, dict(base, libs={"generic": libs["generic"]}, calls=cs, cwd=str(d))))

    def call(w):
        k, scen, args = w
        return w, vfcore.call_worker(ctx, "mpgen", "w_contract", args, timeout=1200, tag="c38-%d-%s" % (k, scen.replace(":", "_")), env=env)
    paths, cb_n, nan_rec = {}, 0, 0
    for (k, scen, args), (res, r) in vfcore.pmap(call, work):
        p = progs[k]
        spec = p["spec"]
        if res is None:
            crash = ctx.classify_crash(r)
            if crash and crash != "hang":
                ctx.violation("crash:%s:%s" % (crash, scen), "generated material property crashed its caller: %s\n%s" % (crash, r.err[-1500:]),
                              {"mfront": p["text"], "stderr": r.err[-3000:]})
            else:
                ctx.inconc("worker failed on %s: rc=%s %s" % (mpgen.fname(spec), r.rc, r.err[-800:]))
            continue
        for iface, msg in res.get("open_errors", {}).items():
            ctx.violation("%s:entry-point-not-exported" % iface, "library does not export its entry point: %s" % msg, {"mfront": p["text"]})
        if scen.startswith("bad-file:"):
            for c, o in zip(args["calls"], res["generic"]):
                ctx.add_eval()
                paths["parameter-file:" + scen[9:]] = paths.get("parameter-file:" + scen[9:], 0) + 1
                exp = {"status": {-6}, "nan": True, "msg": True, "n": len(spec["inputs"])}
                for what, detail in compare(exp, o, c["e0"]):
                    ctx.violation("generic:invalid-parameter-file:%s:%s" % (scen[9:], what),
                                  "%s with an invalid %s-parameters.txt (%s): %s" % (mpgen.fname(spec), mpgen.fname(spec), scen[9:], detail),
                                  {"mfront": p["text"], "parameter_file": BAD_FILES[[t for t, _ in BAD_FILES].index(scen[9:])][1], "call": c, "observed": o})
            continue
        long_digits = spec["digits"] == "long"
        for c, o, cb in zip(p["calls"], res["generic"], res["cb"]):
            exp = expected(spec, c["args"], c["policy"], c["nargs"])
            if exp is None:
                nan_rec += 1
                continue
            ctx.add_eval()
            ctx.add_distinct(vfcore.sha(p["text"], repr(c["args"]), str(c["policy"]), str(c["nargs"])))
            paths[exp["path"]] = paths.get(exp["path"], 0) + 1
            bad = compare(exp, o, c["e0"])
            case = {"file": mpgen.fname(spec) + ".mfront", "mfront": p["text"], "args": c["args"], "policy": POLNAME[c["policy"]], "nargs": c["nargs"],
                    "errno_before": c["e0"], "why": c["why"], "observed": o, "documented": {kk: (sorted(vv) if isinstance(vv, set) else vv) for kk, vv in exp.items()}}
            if long_digits and c["nargs"] is None:
                # bounds declared with more than 6 digits: is the call explained by the bounds as a C++ stream prints them by default?
                e6 = expected(spec, c["args"], c["policy"], c["nargs"], as_printed6)
                if e6 is not None and e6["path"] != exp["path"]:
                    b6 = compare(e6, o, c["e0"])
                    core = lambda b: [w for w, _ in b if w in ("status", "bounds_status", "return-value") or w.startswith("message")]
                    if not core(b6):
                        if core(bad):
                            ctx.violation("generic:bound-value-printed-with-6-digits",
                                          "%s: %s; the outcome is the one of bounds rounded to 6 significant digits (declared with more)"
                                          % (mpgen.fname(spec), "; ".join(d for w, d in bad if w in core(bad))), case)
                        bad, exp = b6, e6
            for what, detail in bad:
                if what == "errno-not-restored" and "+" in exp["path"]:     # name the early-return path, not the kind of result
                    exp = dict(exp, path=exp["path"].split("+")[-1])
                ctx.violation("generic:%s:%s:%s" % (what, exp["path"], POLNAME[c["policy"]]) if what in ("status", "bounds_status", "errno-not-restored", "return-value")
                              else "generic:%s:%s" % (what, exp["path"]),
                              "%s(%s) policy %s: %s" % (mpgen.fname(spec), ", ".join(repr(a) for a in c["args"]), POLNAME[c["policy"]], detail), case)
            if cb is not None:
                ecb = expected_cb(spec, c["args"])
                cb_n += 1
                if ecb is not None and cb not in ecb:
                    key = "c:checkBounds"
                    if long_digits and cb in (expected_cb(spec, c["args"], as_printed6) or ()):
                        key = "c:checkBounds:bound-value-printed-with-6-digits"
                    ctx.violation(key, "%s_checkBounds(%s) returns %d, documented %s" % (mpgen.fname(spec), ", ".join(repr(a) for a in c["args"]), cb, sorted(ecb)),
                                  dict(case, checkBounds=cb))
        if len(ctx.cov["samples"]) < 4 and res["generic"]:
            ctx.sample({"file": mpgen.fname(spec), "args": p["calls"][0]["args"], "policy": p["calls"][0]["policy"], "observed": res["generic"][0]})
    ctx.cov["paths"] = dict(sorted(paths.items()))
    ctx.cov["checkBounds_calls"] = cb_n
    ctx.cov["nan_argument_calls_recorded_only"] = nan_rec
    for need in ("wrong-nargs", "physical-bounds:input", "physical-bounds:output", "in-bounds", "non-finite-result", "c-error:finite-result"):
        ctx.require(paths.get(need, 0) >= 3, "planned outcome class %s observed %d < 3 times" % (need, paths.get(need, 0)))
    ctx.require(any(k.startswith("strict:input") for k in paths) and any(k.startswith("strict:output") for k in paths) and any(k.startswith("warning") for k in paths),
                "strict / warning outcome classes were not all observed")
    ctx.require(any(k.startswith("parameter-file:") for k in paths), "no invalid-parameter-file call was made")
    ctx.require(cb_n >= 50, "fewer than 50 _checkBounds calls")
