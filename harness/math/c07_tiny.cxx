// C07 (part 2) — TinyMatrixSolve<N,T> (vector and matrix right-hand sides, closed forms N=1,2,3, LU N>=4,
// decomp + back_substitute), TinyMatrixInvert<N,T>, N = 1..12  (DESIGN.md §4.1 C07).
// Oracle: c07_ref.hxx (long-double full-pivot Gauss-Jordan).  Compile with -DC07_ONLY_TYPE=0|1|2 to
// restrict the scalar type (double|float|long double) of a binary.
#define VFH_MAIN
#include "c07_ref.hxx"
#include "TFEL/Math/tvector.hxx"
#include "TFEL/Math/tmatrix.hxx"
#include "TFEL/Math/TinyMatrixSolve.hxx"
#include "TFEL/Math/TinyMatrixInvert.hxx"

using namespace c07;
namespace tfm = tfel::math;

template <typename T, unsigned short N>
static void tiny_case(const Case<T>& c) {
  auto load = [&](tfm::tmatrix<N, N, T>& m) { for (int i = 0; i < N; ++i) for (int j = 0; j < N; ++j) m(i, j) = static_cast<T>(c.A(i, j)); };
  auto loadv = [&](tfm::tvector<N, T>& b, int k) { for (int i = 0; i < N; ++i) b(i) = static_cast<T>(c.B[k][i]); };
  auto loadm = [&](tfm::tmatrix<N, NRHS, T>& b) { for (int i = 0; i < N; ++i) for (int k = 0; k < NRHS; ++k) b(i, k) = static_cast<T>(c.B[k][i]); };
  auto grab = [&](Out& o, const tfm::tvector<N, T>& b) { o.x.clear(); for (int i = 0; i < N; ++i) o.x.push_back(L(b(i))); };
  auto column = [&](const Out& all, int k) { Out o = all; o.x.clear(); if (!all.reported) for (int i = 0; i < N; ++i) o.x.push_back(all.x[size_t(i) * NRHS + k]); return o; };
  auto failed = [](Out& o, const char* how) { o.reported = true; o.how = how; };
  // exe() of N = 1, 2, 3 are closed forms (Cramer): they get their own API names so that a finding on one of
  // them has a precise key; N >= 4 share the LU implementation
  static const char* NS = N == 1 ? "1" : (N == 2 ? "2" : (N == 3 ? "3" : "N>=4"));
  char api_vt[64], api_vf[64], api_mt[64], api_mf[64];
  std::snprintf(api_vt, sizeof api_vt, "TinyMatrixSolve<%s,T,true>::exe(vector)", NS);
  std::snprintf(api_vf, sizeof api_vf, "TinyMatrixSolve<%s,T,false>::exe(vector)", NS);
  std::snprintf(api_mt, sizeof api_mt, "TinyMatrixSolve<%s,T,true>::exe(matrix)", NS);
  std::snprintf(api_mf, sizeof api_mf, "TinyMatrixSolve<%s,T,false>::exe(matrix)", NS);

  // ---- vector right-hand side, exceptions on / off
  vf::set_case("TinyMatrixSolve::exe(vector)", c.S, c.idx);
  for (int k = 0; k < NRHS; ++k) {
    Out o = guarded([&](Out& out) {
      tfm::tmatrix<N, N, T> m; tfm::tvector<N, T> b; load(m); loadv(b, k);
      if (!tfm::TinyMatrixSolve<N, T, true>::exe(m, b)) failed(out, "returned false"); else grab(out, b);
    });
    judge(c, api_vt, k, o);
    Out o2 = guarded([&](Out& out) {
      tfm::tmatrix<N, N, T> m; tfm::tvector<N, T> b; load(m); loadv(b, k);
      if (!tfm::TinyMatrixSolve<N, T, false>::exe(m, b)) failed(out, "returned false"); else grab(out, b);
    });
    judge(c, api_vf, k, o2);
  }
  // ---- matrix right-hand side
  vf::set_case("TinyMatrixSolve::exe(matrix)", c.S, c.idx);
  for (int flavour = 0; flavour < 2; ++flavour) {
    Out all = guarded([&](Out& out) {
      tfm::tmatrix<N, N, T> m; tfm::tmatrix<N, NRHS, T> b; load(m); loadm(b);
      const bool ok = flavour ? tfm::TinyMatrixSolve<N, T, false>::exe(m, b) : tfm::TinyMatrixSolve<N, T, true>::exe(m, b);
      if (!ok) failed(out, "returned false");
      else for (int i = 0; i < N; ++i) for (int k = 0; k < NRHS; ++k) out.x.push_back(L(b(i, k)));
    });
    for (int k = 0; k < NRHS; ++k) judge(c, flavour ? api_mf : api_mt, k, column(all, k));
  }
  // ---- decomp + back_substitute (the LU path, also for N = 1, 2, 3)
  vf::set_case("TinyMatrixSolve::decomp+back_substitute", c.S, c.idx);
  for (int flavour = 0; flavour < 2; ++flavour) {
    const char* api = flavour ? "TinyMatrixSolve<N,T,false>::decomp+back_substitute" : "TinyMatrixSolve<N,T,true>::decomp+back_substitute";
    tfm::tmatrix<N, N, T> m; load(m);
    tfm::TinyPermutation<N> p;
    bool ok = false;
    Out od = guarded([&](Out&) { ok = flavour ? tfm::TinyMatrixSolve<N, T, false>::decomp(m, p) : tfm::TinyMatrixSolve<N, T, true>::decomp(m, p); });
    if (od.reported || !ok) {
      Out o; o.reported = true; o.how = od.reported ? od.how : "decomp returned false";
      judge(c, api, 0, o);
    } else {
      for (int k = 0; k < NRHS; ++k) {
        Out o = guarded([&](Out& out) {
          tfm::tvector<N, T> b; loadv(b, k);
          const bool r = flavour ? tfm::TinyMatrixSolve<N, T, false>::back_substitute(m, p, b) : tfm::TinyMatrixSolve<N, T, true>::back_substitute(m, p, b);
          if (!r) failed(out, "back_substitute returned false"); else grab(out, b);
        });
        judge(c, api, k, o);
      }
      Out all = guarded([&](Out& out) {
        tfm::tmatrix<N, NRHS, T> b; loadm(b);
        const bool r = flavour ? tfm::TinyMatrixSolve<N, T, false>::back_substitute(m, p, b) : tfm::TinyMatrixSolve<N, T, true>::back_substitute(m, p, b);
        if (!r) failed(out, "back_substitute returned false");
        else for (int i = 0; i < N; ++i) for (int k = 0; k < NRHS; ++k) out.x.push_back(L(b(i, k)));
      });
      for (int k = 0; k < NRHS; ++k) judge(c, flavour ? "TinyMatrixSolve<N,T,false>::back_substitute(matrix)" : "TinyMatrixSolve<N,T,true>::back_substitute(matrix)", k, column(all, k));
    }
  }
  // ---- TinyMatrixInvert: ||A X - I||_F <= K eps kappa ||A||_F ||X||_F
  vf::set_case("TinyMatrixInvert::exe", c.S, c.idx);
  {
    const char* api = "TinyMatrixInvert<N,T>::exe";
    Mat X(N, N);
    Out o = guarded([&](Out& out) {
      tfm::tmatrix<N, N, T> m; load(m);
      tfm::TinyMatrixInvert<N, T>::exe(m);
      for (int i = 0; i < N; ++i) for (int j = 0; j < N; ++j) { X(i, j) = L(m(i, j)); out.x.push_back(X(i, j)); }
    });
    auto dump = [&] { return dump_case(c.tname, c.n, c.A, std::vector<L>(), o.x, o.reported ? o.how.c_str() : "inverted", c.ref.kappa); };
    if (is_singular(c.st)) {
      if (c.must_report) R.expect(api, c.S, c.idx, c.h, o.reported, dump, "exactly singular matrix must be reported, not inverted");
      else R.skip(api, c.S);
    } else if (!c.judged) R.skip(api, c.S);
    else if (o.reported) R.check(api, c.S, c.idx, c.h, INFINITY, 1, dump, "nonsingular, well-conditioned matrix reported as singular");
    else {
      Mat P = mul(c.A, X);
      for (int i = 0; i < N; ++i) P(i, i) -= 1;
      R.check(api, c.S, c.idx, c.h, fro(P), Kres(N) * c.eps * c.ref.kappa * c.ref.nA * fro(X), dump, "||A X - I||_F vs K eps kappa_F ||A||_F ||X||_F");
    }
  }
}

template <typename T>
static void one_case(const vf::Args& a, uint64_t idx, const char* tname) {
  Case<T> c;
  make_case(c, a, idx, tname);
  switch (c.n) {
    case 1: tiny_case<T, 1>(c); break; case 2: tiny_case<T, 2>(c); break; case 3: tiny_case<T, 3>(c); break;
    case 4: tiny_case<T, 4>(c); break; case 5: tiny_case<T, 5>(c); break; case 6: tiny_case<T, 6>(c); break;
    case 7: tiny_case<T, 7>(c); break; case 8: tiny_case<T, 8>(c); break; case 9: tiny_case<T, 9>(c); break;
    case 10: tiny_case<T, 10>(c); break; case 11: tiny_case<T, 11>(c); break; default: tiny_case<T, 12>(c);
  }
}

int main(int argc, char** argv) {
  vf::Args a(argc, argv);
  for (long i = 0; i < a.cases; ++i) {
    uint64_t idx = a.only >= 0 ? uint64_t(a.only) : a.gidx(i);
#ifdef C07_ONLY_TYPE
    // re-map the index so that every case of this binary has the selected scalar type
    if (a.only < 0) idx = (idx / NSTRATA) * (3 * NSTRATA) + uint64_t(C07_ONLY_TYPE) * NSTRATA + idx % NSTRATA;
#endif
    switch ((idx / NSTRATA) % 3) {
#if !defined(C07_ONLY_TYPE) || C07_ONLY_TYPE == 0
      case 0: one_case<double>(a, idx, "double"); break;
#endif
#if !defined(C07_ONLY_TYPE) || C07_ONLY_TYPE == 1
      case 1: one_case<float>(a, idx, "float"); break;
#endif
#if !defined(C07_ONLY_TYPE) || C07_ONLY_TYPE == 2
      case 2: one_case<long double>(a, idx, "ldouble"); break;
#endif
      default: break;
    }
    if (a.only >= 0) break;
  }
  R.finish();
  return 0;
}
