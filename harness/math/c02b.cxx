// C02 (part b) — st2tost2<N,T>: products, contractions, transposition, inverse, projectors, change of
// basis, push-forward, component access, conversion from t2tost2, against the 3x3x3x3 long-double array
// the object denotes (storage: row/column p in [xx yy zz xy xz yz], weight sqrt2 on every symmetric
// off-diagonal slot, docs/web/tensors.md "Vector notations for symmetric tensors").
#define VFH_MAIN
#include "math/ref4.hxx"
#include "TFEL/Math/stensor.hxx"
#include "TFEL/Math/tensor.hxx"
#include "TFEL/Math/st2tost2.hxx"
#include "TFEL/Math/t2tost2.hxx"
#include "TFEL/Math/tmatrix.hxx"

using namespace ref;
namespace tfm = tfel::math;

static vf::Reporter R;

template <unsigned short N, typename T>
static tfm::tensor<N, T> mkt(const M3& m) {
  tfm::tensor<N, T> t;
  auto v = to_t(m, N);
  for (int k = 0; k < tsize(N); ++k) t[k] = static_cast<T>(v[k]);
  return t;
}
template <unsigned short N, typename T>
static tfm::stensor<N, T> mks(const M3& m) {
  tfm::stensor<N, T> s;
  auto v = to_st(m, N);
  for (int k = 0; k < ssize(N); ++k) s[k] = static_cast<T>(v[k]);
  return s;
}
template <typename T>
static tfm::rotation_matrix<T> mkr(const M3& m, M3& rounded) {
  tfm::rotation_matrix<T> r;
  for (int i = 0; i < 3; ++i) for (int j = 0; j < 3; ++j) { r(i, j) = static_cast<T>(m[i][j]); rounded[i][j] = L(r(i, j)); }
  return r;
}
template <typename A4>
static void fill4(A4& a, int rows, int cols, vf::Rng& g, int st, double kmax) {
  using T = tfm::numeric_type<A4>;
  L v[81];
  gen_values(g, st, rows * cols, v, kmax);
  for (int p = 0; p < rows; ++p) for (int q = 0; q < cols; ++q) a(p, q) = static_cast<T>(v[p * cols + q]);
}
template <typename A4>
static uint64_t hash4(const A4& a, int rows, int cols, uint64_t h = 0xcbf29ce484222325ull) {
  for (int p = 0; p < rows; ++p) for (int q = 0; q < cols; ++q) { auto x = a(p, q); h = vf::hash_bytes(&x, sizeof x, h); }
  return h;
}
template <typename A4>
static std::vector<L> flat4(const A4& a, int rows, int cols) {
  std::vector<L> v;
  for (int p = 0; p < rows; ++p) for (int q = 0; q < cols; ++q) v.push_back(L(a(p, q)));
  return v;
}

struct MatView { const L* m; int n; L operator()(int p, int q) const { return m[p * n + q]; } };

template <unsigned short N, typename T>
static void one_case(const vf::Args& a, uint64_t idx, const char* tname) {
  vf::Rng g(a.seed, 2101 + N * 7 + sizeof(T), idx);
  const int st = int(idx % ST_NSTRATA);
  const char* S = STRATA4[st];
  const L eps = EpsOf<T>::v;
  const double kmax = KmaxOf<T>::v;
  const int ns = ssize(N), nt = tsize(N);
  const int st2 = st == ST_SINGLE ? (g.coin() ? ST_SINGLE : ST_RANDOM) : st;
  tfm::st2tost2<N, T> A, B;
  fill4(A, ns, ns, g, st, kmax);
  fill4(B, ns, ns, g, st2, kmax);
  auto s1 = mks<N, T>(gen_sym4(g, N, st2, kmax));
  auto s2 = mks<N, T>(gen_sym4(g, N, st2, kmax));
  const T4 RA = from_st2tost2(A, N), RB = from_st2tost2(B, N);
  const M3 S1 = from_st(s1, N), S2 = from_st(s2, N);
  const L nA = t4norm(RA), nB = t4norm(RB), nS1 = norm(S1), nS2 = norm(S2);
  uint64_t h = hash4(A, ns, ns); h = hash4(B, ns, ns, h);
  h = vf::hash_arr(&s1[0], ns, h); h = vf::hash_arr(&s2[0], ns, h);
  auto dump = [&] {
    auto fa = flat4(A, ns, ns), fb = flat4(B, ns, ns);
    vf::J j; j.s("T", tname).i("N", N).arr("A", fa.begin(), fa.end()).arr("B", fb.begin(), fb.end())
        .arr("s1", &s1[0], &s1[0] + ns).arr("s2", &s2[0], &s2[0] + ns);
    return j.str();
  };
  char api[96];
  auto nm = [&](const char* f) { std::snprintf(api, sizeof api, "st2tost2::%s<%d,%s>", f, int(N), tname); vf::set_case(api, S, idx); return api; };
  const L K = 128;
  // --- component access (documented: A(I,J) carries sqrt2 per symmetric off-diagonal pair)
  {
    L e = 0, e2 = 0;
    tfm::st2tost2<N, T> C(T(0));
    for (int i = 0; i < 3; ++i) for (int j = 0; j < 3; ++j) for (int k = 0; k < 3; ++k) for (int l = 0; l < 3; ++l) {
      if (!in_dim(i, j, N) || !in_dim(k, l, N)) continue;
      e = std::max(e, std::fabs(L(tfm::getComponent(A, i, j, k, l)) - RA.v[i][j][k][l]));
      tfm::setComponent<T>(C, i, j, k, l, static_cast<T>(RA.v[i][j][k][l]));
    }
    for (int p = 0; p < ns; ++p) for (int q = 0; q < ns; ++q) e2 = std::max(e2, std::fabs(L(C(p, q)) - L(A(p, q))));
    R.check(nm("getComponent"), S, idx, h, e, 128 * eps * t4maxabs(RA), dump);
    R.check(nm("setComponent"), S, idx, h, e2, 128 * eps * t4maxabs(RA) * 2, dump);
  }
  // --- linear maps and products
  { tfm::stensor<N, T> r = A * s1; R.check(nm("A*s"), S, idx, h, dist(from_st(r, N), ddot(RA, S1)), K * eps * nA * nS1, dump); }
  { tfm::stensor<N, T> r = s1 * A; R.check(nm("s*A"), S, idx, h, dist(from_st(r, N), ddot(S1, RA)), K * eps * nA * nS1, dump); }
  { tfm::stensor<N, T> r = s1 | A; R.check(nm("s|A"), S, idx, h, dist(from_st(r, N), ddot(S1, RA)), K * eps * nA * nS1, dump); }
  { tfm::st2tost2<N, T> r = A * B; R.check(nm("A*B"), S, idx, h, t4dist(from_st2tost2(r, N), ddot(RA, RB)), K * eps * nA * nB, dump); }
  { tfm::st2tost2<N, T> r = s1 ^ s2; R.check(nm("s^s"), S, idx, h, t4dist(from_st2tost2(r, N), otimes(S1, S2)), K * eps * nS1 * nS2, dump); }
  { tfm::st2tost2<N, T> r = A + B; R.check(nm("A+B"), S, idx, h, t4dist(from_st2tost2(r, N), t4add(RA, RB)), K * eps * (nA + nB), dump); }
  { tfm::st2tost2<N, T> r = T(2) * A - B / T(4); R.check(nm("2A-B/4"), S, idx, h, t4dist(from_st2tost2(r, N), t4add(t4scal(RA, 2), RB, -0.25L)), K * eps * (nA + nB), dump); }
  { tfm::st2tost2<N, T> r = -A; R.check(nm("-A"), S, idx, h, t4dist(from_st2tost2(r, N), t4scal(RA, -1)), 0, dump); }
  { tfm::st2tost2<N, T> r = A * B * A; R.check(nm("A*B*A"), S, idx, h, t4dist(from_st2tost2(r, N), ddot(ddot(RA, RB), RA)), K * eps * 2 * nA * nB * nA, dump); }
  { tfm::stensor<N, T> r = (A * B) * s1; R.check(nm("(A*B)*s"), S, idx, h, dist(from_st(r, N), ddot(ddot(RA, RB), S1)), K * eps * 2 * nA * nB * nS1, dump); }
  {
    const L r = L(s1 | (A * s2));
    R.check(nm("s|(A*s)"), S, idx, h, std::fabs(r - dot(S1, ddot(RA, S2))), K * eps * 2 * nA * nS1 * nS2, dump);
  }
  // --- transposition (major symmetry swap) and the scalar contractions documented in ST2toST2Concept.hxx
  { tfm::st2tost2<N, T> r = tfm::transpose(A); R.check(nm("transpose"), S, idx, h, t4dist(from_st2tost2(r, N), t4tr(RA)), 0, dump); }
  { tfm::st2tost2<N, T> r = tfm::transpose(A) * B; R.check(nm("transpose(A)*B"), S, idx, h, t4dist(from_st2tost2(r, N), ddot(t4tr(RA), RB)), K * eps * nA * nB, dump); }
  {
    L trA = 0, qd = 0;
    for (int i = 0; i < 3; ++i) for (int j = 0; j < 3; ++j) {
      trA += 0.5L * (RA.v[i][j][i][j] + RA.v[i][j][j][i]);
      for (int k = 0; k < 3; ++k) for (int l = 0; l < 3; ++l) qd += RA.v[i][j][k][l] * RB.v[k][l][i][j];
    }
    L sabs = 0; for (int p = 0; p < ns; ++p) sabs += std::fabs(L(A(p, p)));
    R.check(nm("trace"), S, idx, h, std::fabs(L(tfm::trace(A)) - trA), K * eps * sabs, dump);
    R.check(nm("quaddot"), S, idx, h, std::fabs(L(tfm::quaddot(A, B)) - qd), K * eps * 2 * nA * nB, dump);
    R.check(nm("norm"), S, idx, h, std::fabs(L(tfm::norm(A)) - nA), K * eps * 2 * nA, dump);
  }
  // --- inverse: the st2tost2 X with X:A = symmetric identity (judged with the condition number)
  {
    // a well conditioned candidate in half of the cases: A + c Id
    tfm::st2tost2<N, T> Ai = A;
    if (g.coin()) { const T c = static_cast<T>(3 * nA / std::sqrt(L(ns)) + (nA == 0 ? 1 : 0)); for (int p = 0; p < ns; ++p) Ai(p, p) += c; }
    L m[36], mi[36];
    for (int p = 0; p < ns; ++p) for (int q = 0; q < ns; ++q) m[p * ns + q] = L(Ai(p, q));
    bool done = false;
    const L KI = 4096;  // LU with partial pivoting: observed err/(eps kappa scale) <= 55 on the unchanged tree
    if (gj_inverse(ns, m, mi)) {
      L n1 = 0, n2 = 0;
      for (int p = 0; p < ns * ns; ++p) { n1 += m[p] * m[p]; n2 += mi[p] * mi[p]; }
      n1 = std::sqrt(n1); n2 = std::sqrt(n2);
      const L kappa = n1 * n2;
      if (std::isfinite(double(kappa)) && kappa * eps * KI < 1e-2L) {
        const auto X = tfm::invert(Ai);
        // reference as a full tensor: the Mandel matrix of the inverse map
        const MatView Xr{mi, ns};
        R.check(nm("invert"), S, idx, h, t4dist(from_st2tost2(X, N), from_st2tost2(Xr, N)), KI * eps * kappa * n2, dump);
        // defining identity from the returned value only
        const T4 P = ddot(from_st2tost2(X, N), from_st2tost2(Ai, N));
        R.check(nm("invert:X*A=Id"), S, idx, h, t4dist(P, restrict_dim(t4idsym(), N)), KI * eps * kappa * std::sqrt(L(ns)), dump);
        done = true;
      }
    }
    if (!done) R.skip(nm("invert"), S);
  }
  // --- change of basis, consistent with a' = r^T a r:  C'_ijkl = r_mi r_nj r_pk r_ql C_mnpq
  for (int kind = 0; kind < 4; ++kind) {
    static const char* KN[] = {"change_basis/random", "change_basis/identity", "change_basis/perm", "change_basis/nearid"};
    M3 Rr;
    auto r = mkr<T>(random_rotation(g, N, kind), Rr);
    tfm::st2tost2<N, T> c = tfm::change_basis(A, r);
    R.check(nm(KN[kind]), S, idx, h, t4dist(from_st2tost2(c, N), t4rotate(RA, Rr)), K * eps * 16 * nA, dump);
    if (kind == 0 || kind == 2) {
      // fromRotationMatrix(r) acts on a symmetric tensor as change_basis(s,r) (docs/web/tensors.md)
      const auto rt = tfm::st2tost2<N, T>::fromRotationMatrix(r);
      T4 E;
      VF_FOR4 E.v[i][j][k][l] = 0.5L * (Rr[k][i] * Rr[l][j] + Rr[l][i] * Rr[k][j]);
      R.check(nm("fromRotationMatrix"), S, idx, h, t4dist(from_st2tost2(rt, N), restrict_dim(E, N)), K * eps * 3, dump);
      tfm::stensor<N, T> rs = rt * s1;
      R.check(nm("fromRotationMatrix*s"), S, idx, h, dist(from_st(rs, N), mul(mul(tr(Rr), S1), Rr)), K * eps * 9 * nS1, dump);
    }
  }
  // --- push forward / pull back (st2tost2.hxx: Ct_ijkl = F_im F_jn F_kp F_lq C_mnpq)
  {
    // F scale limited so that F^4 C stays far from overflow in float
    const int fst = (st == ST_SCALED) ? ST_RANDOM : st;
    const L fs = (st == ST_SCALED) ? L(g.logmag(-2, 2)) : 1.0L;
    auto tF = mkt<N, T>(scal(gen_gen(g, N, fst, 2), fs));
    const M3 F = from_t(tF, N);
    const L nF = norm(F);
    const uint64_t h2 = vf::hash_arr(&tF[0], nt, h);
    auto dump2 = [&] {
      auto fa = flat4(A, ns, ns);
      vf::J j; j.s("T", tname).i("N", N).arr("A", fa.begin(), fa.end()).arr("F", &tF[0], &tF[0] + nt);
      return j.str();
    };
    tfm::st2tost2<N, T> pf = tfm::push_forward(A, tF);
    R.check(nm("push_forward(C,F)"), S, idx, h2, t4dist(from_st2tost2(pf, N), t4push(RA, F)), K * eps * 4 * nF * nF * nF * nF * nA, dump2);
    const L d = det(F);
    bool done = false;
    if (d != 0 && std::isfinite(double(1 / d))) {
      const M3 Fi = inv(F);
      const L kF = nF * norm(Fi);
      if (kF * kF * eps * 64 < 5e-3L) {
        tfm::st2tost2<N, T> pb = tfm::pull_back(A, tF);
        const L nFi = norm(Fi);
        R.check(nm("pull_back(C,F)"), S, idx, h2, t4dist(from_st2tost2(pb, N), t4push(RA, Fi)), 64 * eps * kF * kF * nFi * nFi * nFi * nFi * nA, dump2);
        done = true;
      }
    }
    if (!done) R.skip(nm("pull_back(C,F)"), S);
  }
  // --- conversion from a t2tost2: the st2tost2 acting on symmetric tensors as the t2tost2 acts on their
  //     unsymmetric image, i.e. C'_ijkl = (C_ijkl + C_ijlk)/2
  {
    tfm::t2tost2<N, T> D;
    fill4(D, ns, nt, g, st, kmax);
    const T4 RD = from_t2tost2(D, N);
    const uint64_t h3 = hash4(D, ns, nt);
    auto dump3 = [&] {
      auto fd = flat4(D, ns, nt);
      vf::J j; j.s("T", tname).i("N", N).arr("D", fd.begin(), fd.end()).arr("s1", &s1[0], &s1[0] + ns);
      return j.str();
    };
    const tfm::st2tost2<N, T> c = tfm::st2tost2<N, T>::convert(D);
    // which block of the result is wrong matters for the finding key: judge the blocks separately
    const T4 got = from_st2tost2(c, N), want = t4rsym(RD);
    L e_dd = 0, e_ds = 0, e_sd = 0, e_ss = 0;  // (row,col) in {diagonal slots, shear slots}
    VF_FOR4 {
      const L d2 = (got.v[i][j][k][l] - want.v[i][j][k][l]) * (got.v[i][j][k][l] - want.v[i][j][k][l]);
      if (i == j && k == l) e_dd += d2; else if (i == j) e_ds += d2; else if (k == l) e_sd += d2; else e_ss += d2;
    }
    const L tolc = K * eps * t4norm(RD);
    R.check(nm("convert(t2tost2):diag-diag"), S, idx, h3, std::sqrt(e_dd), tolc, dump3);
    R.check(nm("convert(t2tost2):diag-shear"), S, idx, h3, std::sqrt(e_ds), tolc, dump3);
    R.check(nm("convert(t2tost2):shear-diag"), S, idx, h3, std::sqrt(e_sd), tolc, dump3);
    if (N != 1) R.check(nm("convert(t2tost2):shear-shear"), S, idx, h3, std::sqrt(e_ss), tolc, dump3,
                        "C'_ijkl=(C_ijkl+C_ijlk)/2, i.e. convert(D)*s == D*unsyme(s)");
    if (N != 1) {
      // the same statement through the public products only
      tfm::stensor<N, T> l = c * s1;
      tfm::tensor<N, T> u = tfm::unsyme(s1);
      tfm::stensor<N, T> r = D * u;
      R.check(nm("convert(t2tost2):as-map"), S, idx, h3, dist(from_st(l, N), from_st(r, N)), 4 * K * eps * t4norm(RD) * nS1, dump3);
    }
  }
}

// ---- projectors: exact definitions and the identities of the property -------------------------
template <unsigned short N, typename T>
static void projector_case(const vf::Args& a, uint64_t idx, const char* tname) {
  vf::Rng g(a.seed, 2201 + N * 7 + sizeof(T), idx);
  const int st = int(idx % ST_NSTRATA);
  const char* S = STRATA4[st];
  const L eps = EpsOf<T>::v;
  auto s1 = mks<N, T>(gen_sym4(g, N, st, KmaxOf<T>::v));
  const M3 S1 = from_st(s1, N);
  const L nS1 = norm(S1);
  const uint64_t h = vf::hash_arr(&s1[0], ssize(N));
  auto dump = [&] { vf::J j; j.s("T", tname).i("N", N).arr("s1", &s1[0], &s1[0] + ssize(N)); return j.str(); };
  char api[96];
  auto nm = [&](const char* f) { std::snprintf(api, sizeof api, "st2tost2::%s<%d,%s>", f, int(N), tname); vf::set_case(api, S, idx); return api; };
  using S4 = tfm::st2tost2<N, T>;
  const S4 Id = S4::Id(), IxI = S4::IxI(), J = S4::J(), Kp = S4::K(), M = S4::M();
  const T4 rId = restrict_dim(t4idsym(), N), rIxI = t4IxI(), rJ = t4scal(t4IxI(), 1 / 3.0L), rK = t4add(rId, rJ, -1), rM = t4scal(rK, 1.5L);
  const L K = 256;
  R.check(nm("Id"), S, idx, h, t4dist(from_st2tost2(Id, N), rId), 64 * eps, dump);
  R.check(nm("IxI"), S, idx, h, t4dist(from_st2tost2(IxI, N), rIxI), 0, dump);
  R.check(nm("J"), S, idx, h, t4dist(from_st2tost2(J, N), rJ), 64 * eps, dump);
  R.check(nm("K"), S, idx, h, t4dist(from_st2tost2(Kp, N), rK), 64 * eps, dump);
  R.check(nm("M"), S, idx, h, t4dist(from_st2tost2(M, N), rM), 64 * eps, dump);
  // identities evaluated by the library's own operators
  { S4 r = J + Kp; R.check(nm("J+K=Id"), S, idx, h, t4dist(from_st2tost2(r, N), rId), K * eps, dump); }
  { S4 r = Kp * Kp; R.check(nm("K*K=K"), S, idx, h, t4dist(from_st2tost2(r, N), rK), K * eps, dump); }
  { S4 r = J * J; R.check(nm("J*J=J"), S, idx, h, t4dist(from_st2tost2(r, N), rJ), K * eps, dump); }
  { S4 r = J * Kp; R.check(nm("J*K=0"), S, idx, h, t4norm(from_st2tost2(r, N)), K * eps, dump); }
  { S4 r = Kp * J; R.check(nm("K*J=0"), S, idx, h, t4norm(from_st2tost2(r, N)), K * eps, dump); }
  { S4 r = T(1.5) * Kp; R.check(nm("M=3K/2"), S, idx, h, t4dist(from_st2tost2(r, N), from_st2tost2(M, N)), K * eps, dump); }
  { tfm::stensor<N, T> r = Kp * s1; R.check(nm("K*s=dev(s)"), S, idx, h, dist(from_st(r, N), dev(S1)), K * eps * nS1, dump); }
  { tfm::stensor<N, T> r = J * s1; R.check(nm("J*s=tr(s)I/3"), S, idx, h, dist(from_st(r, N), scal(eye(), trace(S1) / 3)), K * eps * nS1, dump); }
  { tfm::stensor<N, T> r = IxI * s1; R.check(nm("IxI*s=tr(s)I"), S, idx, h, dist(from_st(r, N), scal(eye(), trace(S1))), K * eps * nS1, dump); }
  { tfm::stensor<N, T> r = Id * s1; R.check(nm("Id*s=s"), S, idx, h, dist(from_st(r, N), S1), 0, dump); }
  {
    // sigma_eq^2 = s : M : s  (docs/web/tensors.md)
    const L v = L(s1 | (M * s1));
    const M3 D = dev(S1);
    R.check(nm("s|M*s=seq^2"), S, idx, h, std::fabs(v - 1.5L * dot(D, D)), K * eps * 4 * nS1 * nS1, dump);
  }
  {
    const auto id2 = tfm::stensor<N, T>::Id();
    S4 r = id2 ^ id2;
    R.check(nm("Id2^Id2=IxI"), S, idx, h, t4dist(from_st2tost2(r, N), rIxI), 0, dump);
  }
}

template <typename T>
static void dispatch(const vf::Args& a, uint64_t idx, const char* tname) {
  const int n = int((idx / 4) % 3);
  const bool proj = ((idx / 24) % 8) == 7;  // one case in eight goes to the projector identities
  if (proj) {
    switch (n) {
      case 0: projector_case<1, T>(a, idx, tname); break;
      case 1: projector_case<2, T>(a, idx, tname); break;
      default: projector_case<3, T>(a, idx, tname);
    }
    return;
  }
  switch (n) {
    case 0: one_case<1, T>(a, idx, tname); break;
    case 1: one_case<2, T>(a, idx, tname); break;
    default: one_case<3, T>(a, idx, tname);
  }
}

int main(int argc, char** argv) {
  vf::Args a(argc, argv);
  for (long i = 0; i < a.cases; ++i) {
    const uint64_t idx = a.only >= 0 ? uint64_t(a.only) : a.gidx(i);
    switch ((idx / 12) % 2) {
      case 0: dispatch<double>(a, idx, "double"); break;
      default: dispatch<float>(a, idx, "float");
    }
    if (a.only >= 0) break;
  }
  R.finish();
  return 0;
}
