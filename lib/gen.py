"""gen.py — generate -> mfront -> g++ -> dlopen (ctypes) pipeline used by the `gen`/`mtest`
engines (DESIGN.md §4.4).  Everything is rebuilt from /repo's working tree: the mfront binary
comes from /verif/build/plain (brought up to date by vfcore.ensure_tree), generated sources
are compiled against /repo/include and /repo/mfront/include.

Loading is done in *child* python processes when a crash of generated code must not kill the
check; for plain calls ctypes in-process is fine (generated code is the code under test, a
SIGSEGV there is reported by the caller through vfcore.run on a small driver script).
"""
import ctypes as C
import os
import shutil
from pathlib import Path

import vfcore

c_double_p = C.POINTER(C.c_double)

HYPOTHESES = ["AxisymmetricalGeneralisedPlaneStrain", "AxisymmetricalGeneralisedPlaneStress", "Axisymmetrical",
              "PlaneStress", "PlaneStrain", "GeneralisedPlaneStrain", "Tridimensional"]
HYP_DIM = {"AxisymmetricalGeneralisedPlaneStrain": 1, "AxisymmetricalGeneralisedPlaneStress": 1, "Axisymmetrical": 2,
           "PlaneStress": 2, "PlaneStrain": 2, "GeneralisedPlaneStrain": 2, "Tridimensional": 3}
STENSOR_SIZE = {1: 3, 2: 4, 3: 6}
TENSOR_SIZE = {1: 3, 2: 5, 3: 9}


class State(C.Structure):
    _fields_ = [("gradients", c_double_p), ("thermodynamic_forces", c_double_p), ("mass_density", c_double_p),
                ("material_properties", c_double_p), ("internal_state_variables", c_double_p),
                ("stored_energy", c_double_p), ("dissipated_energy", c_double_p),
                ("external_state_variables", c_double_p)]


class BehaviourData(C.Structure):
    _fields_ = [("error_message", C.c_char_p), ("dt", C.c_double), ("K", c_double_p), ("rdt", c_double_p),
                ("speed_of_sound", c_double_p), ("s0", State), ("s1", State)]


class OutputStatus(C.Structure):
    _fields_ = [("status", C.c_int), ("c_error_number", C.c_int), ("bounds_status", C.c_int), ("msg", C.c_char * 512)]


def check_layout():
    """cross-check the ctypes layouts against the C headers with a tiny C program (offsetof)"""
    src = vfcore.CACHE / "layout_src.c"
    vfcore.CACHE.mkdir(parents=True, exist_ok=True)
    src.write_text('''#include <stdio.h>
#include <stddef.h>
#include "MFront/GenericBehaviour/BehaviourData.h"
#include "MFront/GenericMaterialProperty/OutputStatus.h"
int main(void){printf("%zu %zu %zu %zu %zu %zu %zu %zu %zu %zu %zu\\n", sizeof(mfront_gb_BehaviourData),
 offsetof(mfront_gb_BehaviourData,dt), offsetof(mfront_gb_BehaviourData,K), offsetof(mfront_gb_BehaviourData,rdt),
 offsetof(mfront_gb_BehaviourData,speed_of_sound), offsetof(mfront_gb_BehaviourData,s0), offsetof(mfront_gb_BehaviourData,s1),
 sizeof(mfront_gb_State), sizeof(mfront_gmp_OutputStatus), offsetof(mfront_gmp_OutputStatus,bounds_status), offsetof(mfront_gmp_OutputStatus,msg));return 0;}
''')
    exe = vfcore.compile_c("layout", [src], flags=["-I" + str(vfcore.REPO / "mfront/include")])
    r = vfcore.run([exe], timeout=20)
    got = [int(x) for x in r.out.split()]
    exp = [C.sizeof(BehaviourData), BehaviourData.dt.offset, BehaviourData.K.offset, BehaviourData.rdt.offset,
           BehaviourData.speed_of_sound.offset, BehaviourData.s0.offset, BehaviourData.s1.offset, C.sizeof(State),
           C.sizeof(OutputStatus), OutputStatus.bounds_status.offset, OutputStatus.msg.offset]
    if got != exp:
        raise vfcore.HarnessFailure("ctypes layouts differ from the C headers: %s vs %s" % (got, exp))


def generate(cwd, files, interfaces, extra=(), timeout=120, tree="plain", isolate=True):
    """run mfront on `files` (paths relative to cwd or absolute) -> vfcore.Result"""
    args = ["--interface=" + ",".join(interfaces)] + list(extra) + [str(f) for f in files]
    return vfcore.mfront(tree, args, cwd, timeout=timeout, isolate=isolate)


def build_library(cwd, name, flags=("-O1",), san=False, timeout=1800):
    return vfcore.compile_generated(cwd, name, flags=flags, san=san, timeout=timeout)


def build(cwd, text, fname, interfaces, libname, extra=(), flags=("-O1",)):
    """write text -> mfront -> compile.  Returns (libpath or None, log, mfront_result)"""
    cwd = Path(cwd)
    cwd.mkdir(parents=True, exist_ok=True)
    (cwd / fname).write_text(text)
    r = generate(cwd, [fname], interfaces, extra=extra)
    if r.rc != 0:
        return None, r.out + r.err, r
    lib, log = build_library(cwd, libname, flags=flags)
    return lib, log, r


_LOADED = {}


def preload_tfel(tree="plain"):
    """load the TFEL shared libraries the generated code needs (RTLD_GLOBAL)"""
    if tree in _LOADED:
        return
    t = vfcore.tree(tree)
    for sub, lib in (("Exception", "TFELException"), ("Utilities", "TFELUtilities"), ("Math", "TFELMath"),
                     ("Material", "TFELMaterial")):
        for cand in sorted((t / "src" / sub).glob("lib%s.so*" % lib)):
            C.CDLL(str(cand), mode=C.RTLD_GLOBAL)
            break
    _LOADED[tree] = True


def load(lib):
    preload_tfel()
    return C.CDLL(str(lib))


def arr(values):
    a = (C.c_double * max(1, len(values)))(*values)
    return a


class Behaviour:
    """ctypes wrapper of one generic behaviour entry point `<name>_<Hypothesis>`"""

    def __init__(self, lib, name, hypothesis, ngrad=None, nthf=None, nmp=0, nisv=0, nesv=1, ktsize=None):
        self.lib = lib if isinstance(lib, C.CDLL) else load(lib)
        self.name, self.hyp = name, hypothesis
        self.fn = getattr(self.lib, "%s_%s" % (name, hypothesis))
        self.fn.restype = C.c_int
        self.fn.argtypes = [C.POINTER(BehaviourData)]
        d = HYP_DIM[hypothesis]
        self.dim = d
        self.ngrad = STENSOR_SIZE[d] if ngrad is None else ngrad
        self.nthf = STENSOR_SIZE[d] if nthf is None else nthf
        self.nmp, self.nisv, self.nesv = nmp, nisv, nesv
        self.ktsize = max(self.ngrad * self.nthf, 36) if ktsize is None else ktsize

    def symbol(self, ctype, sym):
        return ctype.in_dll(self.lib, "%s_%s" % (self.name, sym))

    def integrate(self, K0, dt, g0, g1, thf0, mp, isv0, esv0, esv1, K_extra=(), rho=1.0, poison=None,
                  e0=(0.0, 0.0)):
        """One call.  Returns dict(rc, K, thf, isv, se, de, rdt, sos, msg).
        poison: value used to pre-fill the *output* arrays (thf1, isv1, energies) — lets a
        monitor see whether a failing call wrote anything."""
        n = max(self.ktsize, 4 + len(K_extra))
        K = (C.c_double * n)()
        K[0] = K0
        for i, v in enumerate(K_extra):
            K[1 + i] = v
        rdt = C.c_double(1.0)
        sos = C.c_double(0.0)
        msg = C.create_string_buffer(512)
        a_g0, a_g1 = arr(g0), arr(g1)
        a_t0 = arr(thf0)
        a_t1 = arr(list(thf0) if poison is None else [poison] * len(thf0))
        a_mp = arr(mp)
        a_i0 = arr(isv0)
        a_i1 = arr(list(isv0) if poison is None else [poison] * max(1, len(isv0)))
        a_e0, a_e1 = arr(esv0), arr(esv1)
        rho0, rho1 = C.c_double(rho), C.c_double(rho)
        se0, de0 = C.c_double(e0[0]), C.c_double(e0[1])
        se1 = C.c_double(e0[0] if poison is None else poison)
        de1 = C.c_double(e0[1] if poison is None else poison)
        d = BehaviourData()
        d.error_message = C.cast(msg, C.c_char_p)
        d.dt = dt
        d.K = C.cast(K, c_double_p)
        d.rdt = C.pointer(rdt)
        d.speed_of_sound = C.pointer(sos)
        d.s0 = State(C.cast(a_g0, c_double_p), C.cast(a_t0, c_double_p), C.pointer(rho0), C.cast(a_mp, c_double_p),
                     C.cast(a_i0, c_double_p), C.pointer(se0), C.pointer(de0), C.cast(a_e0, c_double_p))
        d.s1 = State(C.cast(a_g1, c_double_p), C.cast(a_t1, c_double_p), C.pointer(rho1), C.cast(a_mp, c_double_p),
                     C.cast(a_i1, c_double_p), C.pointer(se1), C.pointer(de1), C.cast(a_e1, c_double_p))
        rc = self.fn(C.byref(d))
        return {"rc": rc, "K": list(K), "thf": list(a_t1)[:len(thf0)], "isv": list(a_i1)[:len(isv0)],
                "se": se1.value, "de": de1.value, "rdt": rdt.value, "sos": sos.value,
                "msg": msg.value.decode("utf-8", "replace")}


class MaterialProperty:
    """generic-interface material property `name(status*, args*, nargs, policy)`"""
    NONE, WARNING, STRICT = 0, 1, 2

    def __init__(self, lib, name):
        self.lib = lib if isinstance(lib, C.CDLL) else load(lib)
        self.fn = getattr(self.lib, name)
        self.fn.restype = C.c_double
        self.fn.argtypes = [C.POINTER(OutputStatus), c_double_p, C.c_size_t, C.c_int]
        self.name = name

    def __call__(self, args, policy=0, nargs=None):
        st = OutputStatus()
        st.status, st.c_error_number, st.bounds_status = 12345, 12345, 12345
        a = arr(args)
        v = self.fn(C.byref(st), C.cast(a, c_double_p), len(args) if nargs is None else nargs, policy)
        return v, st.status, st.bounds_status, st.c_error_number, st.msg.decode("utf-8", "replace")

    def set_parameter(self, p, v):
        f = getattr(self.lib, self.name + "_setParameter")
        f.restype = C.c_int
        f.argtypes = [C.c_char_p, C.c_double]
        return f(p.encode(), v)


def build_cached(name, text, fname, interfaces, libname, extra=(), flags=("-O1",)):
    """Like build(), but the compiled library is kept in /verif/build/cache/gen.<name> and
    reused when (a) the sources mfront generates *now* from `text` are byte-identical and
    (b) no header they include has changed (gcc -MMD dependency hashes).  mfront itself is
    always re-run (20 ms), so a change of the generator is always seen.
    Returns (libpath or None, log, mfront_result)."""
    import hashlib
    slot = vfcore.CACHE / ("gen.%s" % name)
    slot.mkdir(parents=True, exist_ok=True)
    with vfcore.flock(slot / "lock"):
        w = slot / "w"
        shutil.rmtree(w, ignore_errors=True)
        w.mkdir()
        (w / fname).write_text(text)
        r = generate(w, [fname], interfaces, extra=extra)
        if r.rc != 0:
            return None, r.out + r.err, r
        h = hashlib.sha1(" ".join(flags).encode())
        for p in sorted(list((w / "src").glob("*.cxx")) + list((w / "include").rglob("*.hxx"))):
            h.update(p.name.encode())
            h.update(p.read_bytes())
        gkey = h.hexdigest()
        out = slot / ("lib%s.so" % libname)
        dkey = vfcore._deps_key([gkey], slot / "deps.d") if (slot / "deps.d").exists() else None
        kf = slot / "key"
        if out.exists() and dkey and kf.exists() and kf.read_text() == dkey:
            return out, "", r
        lib, log = vfcore.compile_generated(w, libname, flags=tuple(flags) + ("-MMD",))
        if lib is None:
            return None, log, r
        names = set()
        for d in (w / "src").glob("*.d"):
            # generated sources live in the scratch dir: only the headers matter for the key
            for tok in d.read_text().replace("\\\n", " ").split():
                if not tok.endswith(":") and not tok.startswith(str(w)):
                    names.add(tok)
        deps = "deps: " + " ".join(sorted(names)) + "\n"
        (slot / "deps.d").write_text(deps)
        shutil.copy(lib, out)
        kf.write_text(vfcore._deps_key([gkey], slot / "deps.d") or "")
        return out, log, r
