// C27 (library half) — tfel::material::BoundsCheck: throws <=> Strict and strictly outside (bounds inclusive);
// warning text on std::cerr <=> Warning and outside; nothing under None.  Scalars, quantities, stensor<1,2,3>
// (of double and of quantities); lower / upper / lowerAndUpper checks; values at the bound, one ulp around it,
// +-inf, far, near; NaN recorded only.  fd 2 is redirected to a pipe around every call.
#define VFH_MAIN
#include "vfh.hxx"
#include <fcntl.h>
#include <iostream>
#include <stdexcept>
#include "TFEL/Math/qt.hxx"
#include "TFEL/Math/stensor.hxx"
#include "TFEL/Material/BoundsCheck.hxx"
#include "TFEL/Material/MaterialException.hxx"

namespace tmat = tfel::material;
using stress = tfel::math::qt<tfel::math::unit::Stress, double>;

static vf::Reporter R;
static int g_pipe[2], g_saved = -1;

static void capture_begin() {
  std::cerr.flush();
  fflush(stderr);
  dup2(g_pipe[1], 2);
}
// -> text written on fd 2 since capture_begin
static std::string capture_end() {
  std::cerr.flush();
  fflush(stderr);
  dup2(g_saved, 2);
  std::string s;
  char b[4096];
  for (;;) {
    const ssize_t n = read(g_pipe[0], b, sizeof b);
    if (n <= 0) break;
    s.append(b, size_t(n));
  }
  return s;
}

static const char* const POL[] = {"None", "Warning", "Strict"};
static const tmat::OutOfBoundsPolicy POLV[] = {tmat::None, tmat::Warning, tmat::Strict};
enum Kind { LOWER, UPPER, BOTH };
static const char* const KIND[] = {"lower", "upper", "lowerAndUpper"};
static const char* const CLS[] = {"at-bound", "ulp-inside", "ulp-outside", "inf-outside", "inf-inside", "far-outside", "far-inside", "near-outside", "nan"};

struct Case {
  double lb, ub;
  int kind, pol, cls;
  double v;       // the special value
  bool expect_out;
};

// a value of the given class with respect to the bounds; side: which bound is approached (false: lower, true: upper)
static double special(vf::Rng& g, const Case& c, bool upper_side, int cls, bool& nan_case) {
  const double b = upper_side ? c.ub : c.lb;
  const double out = upper_side ? INFINITY : -INFINITY;   // direction that leaves the interval through this bound
  const double w = std::max(std::fabs(b), 1e-300);
  nan_case = false;
  switch (cls) {
    case 0: return b;
    case 1: return (c.kind == BOTH && c.lb == c.ub) ? b : std::nextafter(b, -out);
    case 2: return std::nextafter(b, out);
    case 3: return out;
    case 4: return (c.kind == BOTH) ? 0.5 * c.lb + 0.5 * c.ub : -out;   // one-sided: the infinity on the free side is inside
    case 5: return b + (upper_side ? 1 : -1) * w * g.logmag(-3, 6) + (upper_side ? 1 : -1) * (b == 0 ? g.logmag(-6, 6) : 0);
    case 6: return (c.kind == BOTH) ? c.lb + (c.ub - c.lb) * g.uni(0.01, 0.99) : b - (upper_side ? 1 : -1) * (w * g.logmag(-3, 3) + (b == 0 ? 1 : 0));
    case 7: return b + (upper_side ? 1 : -1) * w * g.logmag(-15, -9) + (b == 0 ? (upper_side ? 1e-300 : -1e-300) : 0);
    default: nan_case = true; return std::nan("");
  }
}

static bool is_outside(const Case& c, double v) {
  if (c.kind == LOWER) return v < c.lb;
  if (c.kind == UPPER) return v > c.ub;
  return (v < c.lb) || (v > c.ub);
}
static double inside_value(vf::Rng& g, const Case& c) {
  if (c.kind == BOTH) return c.lb + (c.ub - c.lb) * g.uni(0.0, 1.0);
  if (c.kind == LOWER) return c.lb + std::max(std::fabs(c.lb), 1.0) * g.uni(0.0, 10.0);
  return c.ub - std::max(std::fabs(c.ub), 1.0) * g.uni(0.0, 10.0);
}

template <typename F>
static void judge(const char* type, const Case& c, uint64_t idx, const double* vals, int nvals, bool any_nan, F&& call) {
  char api[64], st[64];
  std::snprintf(api, sizeof api, "%s:%s", type, KIND[c.kind]);
  std::snprintf(st, sizeof st, "%s:%s", POL[c.pol], CLS[c.cls]);
  if (any_nan) {   // "lies outside its bounds" is not defined for NaN: recorded only
    R.skip(api, st);
    return;
  }
  bool out = false;
  for (int i = 0; i < nvals; ++i) out = out || is_outside(c, vals[i]);
  vf::set_case(api, st, idx);
  bool thrown = false, right_type = true;
  std::string what;
  capture_begin();
  try {
    call();
  } catch (tmat::OutOfBoundsException& e) {
    thrown = true;
    what = e.what();
  } catch (std::exception& e) {
    thrown = true;
    right_type = false;
    what = e.what();
  } catch (...) {
    thrown = true;
    right_type = false;
  }
  const std::string err = capture_end();
  const bool exp_throw = out && c.pol == 2;
  const bool exp_warn = out && c.pol == 1;
  const bool ok = (thrown == exp_throw) && ((!err.empty()) == exp_warn) && right_type;
  uint64_t h = vf::hash_arr(vals, size_t(nvals));
  h = vf::hash_bytes(&c, sizeof(Case), h);
  const char* msg = ok ? "" : (thrown != exp_throw ? (thrown ? "throws but must not" : "does not throw") : (!right_type ? "exception is not an OutOfBoundsException" : (err.empty() ? "no warning on std::cerr" : "writes on std::cerr but must not")));
  R.expect(api, st, idx, h, ok, [&] {
    vf::J j;
    j.f("lb", c.lb).f("ub", c.ub).s("policy", POL[c.pol]).s("check", KIND[c.kind]).arr("values", vals, vals + nvals);
    j.i("outside", out).i("thrown", thrown).i("stderr_bytes", (long long)err.size()).s("what", what.substr(0, 120)).s("stderr", err.substr(0, 120));
    return j.str();
  }, msg);
}

template <unsigned short N, typename T, typename B>
static void call_check(const Case& c, const std::string& name, const T& v, B lb, B ub) {
  const auto p = POLV[c.pol];
  if (c.kind == LOWER) tmat::BoundsCheck<N>::lowerBoundCheck(name, v, lb, p);
  else if (c.kind == UPPER) tmat::BoundsCheck<N>::upperBoundCheck(name, v, ub, p);
  else tmat::BoundsCheck<N>::lowerAndUpperBoundsChecks(name, v, lb, ub, p);
}

template <unsigned short N>
static void stensor_cases(vf::Rng& g, const Case& c, uint64_t idx, bool upper_side) {
  constexpr int S = (N == 1 ? 3 : (N == 2 ? 4 : 6));
  double vals[S];
  bool nan_case = false, any_nan = false;
  for (int i = 0; i < S; ++i) vals[i] = inside_value(g, c);
  const int nspecial = g.irange(1, 2);
  for (int k = 0; k < nspecial; ++k) {
    const int i = g.irange(0, S - 1);
    vals[i] = special(g, c, upper_side, c.cls, nan_case);
    any_nan = any_nan || nan_case;
  }
  char type[32];
  if (g.coin()) {
    std::snprintf(type, sizeof type, "stensor<%d,double>", int(N));
    tfel::math::stensor<N, double> s;
    for (int i = 0; i < S; ++i) s(i) = vals[i];
    judge(type, c, idx, vals, S, any_nan, [&] { call_check<N>(c, "s", s, c.lb, c.ub); });
  } else {
    std::snprintf(type, sizeof type, "stensor<%d,qt>", int(N));
    tfel::math::stensor<N, stress> s;
    for (int i = 0; i < S; ++i) s(i) = stress(vals[i]);
    judge(type, c, idx, vals, S, any_nan, [&] { call_check<N>(c, "s", s, c.lb, c.ub); });
  }
}

int main(int argc, char** argv) {
  vf::Args a(argc, argv);
  if (pipe(g_pipe) != 0) return 2;
  fcntl(g_pipe[0], F_SETFL, O_NONBLOCK);
  g_saved = dup(2);
  for (long i = 0; i < a.cases; ++i) {
    const uint64_t idx = a.gidx(i);
    if (a.only >= 0 && uint64_t(a.only) != idx) continue;
    vf::Rng g(a.seed, 27, idx);
    Case c{};
    c.kind = int(idx % 3);
    c.pol = int((idx / 3) % 3);
    c.cls = int((idx / 9) % 9);
    const int shape = int((idx / 81) % 5);   // double, qt, stensor<1>, <2>, <3>
    const int zc = g.irange(0, 9);
    c.lb = zc == 0 ? 0.0 : g.sign() * g.logmag(-6, 6);
    if (zc == 1) c.lb = g.sign() * g.logmag(-300, 300);
    c.ub = c.lb;
    if (c.kind == BOTH) {
      const int eq = g.irange(0, 9);
      c.ub = eq == 0 ? c.lb : c.lb + std::max(std::fabs(c.lb), 1e-6) * g.logmag(-6, 3);
      if (!(c.ub >= c.lb) || !std::isfinite(c.ub)) c.ub = c.lb;
    }
    const bool upper_side = c.kind == UPPER || (c.kind == BOTH && g.coin());
    bool nan_case = false;
    if (shape == 0) {
      const double v = special(g, c, upper_side, c.cls, nan_case);
      const int n = g.irange(1, 3);
      const double vals[1] = {v};
      judge("double", c, idx, vals, 1, nan_case, [&] {
        if (n == 1) call_check<1>(c, "x", v, c.lb, c.ub);
        else if (n == 2) call_check<2>(c, "x", v, c.lb, c.ub);
        else call_check<3>(c, "x", v, c.lb, c.ub);
      });
    } else if (shape == 1) {
      const double v = special(g, c, upper_side, c.cls, nan_case);
      const int n = g.irange(1, 3);
      const double vals[1] = {v};
      const stress q(v);
      judge("qt", c, idx, vals, 1, nan_case, [&] {
        if (n == 1) call_check<1>(c, "q", q, c.lb, c.ub);
        else if (n == 2) call_check<2>(c, "q", q, c.lb, c.ub);
        else call_check<3>(c, "q", q, c.lb, c.ub);
      });
    } else if (shape == 2) {
      stensor_cases<1>(g, c, idx, upper_side);
    } else if (shape == 3) {
      stensor_cases<2>(g, c, idx, upper_side);
    } else {
      stensor_cases<3>(g, c, idx, upper_side);
    }
  }
  R.finish();
  return 0;
}
