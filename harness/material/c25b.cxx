// C25 (part b) — ParticulateMicrostructure schemes (dilute, Mori-Tanaka, self-consistent): multi-phase
// Mori-Tanaka with the softest / stiffest matrix = Hashin-Shtrikman-Walpole bounds, volume average of
// the localisation tensors = identity, homogenised stiffness = C0 + sum f_i (C_i-C0):A_i, zero
// inclusion fraction = matrix; Hill tensor in an anisotropic
// medium against its integral definition.
#define VFH_MAIN
#include "c25_common.hxx"
#include "TFEL/Material/AnisotropicEshelbyTensor.hxx"
#include "TFEL/Material/MicrostructureDescription.hxx"
#include "TFEL/Material/MicrostructureLinearHomogenization.hxx"
vf::Reporter R;

using Micro = hom::ParticulateMicrostructure<3u, double>;
using HS = hom::HomogenizationScheme<3u, double>;

static bool exact0(const tfm::tvector<3u, double>& x, const tfm::tvector<3u, double>& y) {
  volatile double p0 = x[0] * y[0], p1 = x[1] * y[1], p2 = x[2] * y[2];
  volatile double s1 = p0 + p1, s2 = p1 + p2, s3 = p0 + p2;
  return (s1 + p2 == 0.0) && (p0 + s2 == 0.0) && (s3 + p1 == 0.0) && ((x | y) == 0.0);
}
// orthogonal directions accepted by the library (exactly zero floating-point dot product)
static void gen_dirs(vf::Rng& g, tfm::tvector<3u, double>& na, tfm::tvector<3u, double>& nb) {
  const M3 Q = random_rotation(g, 3);
  for (int i = 0; i < 3; ++i) na[i] = double(Q[i][0]);
  nb = {-na[1], na[0], 0.};
  if (!exact0(na, nb) || (nb[0] == 0 && nb[1] == 0)) { na = {1., 0., 0.}; nb = {0., 1., 0.}; }
}

// ---------------------------------------------------------------- spheres, well-ordered phases
static const char* S_STRATA[] = {"softest-matrix", "stiffest-matrix"};
static void spheres_case(const vf::Args& a, uint64_t idx) {
  vf::Rng g(a.seed, 2530, idx);
  const int st = int(idx % 2);
  const char* S = S_STRATA[st];
  char api[128];
  auto nm = [&](const char* f) { std::snprintf(api, sizeof api, "%s", f); vf::set_case(api, S, idx); return api; };
  const int n = g.irange(2, 5);
  const L scale = g.logmag(-3, 11);
  // well ordered: K and mu sorted the same way; phase 0 is the matrix (softest or stiffest)
  std::vector<double> K(n), mu(n), f(n);
  { std::vector<double> k(n), m(n); for (int i = 0; i < n; ++i) { k[i] = double(scale * g.logmag(-1.5, 1.5)); m[i] = double(scale * g.logmag(-1.5, 1.5)); }
    std::sort(k.begin(), k.end()); std::sort(m.begin(), m.end());
    if (st == 1) { std::reverse(k.begin(), k.end()); std::reverse(m.begin(), m.end()); }
    K = k; mu = m; }
  L sum = 0; for (int i = 0; i < n; ++i) { f[i] = -std::log(1 - g.u01()) + 0.05; sum += f[i]; }
  for (int i = 0; i < n; ++i) f[i] = double(f[i] / sum);
  const uint64_t h = vf::hash_arr(f.data(), n, vf::hash_arr(K.data(), n, vf::hash_arr(mu.data(), n)));
  auto dump = [&] { vf::J j; j.arr("f", f.begin(), f.end()).arr("K", K.begin(), K.end()).arr("mu", mu.begin(), mu.end()); return j.str(); };
  Micro micro(tmat::KGModuli<double>(K[0], mu[0]));
  hom::Sphere<double> sph;
  int ok = 1;
  for (int i = 1; i < n; ++i) { hom::SphereDistribution<double> d(sph, f[i], tmat::KGModuli<double>(K[i], mu[i])); ok = ok && micro.addInclusionPhase(d); }
  if (!ok) { R.skip(nm("computeMoriTanaka(spheres)=HS"), S); return; }
  const double f0 = micro.getMatrixFraction();  // 1 - sum f_i as the library computes it
  HS mt = hom::computeMoriTanaka<3u, double>(micro);
  const auto kg = tmat::computeKGModuli<double>(mt.homogenized_stiffness);
  // Hashin-Shtrikman-Walpole bound with the matrix as extreme phase: K* = 4/3 mu_0, mu* = mu_0 (9K_0+8mu_0)/(6(K_0+2mu_0))
  const L Ks = 4 * L(mu[0]) / 3, Gs = L(mu[0]) * (9 * L(K[0]) + 8 * L(mu[0])) / (6 * (L(K[0]) + 2 * L(mu[0])));
  L cK = L(f0) / (Ks + K[0]), cG = L(f0) / (Gs + mu[0]), Kmax = K[0], Gmax = mu[0], cond = dmax(K[0] / mu[0], mu[0] / K[0]);
  for (int i = 1; i < n; ++i) { cK += L(f[i]) / (Ks + K[i]); cG += L(f[i]) / (Gs + mu[i]); Kmax = dmax(Kmax, K[i]); Gmax = dmax(Gmax, mu[i]); cond = dmax(cond, dmax(K[i] / mu[i], mu[i] / K[i])); }
  const L Kb = 1 / cK - Ks, Gb = 1 / cG - Gs;
  const L tol = KF * EPS * (Kmax + Gmax) * 16 * cond;
  R.check(nm("computeMoriTanaka(spheres).K=HS(Walpole)"), S, idx, h, std::fabs(L(kg.kappa) - Kb), tol, dump);
  R.check(nm("computeMoriTanaka(spheres).mu=HS(Walpole)"), S, idx, h, std::fabs(L(kg.mu) - Gb), tol, dump);
  R.expect(nm("computeMoriTanaka(spheres):isIsotropic"), S, idx, h, tmat::isIsotropic<double>(mt.homogenized_stiffness, 1e-9), dump);
  {  // the library's own bounds on the same data (fractions: matrix fraction as stored by the microstructure)
    std::vector<double> ff = f; ff[0] = f0; std::vector<double> KK = K, mm = mu;
    const auto b = hom::computeIsotropicHashinShtrikmanBounds<3u, double>(std::span<double>(ff), std::span<double>(KK), std::span<double>(mm));
    const L Kl = st == 0 ? b.first.first : b.second.first, Gl = st == 0 ? b.first.second : b.second.second;
    R.check(nm("computeMoriTanaka(spheres).K=computeIsotropicHashinShtrikmanBounds"), S, idx, h, std::fabs(L(kg.kappa) - Kl), tol, dump);
    R.check(nm("computeMoriTanaka(spheres).mu=computeIsotropicHashinShtrikmanBounds"), S, idx, h, std::fabs(L(kg.mu) - Gl), tol, dump);
  }
}

// ------------------------------------------------------------------------ mixed distributions
static const char* M_STRATA[] = {"generic", "zero-fraction", "one-inclusion-family"};
static void mixed_case(const vf::Args& a, uint64_t idx) {
  vf::Rng g(a.seed, 2540, idx);
  const int st = int(idx % 3);
  const char* S = M_STRATA[st];
  char api[160];
  auto nm = [&](const char* f) { std::snprintf(api, sizeof api, "%s", f); vf::set_case(api, S, idx); return api; };
  const L scale = g.logmag(-3, 11);
  const Medium m0 = gen_medium(g, scale, 0);
  Micro micro(tmat::YoungNuModuli<double>(m0.E, m0.nu));
  const int ninc = st == 2 ? 1 : g.irange(1, 4);
  std::vector<double> fr; std::vector<T4> Ci; std::vector<int> kinds;
  double ftot = 0;
  vf::J jin; jin.f("E0", m0.E).f("nu0", m0.nu);
  uint64_t h = vf::hash_arr(&m0.E, 1);
  for (int i = 0; i < ninc; ++i) {
    const Medium mi = gen_medium(g, scale, 1);
    const double f = st == 1 ? 0.0 : g.uni(0.01, 0.6 / ninc);
    const int kind = g.irange(0, 3);
    const double aa = g.logmag(-0.7, 0.7), bb = g.logmag(-0.7, 0.7), cc = g.logmag(-0.7, 0.7);
    const tmat::YoungNuModuli<double> IMi(mi.E, mi.nu);
    tfm::tvector<3u, double> na, nb; gen_dirs(g, na, nb);
    int ok = 0;
    switch (kind) {
      case 0: { hom::Sphere<double> s; hom::SphereDistribution<double> d(s, f, IMi); ok = micro.addInclusionPhase(d); break; }
      case 1: { hom::Ellipsoid<double> e(aa, bb, cc); hom::IsotropicDistribution<double> d(e, f, IMi); ok = micro.addInclusionPhase(d); break; }
      case 2: { hom::Spheroid<double> e(aa, bb); unsigned short ind = static_cast<unsigned short>(g.irange(0, 2)); hom::TransverseIsotropicDistribution<double> d(e, f, IMi, na, ind); ok = micro.addInclusionPhase(d); break; }
      default: { hom::Ellipsoid<double> e(aa, bb, cc); hom::OrientedDistribution<double> d(e, f, IMi, na, nb); ok = micro.addInclusionPhase(d); }
    }
    if (!ok) continue;
    fr.push_back(f); Ci.push_back(mi.C); kinds.push_back(kind); ftot += f;
    double in[6] = {mi.E, mi.nu, f, aa, bb, cc}; h = vf::hash_arr(in, 6, h);
    char k[16]; std::snprintf(k, sizeof k, "inc%d", i); double v[7] = {double(kind), mi.E, mi.nu, f, aa, bb, cc}; jin.arr(k, v, v + 7);
  }
  const std::string js = jin.str();
  auto dump = [&] { return js; };
  const int np = int(fr.size()) + 1;
  if (np < 2) { R.skip(nm("computeMoriTanaka:sum f_r A_r=I"), S); return; }
  const double f0 = micro.getMatrixFraction();
  const L nC = t4norm(m0.C);
  auto judge = [&](const char* scheme, const HS& r, bool average_is_identity, L tolrel) {
    char b[160];
    if (int(r.mean_strain_localisation_tensors.size()) != np) { std::snprintf(b, sizeof b, "%s:one-localisation-tensor-per-phase", scheme); R.expect(nm(b), S, idx, h, false, dump); return; }
    T4 avg = esh::t4scal(from_st2tost2(r.mean_strain_localisation_tensors[0], 3), f0);
    T4 Ch = esh::t4add(m0.C, t4zero());
    L nA = 1;
    for (int i = 1; i < np; ++i) {
      const T4 Ai = from_st2tost2(r.mean_strain_localisation_tensors[i], 3);
      nA = dmax(nA, t4norm(Ai));
      avg = esh::t4add(avg, Ai, fr[i - 1]);
      Ch = esh::t4add(Ch, ddot(esh::t4add(Ci[i - 1], m0.C, -1), Ai), fr[i - 1]);
    }
    if (average_is_identity) { std::snprintf(b, sizeof b, "%s:sum f_r A_r=I", scheme); R.check(nm(b), S, idx, h, t4dist(avg, esh::t4id()), tolrel * nA * 16, dump); }
    std::snprintf(b, sizeof b, "%s:Chom=C0+sum f_i (C_i-C0):A_i", scheme);
    R.check(nm(b), S, idx, h, t4dist(from_st2tost2(r.homogenized_stiffness, 3), Ch), tolrel * nA * nC * 64, dump);
    if (st == 1) { std::snprintf(b, sizeof b, "%s:f=0:Chom=matrix", scheme); R.check(nm(b), S, idx, h, t4dist(from_st2tost2(r.homogenized_stiffness, 3), m0.C), tolrel * nC * 64, dump); }
  };
  judge("computeDilute", hom::computeDilute<3u, double>(micro), false, KF * EPS);
  judge("computeMoriTanaka", hom::computeMoriTanaka<3u, double>(micro), true, KF * EPS);
  // self-consistent: for the converged iterate, A_r are computed in the previous homogenised medium
  // (relative change below the tolerance): identities hold up to that tolerance
  judge("computeSelfConsistent", hom::computeSelfConsistent<3u, double>(micro, 1e-12, true), true, 1e-9L);
  (void)ftot; (void)kinds;
}

// --------------------------------------------------------------- anisotropic reference medium
static const char* A_STRATA[] = {"isotropic-C0", "orthotropic-C0"};
static void aniso_case(const vf::Args& a, uint64_t idx) {
  vf::Rng g(a.seed, 2550, idx);
  const int st = int(idx % 2);
  const char* S = A_STRATA[st];
  char api[128];
  auto nm = [&](const char* f) { std::snprintf(api, sizeof api, "%s", f); vf::set_case(api, S, idx); return api; };
  const L scale = g.logmag(-3, 11);
  T4 C0;
  const Medium m0 = gen_medium(g, scale, 0);
  if (st == 0) C0 = m0.C;
  else {
    L cond;
    const L E1 = scale * g.logmag(-0.3, 0.3), E2 = scale * g.logmag(-0.3, 0.3), E3 = scale * g.logmag(-0.3, 0.3);
    if (!mref::ortho_t4(C0, cond, E1, E2, E3, g.uni(0.1, 0.3), g.uni(0.1, 0.3), g.uni(0.1, 0.3), scale * g.logmag(-0.5, 0), scale * g.logmag(-0.5, 0), scale * g.logmag(-0.5, 0))) { R.skip(nm("computeAnisotropicHillTensor=integral-definition"), S); return; }
    C0 = esh::rotate(C0, random_rotation(g, 3));
  }
  const auto C0l = mk4<3>(C0);
  const T4 C0r = from_st2tost2(C0l, 3);  // as rounded
  tfm::tvector<3u, double> na, nb; gen_dirs(g, na, nb);
  const double aa = g.logmag(-0.3, 0.3), bb = g.logmag(-0.3, 0.3), cc = g.logmag(-0.3, 0.3);
  double in[4] = {aa, bb, cc, C0l(0, 0)};
  const uint64_t h = vf::hash_arr(in, 4, vf::hash_arr(&na[0], 3));
  auto dump = [&] { vf::J j; j.f("a", aa).f("b", bb).f("c", cc).arr("n_a", &na[0], &na[0] + 3).arr("n_b", &nb[0], &nb[0] + 3).arr("C0", C0l.begin(), C0l.end()); return j.str(); };
  // local frame from the (exactly orthogonal) directions
  V3 e0 = {na[0], na[1], na[2]}, e1 = {nb[0], nb[1], nb[2]};
  L n0 = std::sqrt(e0[0] * e0[0] + e0[1] * e0[1] + e0[2] * e0[2]), n1 = std::sqrt(e1[0] * e1[0] + e1[1] * e1[1] + e1[2] * e1[2]);
  for (auto& x : e0) x /= n0; for (auto& x : e1) x /= n1;
  M3 Q; for (int i = 0; i < 3; ++i) { Q[i][0] = e0[i]; Q[i][1] = e1[i]; }
  Q[0][2] = e0[1] * e1[2] - e0[2] * e1[1]; Q[1][2] = e0[2] * e1[0] - e0[0] * e1[2]; Q[2][2] = e0[0] * e1[1] - e0[1] * e1[0];
  // P in the global frame = rotate( P_local( C0 expressed in the local frame ) )
  const T4 C0loc = esh::rotate(C0r, tr(Q));
  const L ax[3] = {aa, bb, cc};
  T4 Pl;
  if (!esh::hill_quad(Pl, C0loc, ax)) { R.skip(nm("computeAnisotropicHillTensor=integral-definition"), S); return; }
  const T4 Pref = esh::rotate(Pl, Q);
  // numerical integration: 10 subdivisions (default 12 costs seconds per call); accuracy not
  // documented (observed ~4e-6 relative at 10 for these aspect ratios <= 2); 1e-3 of the tensor
  // norm is far below what a wrong term would produce
  const std::size_t nit = 10;
  const auto P = hom::computeAnisotropicHillTensor<double>(C0l, na, aa, nb, bb, cc, nit);
  R.check(nm("computeAnisotropicHillTensor=integral-definition"), S, idx, h, t4dist(from_st2tost2(P, 3), Pref), 1e-3L * t4norm(Pref), dump);
  R.check(nm("computeAnisotropicHillTensor:major-symmetry"), S, idx, h, mref::major_asym(from_st2tost2(P, 3)), 1e-3L * t4norm(Pref), dump);
  const auto Se = hom::computeAnisotropicEshelbyTensor<double>(C0l, na, aa, nb, bb, cc, nit);
  R.check(nm("computeAnisotropicEshelbyTensor=P:C0"), S, idx, h, t4dist(from_st2tost2(Se, 3), ddot(from_st2tost2(P, 3), C0r)), KF * EPS * 64 * dmax(1, t4norm(from_st2tost2(Se, 3))), dump);
}

int main(int argc, char** argv) {
  vf::Args a(argc, argv);
  for (long i = 0; i < a.cases; ++i) {
    const uint64_t idx = a.only >= 0 ? uint64_t(a.only) : a.gidx(i);
    // the anisotropic Hill tensor costs ~1 s per call: one case out of 32, spread over the shards
    const uint64_t k = (idx + idx / 16 + idx / 256) % 32;
    if (k == 31) aniso_case(a, idx);
    else if (k < 10) spheres_case(a, idx);
    else mixed_case(a, idx);
    if (a.only >= 0) break;
  }
  R.finish();
  return 0;
}
