#!/usr/bin/env python3
"""mutate.py — sensitivity experiments for C37 / C38 / C45 (not part of any check).

  python3 harness/gen/mutate.py <C37|C38|C45> <mutation> [tier]

Runs the check with the *generated sources post-processed before compilation* so as to emulate a bug of the
generator (nothing under /repo or /verif/build is touched), and prints the violation keys the check raises that it does
not raise without the mutation (the keys of the unchanged tree are listed in BASELINE).  The evidence / replay files
of the property are restored at the end of such a run."""
import importlib
import re
import sys
from pathlib import Path

HERE = Path(__file__).resolve().parent.parent.parent
sys.path.insert(0, str(HERE / "lib"))
sys.path.insert(0, str(HERE))
import gen      # noqa: E402
import mpgen    # noqa: E402
import vfcore   # noqa: E402


def sub1(pat, rep, s, flags=0):
    return re.sub(pat, rep, s, count=1, flags=flags)


MUT = {
    # ---- C37
    "return-scaled": lambda i, s: s.replace("return y;", "return y*(1+1e-9);").replace("return res;", "return res*(1+1e-9);") if i == "generic" else s,
    "setparameter-wrong-slot": lambda i, s: re.sub(r'(if\(strcmp\("[^"]+",p\) == 0\)\{\n[^\n]*\(\)\.)(\w+)( = static_cast<double>\(v\);)',
                                                 lambda m: m.group(1) + m.group(2) + m.group(3).replace("(v)", "(v*1.0000001)"), s) if i == "generic" else s,
    "parameter-file-ignored": lambda i, s: s.replace('-parameters.txt");', '-parameters.txt.not");') if i == "generic" else s,
    "extrapolation-flipped": lambda i, s: s.replace("Interpolation<true>", "Interpolation<@>").replace("Interpolation<false>", "Interpolation<true>").replace("Interpolation<@>", "Interpolation<false>"),
    "cxx-setter-noop": lambda i, s: re.sub(r"this->(\w+) = mfront_\w+;", r"/* \1 */", s) if i == "c++" else s,
    # ---- C38
    "bound-inclusive-flipped": lambda i, s: sub1(r"if\((\w+) < ", r"if(\1 <= ", s) if i in ("generic", "c") else s,
    "errno-restore-dropped": lambda i, s: s.replace('mfront_report("invalid number of arguments', 'mfront_report("Invalid number of arguments').replace(
        "errno = mfront_errno_old;\nreturn std::nan(\"invalid number of arguments\");", "return std::nan(\"invalid number of arguments\");") if i == "generic" else s,
    "errno-final-restore-dropped": lambda i, s: s.replace("errno = mfront_errno_old;\nif(!tfel::math::ieee754::isfinite", "if(!tfel::math::ieee754::isfinite") if i == "generic" else s,
    "rank-shifted": lambda i, s: sub1(r"bounds_status = -1;", "bounds_status = -2;", s) if i == "generic" else s,
    "warning-status-zero": lambda i, s: s.replace("mfront_output_status->status = 1;", "mfront_output_status->status = 0;") if i == "generic" else s,
    "physical-as-standard-in-checkBounds": lambda i, s: sub1(r"return -(\d+);", r"return \1;", s) if i == "c" else s,
    "nargs-check-dropped": lambda i, s: sub1(r"if\(mfront_nargs!= \d+\)\{", "if(false){", s) if i == "generic" else s,
    # ---- C45 (material properties and behaviours)
    "parameter-default-symbol-scaled": lambda i, s: re.sub(r"(_ParameterDefaultValue, )([-0-9.e+]+)\)", lambda m: m.group(0) if abs(float(m.group(2))) > 1e300 else "%s%r)" % (m.group(1), float(m.group(2)) * 2), s),
    "lower-bound-symbol-dropped": lambda i, s: sub1(r"MFRONT_EXPORT_SYMBOL\(long double, \w+_LowerBound,[^\n]*\n", "", s),
    "upper-physical-bound-symbol-shifted": lambda i, s: sub1(r"(_UpperPhysicalBound, static_cast<long double>\()([-0-9.e+]+)\)", lambda m: "%s%r)" % (m.group(1), float(m.group(2)) + 1), s),
    "names-array-swapped": lambda i, s: sub1(r'(_args, \d+,\s*MFRONT_EXPORT_ARRAY_ARGUMENTS\()"([^"]+)",\s*"([^"]+)"', r'\1"\3","\2"', s),
    "hypothesis-dropped": lambda i, s: s,   # handled below (behaviour sources)
    "setparameter-behaviour-wrong": lambda i, s: s,
}

# mutations that depend on the spec of the program: f(interface, source, spec)
SPEC_MUT = {
    # the seeded defect of SingleVariableInterpolatedData::extract: the string "constant" taken as "extrapolate"
    "data-constant-means-extrapolate": lambda i, s, spec: s.replace("Interpolation<false>", "Interpolation<true>")
    if spec.get("kind") == "data" and spec["data"]["extrapolation"] == "constant" else s,
    "data-bound_to_last_value-means-extrapolate": lambda i, s, spec: s.replace("Interpolation<false>", "Interpolation<true>")
    if spec.get("kind") == "data" and spec["data"]["extrapolation"] == "bound_to_last_value" else s,
    "data-absent-extrapolation-means-constant": lambda i, s, spec: s.replace("Interpolation<true>", "Interpolation<false>")
    if spec.get("kind") == "data" and spec["data"]["extrapolation"] is None else s,
}

BHV_MUT = {
    "parameter-default-symbol-scaled": MUT["parameter-default-symbol-scaled"],
    "lower-bound-symbol-dropped": MUT["lower-bound-symbol-dropped"],
    "upper-physical-bound-symbol-shifted": MUT["upper-physical-bound-symbol-shifted"],
    "names-array-swapped": lambda i, s: sub1(r'(_MaterialProperties, \d+,\s*MFRONT_EXPORT_ARRAY_ARGUMENTS\()"([^"]+)",\s*"([^"]+)"', r'\1"\3","\2"', s),
    "isv-type-changed": lambda i, s: sub1(r"(_InternalStateVariablesTypes, \d+,\s*MFRONT_EXPORT_ARRAY_ARGUMENTS\()0", r"\g<1>1", s),
    "setparameter-behaviour-wrong": lambda i, s: s.replace("i.set(key,value);", "i.set(key,value*1.0000001);"),
}


def main():
    check, mutation = sys.argv[1].upper(), sys.argv[2]
    tier = sys.argv[3] if len(sys.argv) > 3 else "quick"
    seed = int(__import__("os").environ.get("VERIF_SEED", "0"))
    muts = mutation.split(",")      # several independent mutations may be applied in one run

    def compose(table):
        def f(i, s):
            for m in muts:
                if m in table:
                    s = table[m](i, s)
            return s
        return f
    orig = mpgen.compile_iface
    def with_spec(spec):
        f = compose(MUT)

        def g(i, s):
            s = f(i, s)
            for m in muts:
                if m in SPEC_MUT:
                    s = SPEC_MUT[m](i, s, spec)
            return s
        return g
    mpgen.compile_iface = lambda cwd, spec, i, flags=("-O1",), mutate=None: orig(cwd, spec, i, flags, with_spec(spec))
    if any(m in BHV_MUT for m in muts):
        orig_bl = gen.build_library

        def build_library(cwd, name, flags=("-O1",), san=False, timeout=1800):
            for p in (Path(cwd) / "src").glob("*.cxx"):
                p.write_text(compose(BHV_MUT)("behaviour", p.read_text()))
            return orig_bl(cwd, name, flags=flags, san=san, timeout=timeout)
        gen.build_library = build_library
    mod = importlib.import_module("checks." + check.lower())
    ev = HERE / "evidence" / (check + ".json")
    saved = ev.read_bytes() if ev.exists() else None
    before = {p: p.read_bytes() for p in (HERE / "replays").glob(check + "-*.json")}
    ctx = vfcore.Ctx(check, tier, seed, level=mod.META.get("level", "exploration"))
    try:
        mod.run(ctx)
    finally:
        keys = sorted({k for k, _, _ in ctx.violations})
        ctx.finish()
        # leave the evidence and replay files of the real check as they were
        if saved is not None:
            ev.write_bytes(saved)
        for p in (HERE / "replays").glob(check + "-*.json"):
            if p in before:
                p.write_bytes(before[p])
            else:
                p.unlink()
    print("MUTATION %s %s -> %d violation keys" % (check, mutation, len(keys)))
    for k in keys:
        print("  " + k)


if __name__ == "__main__":
    main()
