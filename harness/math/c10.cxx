// C10 — CubicRoots::exe returns genuine roots (DESIGN.md §4.1 C10)
//
// Cubics are *constructed from chosen roots*, so the truth is known without solving anything:
//  * "exact" families use small dyadic roots and a power-of-two leading coefficient: every
//    coefficient is exactly representable in float/double/long double, the chosen roots are
//    the exact roots of the polynomial the library sees;
//  * "rounded" families use arbitrary real roots; the coefficients are computed in long double
//    and rounded to T, and the simple real roots are then polished by a long-double Newton
//    iteration on the *rounded* polynomial (reference = roots of what the library sees).
// Judged quantities (api:stratum keys):
//   exe            values presented as roots (b=false)  vs the true roots
//   exe+improve    same with b=true
//   exe/count      returned count (3 for separated real roots, 1 for one real + pair)
//   exe/improve-monotone   |p(x_refined)| <= |p(x_raw)| (+ evaluation noise)
// A value that fails the bound gets a mechanism suffix on its stratum, so that two different defects never
// share a key:  "<stratum>:cancellation"  when 1 was returned (single-real-root branch), the depressed form of
// the cubic the library sees has |4p^3/27| < 0.1 q^2 (Cardano's -q +- sqrt(q^2+4p^3/27) cancels) and the error
// is <= KCANCEL*eps^(1/3)*S (KCANCEL = 4; the mechanism yields at most ~1.3 eps^(1/3) S);  otherwise
// "<stratum>:gross" when the error exceeds 1e-3*S (wrong sign / wrong branch errors are O(S));  otherwise
// "<stratum>:other".
// Accuracy demanded of a value presented as a root z_j:  |x - z_j| <= K * S * u_j with S the
// largest root modulus and u_j = max(eps, min(eps*S^2/(g_a g_b), sqrt(eps*S/g_b), cbrt(eps)))
// (g_a<=g_b distances from z_j to the two other roots): the first-order perturbation bound of a
// simple / double / triple root under coefficient perturbations of relative size eps.
#define VFH_MAIN
#include "vfh.hxx"
#include <algorithm>
#include "TFEL/Math/General/CubicRoots.hxx"

using L = long double;
static vf::Reporter R;

static const L KROOT = 1000;    // safety factor on the perturbation bound
static const L KNOISE = 64;    // evaluation noise factor for the residual comparison
static const L KCANCEL = 4;    // a failing value is filed under ":cancellation" only if its error <= KCANCEL eps^(1/3) S
static const L GROSS = 1e-3L;  // ... and under ":gross" if its error exceeds GROSS * S

struct Truth {
  L re[3], im[3];     // the three roots (a complex pair appears as re +- i im)
  int expect;         // 3, 1, or 0 = "1 or 3 both acceptable"
  bool skip = false;
};

static L pval(const L a[4], L x) { return ((a[0] * x + a[1]) * x + a[2]) * x + a[3]; }
static L pabs(const L a[4], L x) {
  const L ax = std::fabs(x);
  return ((std::fabs(a[0]) * ax + std::fabs(a[1])) * ax + std::fabs(a[2])) * ax + std::fabs(a[3]);
}

// coefficients (a3,a2,a1,a0) of a3 (x-r0)(x-r1)(x-r2) or a3 (x-r0)((x-c)^2+d^2)
static void coeffs(L a[4], L a3, const Truth& t) {
  if (t.im[1] != 0) {
    const L r = t.re[0], c = t.re[1], d = t.im[1];
    a[0] = a3; a[1] = -a3 * (r + 2 * c); a[2] = a3 * (2 * c * r + c * c + d * d); a[3] = -a3 * r * (c * c + d * d);
  } else {
    const L r0 = t.re[0], r1 = t.re[1], r2 = t.re[2];
    a[0] = a3; a[1] = -a3 * (r0 + r1 + r2); a[2] = a3 * (r0 * r1 + r0 * r2 + r1 * r2); a[3] = -a3 * r0 * r1 * r2;
  }
}

static L dyadic(vf::Rng& g, int den, int maxnum) { return L(g.irange(-maxnum, maxnum)) / den; }
static L pow2(vf::Rng& g, int kmin, int kmax) { return std::ldexp(1.0L, g.irange(kmin, kmax)); }

enum St { THREE_EXACT, THREE_ROUNDED, THREE_SPREAD, ONE_EXACT, ONE_ROUNDED, DEP_P0, SHIFT_P0, DEP_Q0, SHIFT_Q0,
          DOUBLE_EXACT, TRIPLE_EXACT, NEAR_DOUBLE, SCALED_A3, ONE_NEAR_P0, NST };
static const char* SN[NST] = {"three-real-exact", "three-real-rounded", "three-real-spread", "one-real-exact",
                              "one-real-rounded", "depressed-p0", "shifted-p0", "depressed-q0", "shifted-q0",
                              "double-exact", "triple-exact", "near-double", "scaled-a3", "one-real-small-p"};

static L maxmod(const Truth& t) {
  L s = 0;
  for (int i = 0; i < 3; ++i) s = std::max(s, std::hypot(t.re[i], t.im[i]));
  return s;
}
static L mingap(const Truth& t) {
  L m = INFINITY;
  for (int i = 0; i < 3; ++i) for (int j = i + 1; j < 3; ++j) m = std::min(m, std::hypot(t.re[i] - t.re[j], t.im[i] - t.im[j]));
  return m;
}
// Cardano cancellation measure |4p^3/27| / q^2 of the depressed form of the true cubic
static L cancel_measure(const Truth& t) {
  L a[4]; coeffs(a, 1, t);
  const L p = a[2] - a[1] * a[1] / 3, q = a[3] - a[1] * a[2] / 3 + 2 * a[1] * a[1] * a[1] / 27;
  if (q == 0) return INFINITY;
  return std::fabs(4 * p * p * p / 27) / (q * q);
}

template <typename T>
static void one_case(const vf::Args& a, uint64_t idx, const char* tname) {
  const L eps = std::numeric_limits<T>::epsilon();
  int st = int(idx % NST);
  vf::Rng g(a.seed, 1000 + sizeof(T), idx);
  Truth t{};
  // root scales 10^+-KS: the closed form works with S^6, which must stay inside the normal range of T
  // (float: FLT_MIN ~ 1e-38, so 10^+-4; DESIGN §3 treats scales beyond that as the extreme-scale stratum)
  const double KS = sizeof(T) == 4 ? 4 : 6;
  L a3 = 1;
  bool exact = false;
  auto set_real = [&](L r0, L r1, L r2) { t.re[0] = r0; t.re[1] = r1; t.re[2] = r2; t.im[0] = t.im[1] = t.im[2] = 0; };
  auto set_pair = [&](L r, L c, L d) { t.re[0] = r; t.re[1] = t.re[2] = c; t.im[0] = 0; t.im[1] = d; t.im[2] = -d; };
  switch (st) {
    case THREE_EXACT: {  // distinct dyadic roots k/8, |k|<=40, common power-of-two scale
      int k0 = g.irange(-40, 40), k1, k2;
      do { k1 = g.irange(-40, 40); } while (std::abs(k1 - k0) < 6);
      do { k2 = g.irange(-40, 40); } while (std::abs(k2 - k0) < 6 || std::abs(k2 - k1) < 6);
      const L sc = pow2(g, -6, 6);
      set_real(sc * k0 / 8, sc * k1 / 8, sc * k2 / 8);
      a3 = g.sign() * pow2(g, -8, 8); exact = true; t.expect = 3;
      break;
    }
    case THREE_ROUNDED: case SCALED_A3: {
      const L sc = g.logmag(-KS, KS);
      L r[3];
      do { for (L& x : r) x = g.uni(-1, 1); }
      while (std::min({std::fabs(r[0] - r[1]), std::fabs(r[0] - r[2]), std::fabs(r[1] - r[2])}) <
             0.05L * std::max({std::fabs(r[0]), std::fabs(r[1]), std::fabs(r[2])}) ||
             std::max({std::fabs(r[0]), std::fabs(r[1]), std::fabs(r[2])}) < 0.05L);
      if (st == SCALED_A3 && g.coin()) {  // one real + pair
        L d; do { d = g.uni(-1, 1); } while (std::fabs(d) < 0.1L);
        set_pair(sc * r[0], sc * r[1], sc * d); t.expect = 1;
      } else { set_real(sc * r[0], sc * r[1], sc * r[2]); t.expect = 3; }
      a3 = g.sign() * (st == SCALED_A3 ? g.logmag(-8, 8) : g.logmag(-2, 2));
      break;
    }
    case THREE_SPREAD: {  // magnitudes spread over 10^+-3 each
      L r[3];
      for (L& x : r) x = g.sign() * g.logmag(-3, 3);
      // separation is handled through the conditioning term; equal magnitudes with equal sign are re-drawn
      set_real(r[0], r[1], r[2]); t.expect = 0;
      {
        const L S = maxmod(t);
        // the count is only demanded when the three roots are separated at the scale of the largest one
        // or at their own scale by a comfortable relative gap
        L mg = mingap(t);
        if (mg > 0.05L * S) t.expect = 3;
      }
      a3 = g.sign() * g.logmag(-2, 2);
      break;
    }
    case ONE_EXACT: {
      int kr = g.irange(-40, 40), kc = g.irange(-40, 40), kd;
      do { kd = g.irange(-40, 40); } while (std::abs(kd) < 6);
      const L sc = pow2(g, -6, 6);
      set_pair(sc * kr / 8, sc * kc / 8, sc * kd / 8);
      a3 = g.sign() * pow2(g, -8, 8); exact = true; t.expect = 1;
      break;
    }
    case ONE_ROUNDED: {
      const L sc = g.logmag(-KS, KS);
      L d; do { d = g.uni(-1, 1); } while (std::fabs(d) < 0.1L);
      set_pair(sc * g.uni(-1, 1), sc * g.uni(-1, 1), sc * d);
      a3 = g.sign() * g.logmag(-2, 2); t.expect = 1;
      break;
    }
    case DEP_P0: {  // a3 x^3 + a0, a0 != 0: one real root -cbrt(a0/a3), pair on the circle
      a3 = g.sign() * (g.coin() ? pow2(g, -8, 8) : g.logmag(-4, 4));
      L c;  // chosen real root; a0 = -a3 c^3
      if (g.coin()) { c = L(g.irange(1, 12)) * g.sign() * pow2(g, -4, 4); exact = (std::frexp(std::fabs(a3), &st) == 0.5L); st = DEP_P0; }
      else c = g.sign() * g.logmag(-4, 4);
      set_pair(c, -c / 2, std::sqrt(3.0L) / 2 * c); t.expect = 1;
      break;
    }
    case SHIFT_P0: {  // (x-s)^3 + q with integer s and q: a2=-3s, a1=3s^2, a0=q-s^3 exact, p == 0 exactly
      const int s = g.irange(-9, 9), q = g.irange(1, 500) * (g.coin() ? 1 : -1);
      const L c = -std::cbrt(L(q));
      set_pair(s + c, s - c / 2, std::sqrt(3.0L) / 2 * c); t.expect = 1;
      a3 = g.sign() * pow2(g, -4, 4); exact = true;
      break;
    }
    case DEP_Q0: {  // a3 x^3 + a1 x
      const L p = g.sign() * (g.coin() ? L(g.irange(1, 400)) / 16 : g.logmag(-KS, KS));
      if (p > 0) { set_pair(0, 0, std::sqrt(p)); t.expect = 1; }
      else { set_real(0, std::sqrt(-p), -std::sqrt(-p)); t.expect = 3; }
      a3 = g.sign() * pow2(g, -8, 8);
      break;
    }
    case SHIFT_Q0: {  // (x-s)((x-s)^2 + p): dyadic s, p
      const L s = dyadic(g, 4, 40), p = L(g.irange(1, 400)) / 16 * g.sign();
      if (p > 0) { set_pair(s, s, std::sqrt(p)); t.expect = 1; }
      else { set_real(s, s + std::sqrt(-p), s - std::sqrt(-p)); t.expect = 3; }
      a3 = g.sign() * pow2(g, -8, 8);
      break;
    }
    case DOUBLE_EXACT: {
      int k0 = g.irange(-40, 40), k1;
      do { k1 = g.irange(-40, 40); } while (std::abs(k1 - k0) < 6);
      const L sc = pow2(g, -6, 6);
      set_real(sc * k0 / 8, sc * k0 / 8, sc * k1 / 8);
      a3 = g.sign() * pow2(g, -8, 8); exact = true; t.expect = 0;
      break;
    }
    case TRIPLE_EXACT: {
      const L sc = pow2(g, -6, 6), r = sc * g.irange(-40, 40) / 8;
      set_real(r, r, r);
      a3 = g.sign() * pow2(g, -8, 8); exact = true; t.expect = 0;
      break;
    }
    case NEAR_DOUBLE: {  // two real roots at relative distance 10^-1..10^-7, third one away
      const L sc = g.logmag(-3, 3), r0 = g.uni(-1, 1), gap = g.logmag(-7, -1) * g.sign();
      L r2; do { r2 = g.uni(-1, 1); } while (std::fabs(r2 - r0) < 0.2L);
      set_real(sc * r0, sc * (r0 + gap), sc * r2);
      a3 = g.sign() * g.logmag(-2, 2); t.expect = 0;
      break;
    }
    default: {  // ONE_NEAR_P0: x^3 + p x + q (shifted), |p|^3 << q^2: Cardano's u or v suffers cancellation
      const L c = g.sign() * g.logmag(-2, 2);          // -cbrt(q)
      const L rel = g.logmag(-12, -1) * g.sign();      // p / c^2
      // depressed cubic t^3 + p t + q with real root c exactly: q = -c^3 - p c
      const L p = rel * c * c;
      // other roots: t^2 + c t + (c^2 + p) = 0  -> -c/2 +- i sqrt(3c^2/4 + p)
      const L s = g.coin() ? 0 : L(g.irange(-8, 8));
      set_pair(s + c, s - c / 2, std::sqrt(0.75L * c * c + p)); t.expect = 1;
      a3 = g.sign() * pow2(g, -4, 4);
    }
  }
  const char* S = SN[st];
  // routing: one-real cases whose depressed form has |4p^3/27| << q^2 belong to the near-p0 stratum
  if ((st == ONE_EXACT || st == ONE_ROUNDED || (st == SCALED_A3 && t.expect == 1)) && cancel_measure(t) < 0.1L) {
    st = ONE_NEAR_P0; S = SN[st];
  }
  // ---- the polynomial the library sees
  L al[4]; coeffs(al, a3, t);
  if (st == DEP_P0) { al[1] = 0; al[2] = 0; }   // a3 x^3 + a0 exactly
  if (st == DEP_Q0) { al[1] = 0; al[3] = 0; }   // a3 x^3 + a1 x exactly
  T c[4]; for (int k = 0; k < 4; ++k) c[k] = static_cast<T>(al[k]);
  L cl[4]; for (int k = 0; k < 4; ++k) cl[k] = L(c[k]);
  if (exact) { for (int k = 0; k < 4; ++k) if (cl[k] != al[k]) exact = false; }
  const uint64_t h = vf::hash_arr(c, 4);
  if (!std::isfinite((double)cl[0]) || cl[0] == 0) { R.skip("exe", S); return; }
  // ---- reference roots of the rounded polynomial (simple real roots are polished)
  const L S0 = maxmod(t);
  if (!exact) {
    for (int i = 0; i < 3; ++i) {
      if (t.im[i] != 0) continue;
      L ga = INFINITY; for (int j = 0; j < 3; ++j) if (j != i) ga = std::min(ga, std::hypot(t.re[i] - t.re[j], t.im[j]));
      if (ga < 1e-3L * S0) continue;  // polishing a root of a close pair is not reliable; tolerance covers it
      L x = t.re[i];
      for (int it = 0; it < 6; ++it) {
        const L d = (3 * cl[0] * x + 2 * cl[1]) * x + cl[2];
        if (d == 0) break;
        const L nx = x - pval(cl, x) / d;
        if (!(std::fabs(nx - t.re[i]) <= 1e-3L * ga)) break;  // stay with the constructed root
        x = nx;
      }
      t.re[i] = x;
    }
    // the complex pair moves with the real root (sum and product of roots): keep Vieta consistent
    if (t.im[1] != 0) {
      const L sum = -cl[1] / cl[0], r = t.re[0];
      const L cc = (sum - r) / 2;
      const L d2 = cl[2] / cl[0] - 2 * cc * r - cc * cc;  // a1/a3 = 2 c r + c^2 + d^2
      if (d2 > 0 && std::fabs(cc - t.re[1]) <= 1e-3L * std::fabs(t.im[1])) { t.re[1] = t.re[2] = cc; t.im[1] = std::sqrt(d2); t.im[2] = -t.im[1]; }
    }
  }
  const L SS = std::max(maxmod(t), std::fabs(cl[1] / cl[0]) / 3);
  // per-root accuracy unit u_j
  L tolj[3];
  for (int j = 0; j < 3; ++j) {
    L gs[2]; int n = 0;
    for (int k = 0; k < 3; ++k) if (k != j) gs[n++] = std::hypot(t.re[j] - t.re[k], t.im[j] - t.im[k]);
    const L ga = std::min(gs[0], gs[1]), gb = std::max(gs[0], gs[1]);
    L u = std::cbrt(eps);
    if (gb > 0) u = std::min(u, std::sqrt(eps * SS / gb));
    if (ga > 0 && gb > 0) u = std::min(u, eps * SS * SS / (ga * gb));
    u = std::max(u, eps);
    tolj[j] = KROOT * SS * u;
  }
  // the count is only demanded when the roots are separated at the scale S of the problem
  if (mingap(t) < 0.05L * SS) t.expect = 0;
  auto dist_ratio = [&](L x, int j) {
    const L d = std::hypot(x - t.re[j], t.im[j]);
    if (d == 0) return L(0);
    return tolj[j] > 0 ? d / tolj[j] : L(INFINITY);
  };
  auto dump_with = [&](int nb, const T* x, bool b) {
    vf::J j;
    j.s("T", tname).arr("a3a2a1a0", c, c + 4).i("nb", nb).i("improve", b).arr("x", x, x + 3)
        .arr("root_re", t.re, t.re + 3).arr("root_im", t.im, t.im + 3).darr("x_dec", x, x + 3).darr("root_re_dec", t.re, t.re + 3)
        .darr("root_im_dec", t.im, t.im + 3).d("S", SS).i("exact", exact);
    return j.str();
  };
  // Cardano cancellation measure |4p^3/27|/q^2 of the cubic the library sees (long double)
  L cm_seen = INFINITY;
  {
    const L b2 = cl[1] / cl[0], b1 = cl[2] / cl[0], b0 = cl[3] / cl[0];
    const L pp = b1 - b2 * b2 / 3, qq = b0 - b2 * b1 / 3 + 2 * b2 * b2 * b2 / 27;
    if (qq != 0) cm_seen = std::fabs(4 * pp * pp * pp / 27) / (qq * qq);
  }
  char Sbuf[96];
  // stratum under which a judged value is filed: unchanged when it passes, mechanism suffix when it fails
  auto filed = [&](L ratio, L abs_err, int nret) -> const char* {
    if (ratio <= 1) return S;
    const char* suffix = "other";
    if (nret == 1 && cm_seen < 0.1L && abs_err <= KCANCEL * std::cbrt(eps) * SS) suffix = "cancellation";
    else if (!(abs_err <= GROSS * SS)) suffix = "gross";
    std::snprintf(Sbuf, sizeof Sbuf, "%s:%s", S, suffix);
    return Sbuf;
  };
  auto dist_abs = [&](L x, int j) { return std::hypot(x - t.re[j], t.im[j]); };
  T xa[3] = {T(0), T(0), T(0)}, xb[3] = {T(0), T(0), T(0)};
  vf::set_case("exe", S, idx);
  const unsigned short na = tfel::math::CubicRoots::exe(xa[0], xa[1], xa[2], c[0], c[1], c[2], c[3], false);
  vf::set_case("exe+improve", S, idx);
  const unsigned short nb = tfel::math::CubicRoots::exe(xb[0], xb[1], xb[2], c[0], c[1], c[2], c[3], true);
  // ---- count
  for (int pass = 0; pass < 2; ++pass) {
    const int n = pass ? nb : na;
    const T* x = pass ? xb : xa;
    auto dump = [&] { return dump_with(n, x, pass); };
    const bool okc = t.expect ? (n == t.expect) : (n == 1 || n == 3);
    R.expect("exe/count", S, idx, h, okc, dump, t.expect == 3 ? "three separated real roots: 3 expected" : (t.expect == 1 ? "one real root + complex pair: 1 expected" : "1 or 3 expected"));
    if (n != 1 && n != 3) continue;
    // ---- values
    const char* api = pass ? "exe+improve" : "exe";
    L ratio = 0, abs_err = 0;  // abs_err: the distance that goes with the worst ratio
    if (n == 3) {
      // every presented value is near a true root (complex distance), every true root is represented
      for (int i = 0; i < 3; ++i) {
        L best = INFINITY, bd = INFINITY;
        for (int j = 0; j < 3; ++j) { const L r = dist_ratio(L(x[i]), j); if (r < best) { best = r; bd = dist_abs(L(x[i]), j); } }
        if (!(best == best)) { best = INFINITY; bd = INFINITY; }
        if (best >= ratio) { ratio = best; abs_err = bd; }
      }
      // completeness ("3 together with the three roots") is only stated for well-separated real roots
      for (int j = 0; j < 3 && t.expect == 3; ++j) {
        L best = INFINITY, bd = INFINITY;
        for (int i = 0; i < 3; ++i) { const L r = dist_ratio(L(x[i]), j); if (r < best) { best = r; bd = dist_abs(L(x[i]), j); } }
        if (!(best == best)) { best = INFINITY; bd = INFINITY; }
        if (best >= ratio) { ratio = best; abs_err = bd; }
      }
      R.check(api, filed(ratio, abs_err, 3), idx, h, ratio, 1, dump, t.expect == 3 ? "3 returned: each value must be a root and each of the separated roots must be returned" : "3 returned: each value must be a root");
    } else {
      // one real root announced: a true real root must be among the returned values
      L best = INFINITY, bd = INFINITY;
      for (int j = 0; j < 3; ++j) {
        if (t.im[j] != 0) continue;
        for (int i = 0; i < 3; ++i) { const L r = dist_ratio(L(x[i]), j); if (r < best) { best = r; bd = dist_abs(L(x[i]), j); } }
      }
      if (!(best == best)) { best = INFINITY; bd = INFINITY; }
      R.check(api, filed(best, bd, 1), idx, h, best, 1, dump, "1 returned: the real root must be among the returned values");
    }
  }
  // ---- refinement never increases |p(x)| (on the values presented as roots)
  if (na == nb && (na == 1 || na == 3)) {
    const int m = na == 3 ? 3 : 1;
    L worst = 0, wt = 1;
    for (int i = 0; i < m; ++i) {
      const L ra = std::fabs(pval(cl, L(xa[i]))), rb = std::fabs(pval(cl, L(xb[i])));
      const L noise = KNOISE * eps * (pabs(cl, L(xa[i])) + pabs(cl, L(xb[i]))) + std::numeric_limits<T>::min();
      const L e = rb > ra ? rb - ra : 0;
      if (!(rb == rb)) { worst = INFINITY; wt = 1; break; }
      if (e / noise >= worst / wt) { worst = e; wt = noise; }
    }
    R.check("exe/improve-monotone", S, idx, h, worst, wt, [&] { return dump_with(nb, xb, true); }, "|p(x)| after refinement must not exceed |p(x)| before");
  } else {
    R.expect("exe/improve-monotone", S, idx, h, na == nb, [&] { return dump_with(nb, xb, true); }, "count changed by the refinement flag");
  }
}

int main(int argc, char** argv) {
  vf::Args a(argc, argv);
  R.sample_cap = 1;
  for (long i = 0; i < a.cases; ++i) {
    const uint64_t idx = a.only >= 0 ? uint64_t(a.only) : a.gidx(i);
    switch ((idx / NST) % 3) {
      case 0: one_case<double>(a, idx, "double"); break;
      case 1: one_case<float>(a, idx, "float"); break;
      default: one_case<long double>(a, idx, "ldouble");
    }
    if (a.only >= 0) break;
  }
  R.finish();
  return 0;
}
