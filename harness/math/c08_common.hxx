// c08_common.hxx — private part shared by the six C08 harnesses (one solver class per translation
// unit / binary: TinyPowellDogLegNewtonRaphsonSolver.ixx and TinyPowellDogLegBroydenSolver.ixx reuse the
// include guards of TinyNewtonRaphsonSolver.ixx / TinyBroydenSolver.ixx, DESIGN.md §6).
//
// The including file defines, before including this header:
//   C08_NAME                 "TinyNewtonRaphsonSolver" ...
//   C08_KIND                 one of the K_* values below
//   template <unsigned short N, typename T, typename C> using C08Base = tfel::math::<Solver><N, T, C>;
//
// The residual functor (computeResidual of the CRTP child) is written here: it evaluates a system with
// known structure at this->zeros, logs (x, f, status) of every call, and can be scheduled to fail
// (return false / NaN / Inf / NaN in the jacobian) at a chosen call.  After solve() the monitor demands
//   <solver>/success-sound : solve()==true  =>  last logged x == zeros bitwise, last status ok, last f finite
//                            and == fzeros bitwise, the convergence criterion holds on that f
//                            (independent long-double norm; or the child's own checkConvergence answer)
//   <solver>/iter          : iter <= iterMax, always; no runaway (more than 2*iterMax+20 residual calls)
//   <solver>/newton-basin  : (Newton only) smooth system started well inside the Kantorovich ball with an
//                            achievable epsilon and iterMax >= 20  =>  solve() == true
#ifndef VERIF_C08_COMMON_HXX
#define VERIF_C08_COMMON_HXX
#include <stdexcept>
#include "vfh.hxx"

#define K_NEWTON 0
#define K_BROYDEN 1
#define K_BROYDEN2 2
#define K_PDL_NEWTON 3
#define K_PDL_BROYDEN 4
#define K_LM 5

namespace c08 {
using L = long double;
static vf::Reporter R;
static std::map<std::string, long> NOTES;

struct Runaway : std::runtime_error { Runaway() : std::runtime_error("runaway") {} };
struct CaseL;

enum Family { LINEAR, QUADRATIC, ROSENBROCK, EXPTRIG, SINGULAR_ROOT, NO_ROOT, NFAM };
static const char* FAMN[NFAM] = {"linear", "quadratic", "rosenbrock", "exptrig", "singular-root", "no-root"};
enum Fail { F_NONE, F_FALSE, F_NAN, F_INF, F_NANJAC, F_FALSE_FOREVER, NFAIL };
static const char* FAILN[NFAIL] = {"clean", "fail@k", "nan@k", "inf@k", "nanjac@k", "fail-from-k"};

// small dense helpers in long double (N <= 8)
template <int N>
inline bool invert(const L (&a)[N][N], L (&inv)[N][N]) {
  L w[N][2 * N];
  for (int i = 0; i < N; ++i) for (int j = 0; j < N; ++j) { w[i][j] = a[i][j]; w[i][N + j] = (i == j); }
  for (int k = 0; k < N; ++k) {
    int p = k; for (int i = k + 1; i < N; ++i) if (std::fabs(w[i][k]) > std::fabs(w[p][k])) p = i;
    if (!(std::fabs(w[p][k]) > 0)) return false;
    if (p != k) for (int j = 0; j < 2 * N; ++j) std::swap(w[k][j], w[p][j]);
    const L d = w[k][k];
    for (int j = 0; j < 2 * N; ++j) w[k][j] /= d;
    for (int i = 0; i < N; ++i) if (i != k) { const L f = w[i][k]; if (f != 0) for (int j = 0; j < 2 * N; ++j) w[i][j] -= f * w[k][j]; }
  }
  for (int i = 0; i < N; ++i) for (int j = 0; j < N; ++j) inv[i][j] = w[i][N + j];
  return true;
}
// ---- the systems --------------------------------------------------------------------------------
template <int N, typename T>
struct System {
  int family = LINEAR;
  T A[N][N];    // linear part / couplings
  T xs[N];      // root (where the family has one)
  T c[N];       // quadratic coefficients / exponents
  T b[N][N];    // unit directions of the quadratic terms
  T jac_scale = 1;  // the jacobian handed to the solver is multiplied by this (inexact user jacobian)
  bool zero_jac = false;
  void eval(const T* x, T* f, T (*J)[N]) const {
    T u[N];
    for (int i = 0; i < N; ++i) u[i] = x[i] - xs[i];
    for (int i = 0; i < N; ++i) for (int j = 0; j < N; ++j) J[i][j] = T(0);
    switch (family) {
      case LINEAR:
        for (int i = 0; i < N; ++i) { T s = 0; for (int j = 0; j < N; ++j) { s += A[i][j] * u[j]; J[i][j] = A[i][j]; } f[i] = s; }
        break;
      case QUADRATIC:
        for (int i = 0; i < N; ++i) {
          T s = 0, d = 0;
          for (int j = 0; j < N; ++j) { s += A[i][j] * u[j]; d += b[i][j] * u[j]; }
          f[i] = s + c[i] * d * d;
          for (int j = 0; j < N; ++j) J[i][j] = A[i][j] + 2 * c[i] * d * b[i][j];
        }
        break;
      case ROSENBROCK:  // f_0 = 1 - x_0, f_i = 10 (x_i - x_{i-1}^2): root (1,...,1)
        f[0] = 1 - x[0]; J[0][0] = -1;
        for (int i = 1; i < N; ++i) { f[i] = 10 * (x[i] - x[i - 1] * x[i - 1]); J[i][i] = 10; J[i][i - 1] = -20 * x[i - 1]; }
        break;
      case EXPTRIG:
        for (int i = 0; i < N; ++i) {
          const T e = std::exp(c[i] * u[i]);
          T s = e - 1;
          J[i][i] = c[i] * e;
          for (int j = 0; j < N; ++j) if (j != i) { s += A[i][j] * std::sin(u[j]); J[i][j] = A[i][j] * std::cos(u[j]); }
          f[i] = s;
        }
        break;
      case SINGULAR_ROOT:  // jacobian vanishes at the root
        for (int i = 0; i < N; ++i) { f[i] = u[i] * u[i] * (i % 2 ? u[i] : T(1)); J[i][i] = (i % 2 ? 3 * u[i] * u[i] : 2 * u[i]); }
        break;
      default:  // NO_ROOT
        for (int i = 0; i < N; ++i) { f[i] = u[i] * u[i] + c[i] * c[i] + T(0.25); J[i][i] = 2 * u[i]; }
    }
    for (int i = 0; i < N; ++i) for (int j = 0; j < N; ++j) J[i][j] = zero_jac ? T(0) : J[i][j] * jac_scale;
  }
};

template <int N, typename T>
struct Log {
  long calls = 0;
  T last_x[N], last_f[N];
  bool last_status = false, last_finite = false;
  long crit_calls = 0; T last_e = 0; bool last_crit = false;
  std::vector<L> trace;  // first evaluations (x then f), for the dump only
};

template <unsigned short N, typename T, bool OV>
struct Child : C08Base<N, T, Child<N, T, OV>> {
  using Base = C08Base<N, T, Child<N, T, OV>>;
  const System<N, T>* sys = nullptr;
  mutable Log<N, T>* log = nullptr;
  int fail_mode = F_NONE; long fail_at = 0; long cap = 100;
  unsigned short kmin = 0;  // OV: the child's criterion also demands at least kmin iterations
  using Base::checkConvergence;

  template <typename CaseT>
  void setup(const System<N, T>& s, Log<N, T>& l, const T* x0, T eps, unsigned short itmax, const CaseT& cs) {
    const int jac0_mode = cs.jac0_mode;
    sys = &s; log = &l;
    for (int i = 0; i < N; ++i) this->zeros[i] = x0[i];
    this->epsilon = eps; this->iterMax = itmax;
    // make every field deterministic (the library leaves them uninitialised until used)
    this->fzeros = tfel::math::tvector<N, T>(T(0));
    this->delta_zeros = tfel::math::tvector<N, T>(T(0));
    this->iter = 0; this->is_delta_zeros_defined = false;
#if C08_KIND == K_PDL_NEWTON || C08_KIND == K_PDL_BROYDEN
    this->powell_dogleg_trust_region_size = static_cast<T>(cs.trust);
#endif
#if C08_KIND == K_LM
    this->levmar_mu0 = T(1.e-6); this->levmar_p0 = T(1.e-4); this->levmar_p1 = T(0.25); this->levmar_p2 = T(0.75); this->levmar_m = T(1.e-8);
    this->levmar_jacobian_1 = tfel::math::tmatrix<N, N, T>(T(0)); this->levmar_fzeros_1 = tfel::math::tvector<N, T>(T(0));
#endif
#if C08_KIND == K_BROYDEN || C08_KIND == K_PDL_BROYDEN || C08_KIND == K_BROYDEN2
    {
      // initial (inverse) jacobian chosen by the user: exact at x0, perturbed, or identity
      T f0[N], J0[N][N];
      s.eval(x0, f0, J0);
      L Jl[N][N], Ji[N][N];
      for (int i = 0; i < N; ++i) for (int j = 0; j < N; ++j) {
        Jl[i][j] = L(J0[i][j]);
        if (jac0_mode == 1) Jl[i][j] *= cs.jac0_noise[i][j];
        if (jac0_mode == 2 || !std::isfinite((double)Jl[i][j])) Jl[i][j] = (i == j);
      }
      this->fzeros_1 = tfel::math::tvector<N, T>(T(0));
#if C08_KIND == K_BROYDEN2
      if (!invert<N>(Jl, Ji)) for (int i = 0; i < N; ++i) for (int j = 0; j < N; ++j) Ji[i][j] = (i == j);
      for (int i = 0; i < N; ++i) for (int j = 0; j < N; ++j) this->inv_jacobian(i, j) = static_cast<T>(Ji[i][j]);
#else
      (void)Ji;
      for (int i = 0; i < N; ++i) for (int j = 0; j < N; ++j) this->jacobian(i, j) = static_cast<T>(Jl[i][j]);
#endif
    }
#else
    (void)jac0_mode;
    this->jacobian = tfel::math::tmatrix<N, N, T>(T(0));
#endif
  }

  bool computeResidual() {
    Log<N, T>& l = *log;
    ++l.calls;
    if (l.calls > cap) throw Runaway();
    T x[N], f[N], J[N][N];
    for (int i = 0; i < N; ++i) x[i] = this->zeros[i];
    sys->eval(x, f, J);
    bool status = true;
    const bool hit = (l.calls == fail_at) || (fail_mode == F_FALSE_FOREVER && l.calls >= fail_at);
    if (hit) {
      switch (fail_mode) {
        case F_FALSE: case F_FALSE_FOREVER: status = false; break;
        case F_NAN: f[(l.calls * 7) % N] = std::numeric_limits<T>::quiet_NaN(); break;
        case F_INF: f[(l.calls * 5) % N] = ((l.calls & 1) ? 1 : -1) * std::numeric_limits<T>::infinity(); break;
        case F_NANJAC: J[(l.calls * 3) % N][(l.calls * 11) % N] = std::numeric_limits<T>::quiet_NaN(); break;
        default: break;
      }
    }
    bool fin = true;
    for (int i = 0; i < N; ++i) { this->fzeros[i] = f[i]; l.last_x[i] = x[i]; l.last_f[i] = f[i]; fin = fin && std::isfinite(f[i]); }
#if C08_KIND == K_NEWTON || C08_KIND == K_PDL_NEWTON || C08_KIND == K_LM
    for (int i = 0; i < N; ++i) for (int j = 0; j < N; ++j) this->jacobian(i, j) = J[i][j];
#endif
    l.last_status = status; l.last_finite = fin;
    if (l.trace.size() < size_t(2 * N * 6)) { for (int i = 0; i < N; ++i) l.trace.push_back(x[i]); for (int i = 0; i < N; ++i) l.trace.push_back(f[i]); }
    return status;
  }
  // the child's own convergence criterion (only when OV): logged, demands kmin iterations
  bool checkConvergence(const T e) const noexcept requires(OV) {
    const bool r = (e < this->epsilon) && (this->iter >= kmin);
    ++log->crit_calls; log->last_e = e; log->last_crit = r;
    return r;
  }
  bool solve() { return this->solveNonLinearSystem(); }
  unsigned short get_iter() const { return this->iter; }
  unsigned short get_iter_max() const { return this->iterMax; }
  T get_epsilon() const { return this->epsilon; }
};

template <typename T> static bool bits_equal(const T* a, const T* b, int n) {
  for (int i = 0; i < n; ++i) if (std::memcmp(a + i, b + i, sizeof(T) == 16 ? 10 : sizeof(T)) != 0) return false;
  return true;
}

// ---- everything that does not depend on the solver's template arguments is kept out of templates
// (compile time): case generation in long double with run-time size, verdicts, dump.
struct CaseL {
  int n = 1, family = LINEAR; bool basin = false, ov = false;
  L A[8][8], xs[8], c[8], b[8][8], x0[8];
  L jac_scale = 1; bool zero_jac = false;
  int fail_mode = F_NONE; long fail_at = 0; int jacq = 0, jac0_mode = 0;
  L epsilon = 0; unsigned short itmax = 0, kmin = 0; L trust = 1;
  char S[64]; uint64_t h = 0;
  L jac0_noise[8][8];
};
struct ResL {
  bool ok = false, runaway = false; std::string thrown;
  int iter = 0; long calls = 0, crit_calls = 0;
  L zeros[8], fzeros[8], last_x[8], last_f[8], last_e = 0;
  bool zeros_is_last_x = false, fzeros_is_last_f = false, last_status = false, last_finite = false, last_crit = false;
  std::vector<L> trace;
};

template <int N> struct Tag {};
static void gen_orth(vf::Rng& g, int n, L (&q)[8][8]) {
  for (;;) {
    for (int i = 0; i < n; ++i) for (int j = 0; j < n; ++j) q[i][j] = g.normal();
    bool ok = true;
    for (int pass = 0; pass < 2 && ok; ++pass)
      for (int j = 0; j < n && ok; ++j) {
        for (int k = 0; k < j; ++k) { L d = 0; for (int i = 0; i < n; ++i) d += q[i][j] * q[i][k]; for (int i = 0; i < n; ++i) q[i][j] -= d * q[i][k]; }
        L s = 0; for (int i = 0; i < n; ++i) s += q[i][j] * q[i][j];
        s = std::sqrt(s);
        if (!(s > 1e-6L)) { ok = false; break; }
        for (int i = 0; i < n; ++i) q[i][j] /= s;
      }
    if (ok) return;
  }
}

// eps: machine epsilon of the scalar type; rnd: rounding to the scalar type
static void gen_case(CaseL& c, vf::Rng& g, uint64_t idx, int n, bool ov, L eps, L (*rnd)(L)) {
  c.n = n; c.ov = ov;
  // 1 case in 4 is a "basin" case (smooth system, start deep inside the Kantorovich ball)
  c.basin = ((idx / 7) % 4) == 0;
  c.family = c.basin ? ((idx & 1) ? QUADRATIC : LINEAR) : int(g.irange(0, NFAM - 1));
  L Q1[8][8], Q2[8][8], sig[8];
  gen_orth(g, n, Q1); gen_orth(g, n, Q2);
  for (int i = 0; i < n; ++i) sig[i] = g.uni(0.5, 2);
  L gamma2 = 0;
  for (int i = 0; i < n; ++i) {
    c.xs[i] = rnd(g.uni(-2, 2));
    c.c[i] = rnd(g.uni(-1, 1));
    gamma2 += c.c[i] * c.c[i];
    L nb = 0, bb[8];
    for (int j = 0; j < n; ++j) { bb[j] = g.normal(); nb += bb[j] * bb[j]; }
    nb = std::sqrt(nb); if (!(nb > 0)) { nb = 1; bb[0] = 1; }
    for (int j = 0; j < n; ++j) {
      L v = 0; for (int k = 0; k < n; ++k) v += Q1[i][k] * sig[k] * Q2[j][k];
      c.b[i][j] = rnd(bb[j] / nb);
      c.A[i][j] = rnd(c.family == EXPTRIG ? 0.3L * g.uni(-1, 1) : v);
    }
  }
  if (c.family == EXPTRIG) for (int i = 0; i < n; ++i) c.c[i] = rnd(g.sign() * g.uni(0.5, 2));
  if (c.family == ROSENBROCK) for (int i = 0; i < n; ++i) c.xs[i] = 1;
  c.fail_mode = F_NONE; c.fail_at = 0; c.jacq = 0; c.zero_jac = false; c.jac_scale = 1;
  if (!c.basin) {
    c.fail_mode = g.irange(0, 9) < 5 ? F_NONE : g.irange(1, NFAIL - 1);
    c.fail_at = g.irange(1, 8);
    c.jacq = g.irange(0, 9);
    if (c.jacq == 0) c.zero_jac = true;
    else if (c.jacq <= 2) c.jac_scale = rnd(g.uni(0.6, 1.6));
  }
  c.jac0_mode = c.basin ? 0 : g.irange(0, 2);
  for (int i = 0; i < n; ++i) for (int j = 0; j < n; ++j) c.jac0_noise[i][j] = 1 + 0.2L * g.uni(-1, 1);
  c.trust = rnd(g.logmag(-2, 1));
  // Lipschitz data of the QUADRATIC family: ||J(x)-J(y)||_F <= 2 sqrt(sum c_i^2) ||x-y||,  ||J(x*)^-1||_2 = 1/min(sig) <= 2
  const L beta = 2, gam = 2 * std::sqrt(gamma2) + 1e-3L;
  L nxs = 0; for (int i = 0; i < n; ++i) nxs += c.xs[i] * c.xs[i];
  nxs = std::sqrt(nxs);
  const L floor_eps = 64 * n * eps * (1 + nxs) * 2;  // rounding level of ||f|| near the root (||A||_2 <= 2)
  L rho;
  if (c.basin) {
    rho = 0.02L / (beta * gam) * g.uni(0.05, 1);
    c.itmax = static_cast<unsigned short>(g.irange(20, 100));
    c.epsilon = rnd(floor_eps * std::pow(10.0L, g.uni(1.5, 6)));
  } else {
    const int far = g.irange(0, 3);
    rho = far == 0 ? g.logmag(-6, -2) : (far == 1 ? g.uni(0.05, 1) : (far == 2 ? g.uni(1, 10) : g.logmag(1, 3)));
    const int is = g.irange(0, 9);
    c.itmax = static_cast<unsigned short>(is < 3 ? g.irange(0, 5) : g.irange(6, 100));
    c.epsilon = rnd(std::max<L>(g.logmag(-15, -3), 4 * eps));
  }
  {
    L d[8], nd = 0;
    for (int i = 0; i < n; ++i) { d[i] = g.normal(); nd += d[i] * d[i]; }
    nd = std::sqrt(nd); if (!(nd > 0)) { nd = 1; d[0] = 1; }
    for (int i = 0; i < n; ++i) c.x0[i] = rnd(c.xs[i] + rho * d[i] / nd);
    if (!c.basin && g.irange(0, 19) == 0) for (int i = 0; i < n; ++i) c.x0[i] = 0;
  }
  c.kmin = static_cast<unsigned short>(ov ? g.irange(0, 3) : 0);
  std::snprintf(c.S, sizeof c.S, "%s/%s", c.basin ? (c.family == LINEAR ? "basin-linear" : "basin-quadratic") : FAMN[c.family], FAILN[c.fail_mode]);
  const double hv[8] = {double(n), double(c.family), double(c.x0[0]), double(c.xs[0]), double(c.epsilon), double(c.itmax), double(c.fail_mode * 16 + c.fail_at), double(c.A[0][0])};
  c.h = vf::hash_arr(hv, 8, ov);
}

static std::string dump_case(const CaseL& c, const ResL& r, const char* tname) {
  const int n = c.n;
  vf::J j;
  j.s("solver", C08_NAME).s("T", tname).i("N", n).i("override_checkConvergence", c.ov).i("kmin", c.kmin).s("family", FAMN[c.family]).i("basin", c.basin)
      .i("fail_mode", c.fail_mode).i("fail_at", c.fail_at).i("jacq", c.jacq).i("jac0_mode", c.jac0_mode).f("epsilon", c.epsilon).i("iterMax", c.itmax)
      .arr("x0", c.x0, c.x0 + n).arr("xs", c.xs, c.xs + n).arr("c", c.c, c.c + n).f("jac_scale", c.jac_scale).i("zero_jac", c.zero_jac).f("trust", c.trust);
  std::vector<L> am, bm;
  for (int i = 0; i < n; ++i) for (int k = 0; k < n; ++k) { am.push_back(c.A[i][k]); bm.push_back(c.b[i][k]); }
  j.arr("A_rowmajor", am.begin(), am.end()).arr("b_rowmajor", bm.begin(), bm.end())
      .i("returned", r.ok).i("iter", r.iter).i("calls", r.calls).i("runaway", r.runaway).s("exception", r.thrown)
      .arr("zeros", r.zeros, r.zeros + n).arr("fzeros", r.fzeros, r.fzeros + n)
      .arr("last_logged_x", r.last_x, r.last_x + n).arr("last_logged_f", r.last_f, r.last_f + n).i("last_status", r.last_status)
      .darr("trace_x_f", r.trace.begin(), r.trace.end());
  return j.str();
}

static void judge(const CaseL& c, const ResL& r, uint64_t idx, const char* tname, L eps, L tmin) {
  const int n = c.n;
  auto dump = [&] { return dump_case(c, r, tname); };
  char api[96];
  // ---- iteration counter
  std::snprintf(api, sizeof api, "%s/iter", C08_NAME);
  R.expect(api, c.S, idx, c.h, !r.runaway && r.thrown.empty() && r.iter <= int(c.itmax), dump,
           r.runaway ? "more than 2*iterMax+20 residual evaluations" : "iter <= iterMax");
  if (r.runaway || !r.thrown.empty()) return;
  // ---- soundness of a success
  std::snprintf(api, sizeof api, "%s/success-sound", C08_NAME);
  if (r.ok) {
    const char* why = "";
    bool good = true;
    L n2 = 0; for (int i = 0; i < n; ++i) n2 += r.last_f[i] * r.last_f[i];
    const L nrm = std::sqrt(n2);
    if (r.calls == 0) { good = false; why = "success without any residual evaluation"; }
    else if (!r.zeros_is_last_x) { good = false; why = "returned unknowns differ from the point of the last residual evaluation"; }
    else if (!r.last_status) { good = false; why = "success although the last residual evaluation reported failure"; }
    else if (!r.last_finite) { good = false; why = "success with a non-finite last residual"; }
    else if (!r.fzeros_is_last_f) { good = false; why = "fzeros is not the residual evaluated at the returned unknowns"; }
    else if (!(nrm <= c.epsilon * (1 + 4 * (n + 2) * eps))) { good = false; why = "norm of the last residual does not satisfy e < epsilon"; }
    else if (c.ov && (r.crit_calls == 0 || !r.last_crit)) { good = false; why = "child's checkConvergence did not answer true last"; }
    else if (c.ov && !(std::fabs(r.last_e - nrm) <= 4 * (n + 2) * eps * nrm + tmin)) { good = false; why = "checkConvergence was not given the norm of the last residual"; }
    else if (c.ov && r.iter < int(c.kmin)) { good = false; why = "child's criterion (iter >= kmin) violated"; }
    R.expect(api, c.S, idx, c.h, good, dump, why);
    NOTES[std::string("success:") + C08_NAME]++;
  } else {
    R.skip(api, c.S);
    NOTES[std::string("failure:") + C08_NAME]++;
  }
  // ---- bounded progress (Newton inside its basin)
#if C08_KIND == K_NEWTON
  if (c.basin) {
    std::snprintf(api, sizeof api, "%s/newton-basin", C08_NAME);
    R.expect(api, c.S, idx, c.h, r.ok, dump, "Newton started at distance <= 0.02/(beta*gamma) of the root must converge");
  }
#endif
  { char nb[64]; std::snprintf(nb, sizeof nb, "N=%d,%s", n, tname); NOTES[nb]++; }
}

// ---- the only solver-dependent part: build the system in T, run the solver, copy the observations out
template <unsigned short N, typename T, bool OV>
static void run_solver(const CaseL& c, ResL& r, uint64_t idx) {
  System<N, T> s;
  s.family = c.family; s.jac_scale = static_cast<T>(c.jac_scale); s.zero_jac = c.zero_jac;
  T x0[N];
  for (int i = 0; i < N; ++i) {
    s.xs[i] = static_cast<T>(c.xs[i]); s.c[i] = static_cast<T>(c.c[i]); x0[i] = static_cast<T>(c.x0[i]);
    for (int j = 0; j < N; ++j) { s.A[i][j] = static_cast<T>(c.A[i][j]); s.b[i][j] = static_cast<T>(c.b[i][j]); }
  }
  Log<N, T> log;
  Child<N, T, OV> solver;
  solver.setup(s, log, x0, static_cast<T>(c.epsilon), c.itmax, c);
  solver.fail_mode = c.fail_mode; solver.fail_at = c.fail_at; solver.cap = 2L * c.itmax + 20;
  solver.kmin = c.kmin;
  vf::set_case(C08_NAME, c.S, idx);
  try { r.ok = solver.solve(); }
  catch (const Runaway&) { r.runaway = true; }
  catch (const std::exception& e) { r.thrown = e.what(); }
  r.iter = solver.get_iter(); r.calls = log.calls; r.crit_calls = log.crit_calls; r.last_e = L(log.last_e); r.last_crit = log.last_crit;
  r.last_status = log.last_status; r.last_finite = log.last_finite;
  T z[N], fz[N];
  for (int i = 0; i < N; ++i) { z[i] = solver.zeros[i]; fz[i] = solver.fzeros[i]; r.zeros[i] = L(z[i]); r.fzeros[i] = L(fz[i]); r.last_x[i] = L(log.last_x[i]); r.last_f[i] = L(log.last_f[i]); }
  r.zeros_is_last_x = log.calls > 0 && bits_equal(z, log.last_x, N);
  r.fzeros_is_last_f = log.calls > 0 && bits_equal(fz, log.last_f, N);
  r.trace.swap(log.trace);
}

template <typename T> static L round_to(L v) { return L(static_cast<T>(v)); }

template <typename T, bool OV>
static void by_size(const vf::Args& a, uint64_t idx, const char* tname, int n) {
  vf::Rng g(a.seed, 800 + C08_KIND * 16 + sizeof(T), idx);
  CaseL c; ResL r;
  gen_case(c, g, idx, n, OV, std::numeric_limits<T>::epsilon(), &round_to<T>);
  switch (n) {
    case 1: run_solver<1, T, OV>(c, r, idx); break; case 2: run_solver<2, T, OV>(c, r, idx); break;
    case 3: run_solver<3, T, OV>(c, r, idx); break; case 4: run_solver<4, T, OV>(c, r, idx); break;
    case 5: run_solver<5, T, OV>(c, r, idx); break; case 6: run_solver<6, T, OV>(c, r, idx); break;
    case 7: run_solver<7, T, OV>(c, r, idx); break; default: run_solver<8, T, OV>(c, r, idx);
  }
  judge(c, r, idx, tname, std::numeric_limits<T>::epsilon(), std::numeric_limits<T>::min());
}

static int run(int argc, char** argv) {
  vf::Args a(argc, argv);
  for (long i = 0; i < a.cases; ++i) {
    const uint64_t idx = a.only >= 0 ? uint64_t(a.only) : a.gidx(i);
    const int n = 1 + int(idx % 8);
    const int ty = int((idx / 8) % 4);  // double twice as often; the child's own criterion only with double
    const bool ov = ((idx / 32) % 3) == 0;
    if (ty == 1) by_size<float, false>(a, idx, "float", n);
    else if (ty == 2) by_size<long double, false>(a, idx, "ldouble", n);
    else { if (ov) by_size<double, true>(a, idx, "double", n); else by_size<double, false>(a, idx, "double", n); }
    if (a.only >= 0) break;
  }
  R.finish();
  for (const auto& kv : NOTES) std::printf("@@VF {\"ev\":\"note\",\"what\":\"%s\",\"n\":%ld}\n", kv.first.c_str(), kv.second);
  return 0;
}
}  // namespace c08
#endif
