"""C28 — modelling hypotheses tables and orthotropic axes conventions."""
import vfcore

META = {
    "engine": "math", "level": "exploration", "design_ref": "DESIGN.md §4.1 C28",
    "technique": "ASan+UBSan harness on ModellingHypothesis / OrthotropicAxesConvention / Hill / Barlat linear transformation / StiffnessTensor; exhaustive tables against the documented ones, convention-dependent objects against the documented axis permutation applied in long double to the 3D object built from its definition",
    "text": "Exhaustively: toString / fromString / toUpperCaseString / isModellingHypothesis round trips for the 7 hypotheses, refusal of unknown names (case variants, padding, truncations, UNDEFINEDHYPOTHESIS), getSpaceDimension / getStensorSize / getTensorSize and the compile-time tables against 1D 3/3, 2D 4/5, 3D 6/9. For random Hill coefficients, Barlat coefficients, admissible orthotropic elastic constants and expansions: computeHillTensor / makeHillTensor, makeBarlatLinearTransformation, computeOrthotropicStiffnessTensor (UNALTERED) and convertStressFreeExpansionStrain for every hypothesis x {DEFAULT, PIPE, PLATE where documented} equal the restriction of the permuted 3D object, and the reduced object gives the same response as the library's own 3D object on any tensor representable in the hypothesis. Held on the cases executed; nothing is claimed beyond them.",
    "note": "Trusted: harness/ref.hxx, harness/material/mat_ref.hxx. The PLATE stiffness is only exercised when computeOrthotropicStiffnessTensor<...,PLATE> compiles (probe shared with C21).",
}

H = vfcore.VERIF / "harness/material"
LIBS = ("TFELMaterial", "TFELMath", "TFELUtilities", "TFELException")
HYPS = ("AxisymmetricalGeneralisedPlaneStrain", "AxisymmetricalGeneralisedPlaneStress", "Axisymmetrical", "PlaneStress", "PlaneStrain",
        "GeneralisedPlaneStrain", "Tridimensional")
PLATE_OK = ("PlaneStress", "PlaneStrain", "GeneralisedPlaneStrain", "Tridimensional")


def build(ctx):
    probe, log = vfcore.compile_cxx("c21_plate_probe", [H / "c21_plate_probe.cxx"], "plain", libs=LIBS, allow_fail=True)
    flags = ("-DVF_C28_PLATE",) if probe else ()
    return {"asan": vfcore.compile_cxx("c28", [H / "c28.cxx"], "asan", libs=LIBS, flags=flags), "plate": probe is not None, "plate_log": log}


def run(ctx):
    b = build(ctx)
    ctx.cov["rule"] = ("tables: exhaustive over the 7 hypotheses and a fixed list of malformed names; conventions: case = (stratum, Hill / Barlat / "
                       "elastic constants, expansions, a random tensor per hypothesis) drawn from (VERIF_SEED, index); distinct = hash of the constants")
    ctx.cov["plate_stiffness_compiled"] = b["plate"]
    if not b["plate"]:
        msg = [l for l in b["plate_log"].splitlines() if "error" in l][:2]
        ctx.violation("computeOrthotropicStiffnessTensor<H,smt,PLATE>:not-instantiable",
                      "the PLATE convention cannot be applied to stiffness tensors (see findings/C21-plate-stiffness-not-instantiable.md): " + " | ".join(msg),
                      {"source": str(H / "c21_plate_probe.cxx"), "compiler_output": b["plate_log"][-3000:]})
    req = [("fromString(toString(h))=h(%s)" % h, None, 1) for h in HYPS]
    req += [("getSpaceDimension/getStensorSize/getTensorSize(%s)" % h, None, 1) for h in HYPS]
    req += [("fromString refuses unknown names(%s)" % h, None, 7) for h in HYPS]
    for h in HYPS:
        for c in ("DEFAULT", "PIPE") + (("PLATE",) if h in PLATE_OK else ()):
            for a in ("computeHillTensor=permuted-3D-definition", "Hill:s:H(reduced):s=s:H(3D):s", "convertStressFreeExpansionStrain=permuted-diagonal",
                      "makeBarlatLinearTransformation=permuted-3D-definition", "Barlat:L(reduced):s=L(3D):s"):
                req.append(("%s<%s,%s>" % (a, h, c), None, 100))
            if c != "PLATE" or b["plate"]:
                req.append(("stiffness:C(reduced):e=C(3D):e<%s,%s>" % (h, c), None, 100))
    ctx.run_events(b["asan"], ctx.n(10000, 1000000), require=req, timeout=3600)
    ctx.assumptions += [
        "PIPE: the 2nd and 3rd material axes are exchanged in PlaneStress, PlaneStrain and GeneralisedPlaneStrain only; DEFAULT and PLATE never permute (tfel-material.md 'Orthotropic axes convention', OrthotropicAxesConvention.hxx); PLATE is only instantiated for the hypotheses it is documented for",
        "Barlat linear transformation: L = C:M of tfel-material.md (the 1/3 prefactor of the comment in OrthotropicStressLinearTransformation.hxx would scale the shear terms by 1/3 and is not what tfel-material.md, Barlat(identity)=Hosford and the code agree on)",
        "a name is 'unknown' when it differs from the 7 documented spellings by case, padding or truncation",
    ]
