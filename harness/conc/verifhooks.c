/* verifhooks.c — definition of the weak hook symbol `tfel_verif_point` used by the
 * TFEL_VERIF-guarded points in /repo (ThreadPool.cxx, ProcessManager.cxx, MFrontLock.cxx).
 *
 * Built either into a harness or as libverifhooks.so (LD_PRELOAD for the real binaries).
 * For every point reached it appends ONE line "pid tid monotonic_ns site id\n" to the file
 * named by VF_HOOK_LOG with a single write(2) on an O_APPEND descriptor (< PIPE_BUF, hence
 * atomic across threads and processes) and then optionally delays the calling thread:
 *   VF_HOOK_DELAYS = "site=usec[/permille],site2=usec..."   (usec<0: sched_yield)
 *   VF_HOOK_SEED   = integer (per-thread xorshift for the permille draw)
 * Only async-signal-safe calls are made at a point (clock_gettime, write, nanosleep,
 * sched_yield, syscall): one of the points sits in a SIGCHLD handler.
 */
#define _GNU_SOURCE
#include <fcntl.h>
#include <sched.h>
#include <stdint.h>
#include <stdio.h>
#include <stdlib.h>
#include <string.h>
#include <sys/syscall.h>
#include <time.h>
#include <unistd.h>

#define MAXS 32
static int vf_fd = -1;
static int vf_n = 0;
static char vf_site[MAXS][48];
static long vf_usec[MAXS];
static int vf_permille[MAXS];
static uint64_t vf_seed = 88172645463325252ull;

__attribute__((constructor)) static void vf_init(void) {
  const char* l = getenv("VF_HOOK_LOG");
  if (l && *l) vf_fd = open(l, O_WRONLY | O_CREAT | O_APPEND | O_CLOEXEC, 0644);
  const char* s = getenv("VF_HOOK_SEED");
  if (s) vf_seed ^= strtoull(s, 0, 10) * 0x9e3779b97f4a7c15ull;
  const char* d = getenv("VF_HOOK_DELAYS");
  if (!d) return;
  char buf[1024];
  strncpy(buf, d, sizeof buf - 1);
  buf[sizeof buf - 1] = 0;
  char* save = 0;
  for (char* t = strtok_r(buf, ",", &save); t && vf_n < MAXS; t = strtok_r(0, ",", &save)) {
    char* eq = strchr(t, '=');
    if (!eq) continue;
    *eq = 0;
    strncpy(vf_site[vf_n], t, 47);
    char* sl = strchr(eq + 1, '/');
    vf_permille[vf_n] = 1000;
    if (sl) { *sl = 0; vf_permille[vf_n] = atoi(sl + 1); }
    vf_usec[vf_n] = atol(eq + 1);
    vf_n++;
  }
}

static int vf_itoa(char* b, long long v) {
  char t[24];
  int n = 0, k = 0;
  unsigned long long u = v < 0 ? -(unsigned long long)v : (unsigned long long)v;
  if (v < 0) b[k++] = '-';
  do { t[n++] = (char)('0' + u % 10); u /= 10; } while (u);
  while (n) b[k++] = t[--n];
  return k;
}

void tfel_verif_point(const char* site, long id) {
  struct timespec ts;
  clock_gettime(CLOCK_MONOTONIC, &ts);
  long tid = syscall(SYS_gettid);
  if (vf_fd >= 0) {
    char b[160];
    int k = 0;
    k += vf_itoa(b + k, getpid()); b[k++] = ' ';
    k += vf_itoa(b + k, tid); b[k++] = ' ';
    k += vf_itoa(b + k, (long long)ts.tv_sec * 1000000000ll + ts.tv_nsec); b[k++] = ' ';
    for (const char* p = site; *p && k < 120; ++p) b[k++] = *p;
    b[k++] = ' ';
    k += vf_itoa(b + k, id);
    b[k++] = '\n';
    ssize_t r = write(vf_fd, b, (size_t)k);
    (void)r;
  }
  for (int i = 0; i < vf_n; ++i) {
    if (strcmp(vf_site[i], site) != 0) continue;
    if (vf_permille[i] < 1000) {
      /* cheap per-call draw: mixes tid and time so threads differ, seeded by VF_HOOK_SEED */
      uint64_t x = vf_seed ^ ((uint64_t)tid * 0x9e3779b97f4a7c15ull) ^ (uint64_t)ts.tv_nsec;
      x ^= x << 13; x ^= x >> 7; x ^= x << 17;
      if ((int)(x % 1000) >= vf_permille[i]) return;
    }
    if (vf_usec[i] < 0) { sched_yield(); return; }
    struct timespec d = {vf_usec[i] / 1000000, (vf_usec[i] % 1000000) * 1000};
    nanosleep(&d, 0);
    return;
  }
}
