"""C31 — CxxTokenizer reproduces the lexical structure of its input; robust on arbitrary bytes."""
import base64
import re
import vfcore

META = {
    "engine": "text", "level": "exploration", "design_ref": "DESIGN.md §4.2 C31",
    "technique": "ASan+UBSan harness on libTFELUtilities: grammar-generated token streams printed with random layout and compared "
                 "token by token (value, order, flag, line, offset) for the option sets the tools use; stripComments and number "
                 "extraction oracles; mutation fuzzing of the repository's .mfront/.mtest files and random bytes with a "
                 "crash/sanitizer/hang classifier",
    "text": "Generated streams of identifiers, integer/float literals, strings, characters, 1- and 2-character operators, // and /* */ "
            "comments (multi-line, doxygen, bodies with runs of stars up to the closing mark, slashes, comment openers inside, empty bodies, several per line) and preprocessor lines are tokenized to exactly the generated elements with the expected flags, "
            "line numbers and offsets, for the default, charAsString, configuration (. + - not separators) and keepCommentBoundaries "
            "option sets; stripComments removes exactly the comment tokens; readDouble/readInt/readUnsignedInt return the literal's value. "
            "On mutated real files and random bytes the tokenizer (all option sets, stripComments, line-by-line mode, openFile) ends by a "
            "token list or a std::exception. Sampled, not exhaustive.",
    "note": "Trusted: the generator/printer in harness/text/c31.cxx (it inserts a blank wherever two adjacent tokens could fuse in C++ itself; "
            "a sign is never glued to a number). Comment values are compared modulo white space unless keepCommentBoundaries is set (then "
            "exactly). One-feature classes (hex, binary, 1e5f, &=, ^=, ->*, leading backward-doxygen comment) are run apart from the core "
            "classes so that each known deviation has its own key.",
}

SRC = vfcore.VERIF / "harness/text/c31.cxx"
LIBS = ("TFELUtilities", "TFELException")
CORE = ["core", "preprocessor", "comments-hostile"]
EXOTIC = ["hex", "binary", "float-suffix-exp", "op-and-assign", "op-xor-assign", "op-arrow-star", "doxygen-backward-first"]
OPTS = ["default", "charAsString", "config", "keepCommentBoundaries"]


def build(ctx):
    return {"asan": vfcore.compile_cxx("c31", [SRC], "asan", libs=LIBS)}


def strip_case(site):
    return re.sub(r"#\d+$", "", site or "?")


def run_class(ctx, binary, cls, cases, summ):
    """one class of generated streams; crashes are keyed by (crash class, api, stream class) without the case index"""
    shards = min(vfcore.NCPU, max(1, cases // 1500))
    per = (cases + shards - 1) // shards

    def one(i):
        cmd = [binary, "--mode", "structure", "--class", cls, "--seed", ctx.seed, "--cases", per, "--shard", i, "--nshards", shards]
        return i, cmd, vfcore.run(cmd, timeout=900, cwd=ctx.work)
    for i, cmd, r in vfcore.pmap(one, range(shards), workers=shards):
        crash = ctx.classify_crash(r)
        if crash and crash != "hang":
            m = re.search(r"@@VFCASE (\S+)", r.err)
            site = m.group(1) if m else "?"
            idx = re.search(r"#(\d+)$", site)
            ctx.violation("%s:%s" % (crash, strip_case(site)), "%s at %s\n%s" % (crash, site, r.err[-3000:]),
                          {"cmd": [str(c) for c in cmd], "replay_cmd": "%s --mode structure --class %s --seed %d --only %s" %
                           (binary, cls, ctx.seed, idx.group(1) if idx else "?"), "stderr": r.err[-4000:]})
            # the events printed before the crash are still folded
            r = vfcore.Result(0, r.out, "", False, r.wall)
        ctx.fold_events(r, summ, where="c31 %s shard %d/%d" % (cls, i, shards),
                        replay_base={"cmd": [str(c) for c in cmd]})


def corpus(ctx):
    files = sorted(str(p) for ext in ("*.mfront", "*.mtest") for p in vfcore.REPO.rglob(ext)
                   if "_build" not in p.parts and p.stat().st_size <= 65536)
    # a spread over the tree: every 7th file (quick) / all (thorough)
    sel = files if ctx.thorough else files[::7]
    f = ctx.work / "corpus.txt"
    f.write_text("\n".join(sel) + "\n")
    ctx.cov["fuzz_corpus_files"] = len(sel)
    return f


def fuzz(ctx, binary, cases):
    """mutation fuzzing in sharded child processes; a dying child names its witness through the @@CASE marker;
    the witness is re-run alone (twice for a hang) and the shard resumes after it"""
    cf = corpus(ctx)
    shards = vfcore.NCPU
    per = (cases + shards - 1) // shards
    stats = {"inputs": 0, "bytes": 0, "crashes": 0, "hangs": 0}
    batch_timeout = 600

    def cmd_for(i, frm=0, only=None, dump=None):
        c = [binary, "--mode", "fuzz", "--corpus", cf, "--seed", ctx.seed, "--cases", per, "--shard", i, "--nshards", shards, "--from", frm]
        if only is not None:
            c += ["--only", only]
        if dump:
            c += ["--dump", dump]
        return c

    def one(i):
        frm, found, n, nbytes = 0, [], 0, 0
        while frm < per:
            r = vfcore.run(cmd_for(i, frm), timeout=batch_timeout, cwd=ctx.work)
            marks = re.findall(r"@@CASE (\d+) (\d+) (\d+)", r.out)
            n += len(marks)
            nbytes += sum(int(m[2]) for m in marks)
            crash = ctx.classify_crash(vfcore.Result(r.rc, "", r.err, r.timed_out, r.wall))
            if not crash and "DONE" in r.out:
                break
            if not marks:
                found.append(("harness", None, r))
                break
            li, idx = int(marks[-1][0]), int(marks[-1][1])
            n -= 1
            found.append((crash or "rc=%s" % r.rc, idx, r))
            frm = li + 1
        return i, n, nbytes, found
    for i, n, nbytes, found in vfcore.pmap(one, range(shards), workers=shards):
        stats["inputs"] += n
        stats["bytes"] += nbytes
        for crash, idx, r in found:
            if idx is None:
                ctx.inconc("fuzz shard %d died before its first case: %s %s" % (i, crash, r.err[-500:]))
                continue
            # reproduce on the single witness
            wf = ctx.work / ("witness-%d-%d.bin" % (i, idx))
            r1 = vfcore.run(cmd_for(i, only=idx, dump=wf), timeout=30, cwd=ctx.work)
            c1 = ctx.classify_crash(vfcore.Result(r1.rc, "", r1.err, r1.timed_out, r1.wall))
            if c1 == "hang":
                r2 = vfcore.run(cmd_for(i, only=idx), timeout=60, cwd=ctx.work)
                c1 = "hang" if r2.timed_out else ctx.classify_crash(vfcore.Result(r2.rc, "", r2.err, False, r2.wall))
            data = wf.read_bytes() if wf.exists() else b""
            rp = {"cmd": [str(c) for c in cmd_for(i, only=idx)], "witness_base64": base64.b64encode(data).decode(),
                  "witness_preview": data[:400].decode("latin-1"), "stderr": (r1.err or r.err)[-4000:]}
            if c1 is None:
                ctx.inconc("fuzz case %d: %s in the batch, not reproduced alone" % (idx, crash))
            elif c1 == "hang":
                stats["hangs"] += 1
                ctx.violation("robust:hang", "tokenizing a %d-byte input takes more than 60 s" % len(data), rp)
            else:
                stats["crashes"] += 1
                m = re.search(r"@@VFCASE (\S+)", r1.err)
                ctx.violation("robust:%s" % c1, "%s on a %d-byte input (%s)\n%s" % (c1, len(data), strip_case(m.group(1)) if m else "?", r1.err[-3000:]), rp)
    ctx.cov["fuzz"] = stats
    ctx.add_eval(stats["inputs"])
    ctx.add_distinct_n(stats["inputs"])
    ctx.require(stats["inputs"] >= 0.9 * cases, "fuzzing executed %d of %d planned inputs" % (stats["inputs"], cases))


def run(ctx):
    b = build(ctx)["asan"]
    ctx.cov["rule"] = ("structure: one case = a stream of 1..24 generated tokens printed with random blanks/tabs/newlines and tokenized with one of four "
                       "option sets; distinct = distinct source text; non-trivial = every stream (at least one token); fuzz: one case = one mutated "
                       "repository file (1-8 byte/dictionary mutations, or a 200-400 byte window) or 0..2048 random bytes, tokenized with the four "
                       "option sets + stripComments + line-by-line mode")
    summ = {}
    n_core = ctx.n(40000, 3000000)
    run_class(ctx, b, "core", n_core, summ)
    run_class(ctx, b, "preprocessor", n_core // 3, summ)
    # comments with hostile-but-valid bodies (runs of '*' before the closing "*/", '/', "/*", "//" inside, "*/" in a // comment,
    # empty bodies, a last line made of stars, several comments back to back); 35 % of the comments of the other classes are of
    # that kind too, 90 % here, and about half of the items of these streams are comments
    run_class(ctx, b, "comments-hostile", ctx.n(15000, 1000000), summ)
    for cls in EXOTIC:
        run_class(ctx, b, cls, ctx.n(2000, 40000), summ)
    req = [(api, "%s/%s" % (c, o), 500) for api in ("tokens", "lines", "offsets", "stripComments") for c in CORE for o in OPTS]
    req += [("readDouble", None, 1000), ("readInt", None, 500), ("readUnsignedInt", None, 500), ("offsets-after-comment", None, 1000)]
    req += [("tokens", "%s/default" % c, 100) for c in EXOTIC if c != "doxygen-backward-first"]  # that class dies on its first stream
    ctx.merge_summary(summ, req)
    fuzz(ctx, b, ctx.n(24000, 1500000))
    ctx.assumptions += ["a '+'/'-' directly followed by a digit is deliberately read as a signed number by the tokenizer: the generator never glues them",
                        "digit separators, raw strings, user-defined literals, multi-character and hex/octal character escapes are not generated (they are fuzzed)",
                        "hang threshold: 60 s for one input of at most 64 kB run alone (the property's 5 s with a load margin)"]
