// C25 (part e) — Eshelby / Hill / localisation tensors of ellipsoids in an isotropic medium and
// the biphasic dilute / Mori-Tanaka schemes built on them (3D).
#define VFH_MAIN
#include "c25_common.hxx"
vf::Reporter R;

static const char* E_STRATA[] = {"sphere", "prolate", "oblate", "ellipsoid", "near-sphere", "near-axisymmetric", "extreme"};

// shape in the local frame: semi-axes (a,b,c) along the columns of Q
struct Shape { double a, b, c; M3 Q; tfm::tvector<3u, double> na, nb; };
static Shape gen_shape(vf::Rng& g, int st) {
  Shape s;
  const double u = g.logmag(-3, 3);  // overall size is irrelevant
  switch (st) {
    case 0: s.a = s.b = s.c = u; break;
    case 1: s.b = s.c = u; s.a = u * g.logmag(0.05, 1); break;
    case 2: s.b = s.c = u; s.a = u * g.logmag(-1, -0.05); break;
    case 3: { double r[3]; do { r[0] = g.logmag(-0.5, 0.5); r[1] = g.logmag(-0.5, 0.5); r[2] = g.logmag(-0.5, 0.5); }
              while (std::fabs(r[0] / r[1] - 1) < 0.05 || std::fabs(r[0] / r[2] - 1) < 0.05 || std::fabs(r[1] / r[2] - 1) < 0.05);
              s.a = u * r[0]; s.b = u * r[1]; s.c = u * r[2]; break; }
    case 4: s.b = s.c = u; s.a = u * (1 + g.sign() * g.logmag(-8, -2)); break;
    case 5: s.a = u * g.logmag(-0.7, 0.7); s.b = u; s.c = u * (1 + g.sign() * g.logmag(-7, -2)); break;
    default: s.a = u * g.logmag(1, 3) ; s.b = u * (g.coin() ? 1.0 : g.logmag(-3, -1)); s.c = u; if (g.coin()) std::swap(s.a, s.c);
  }
  // The library refuses (contract violation -> abort) directions whose *floating-point* dot product
  // is not exactly zero (findings/C25-orthogonality-contract.md): orientations are drawn until the
  // rounded pair passes that test; a rotation about z (exact by construction) is the fallback.
  bool found = false;
  auto exact0 = [](const tfm::tvector<3u, double>& x, const tfm::tvector<3u, double>& y) {
    volatile double p0 = x[0] * y[0], p1 = x[1] * y[1], p2 = x[2] * y[2];
    volatile double s1 = p0 + p1, s2 = p1 + p2, s3 = p0 + p2;
    return (s1 + p2 == 0.0) && (p0 + s2 == 0.0) && (s3 + p1 == 0.0) && ((x | y) == 0.0) &&
           tfm::VectorVectorDotProduct::exe<double, tfm::tvector<3u, double>, tfm::tvector<3u, double>>(x, y) == 0.0;
  };
  if (g.coin()) for (int t = 0; t < 400 && !found; ++t) {
    s.Q = random_rotation(g, 3);
    for (int i = 0; i < 3; ++i) { s.na[i] = double(s.Q[i][0]); s.nb[i] = double(s.Q[i][1]); }
    found = exact0(s.na, s.nb);
  }
  if (!found) {  // n_a random, n_b = (-n_a[1], n_a[0], 0): the two products cancel exactly (n_b is normalised by the library)
    s.Q = random_rotation(g, 3);
    for (int i = 0; i < 3; ++i) s.na[i] = double(s.Q[i][0]);
    s.nb = {-s.na[1], s.na[0], 0.};
    if (!exact0(s.na, s.nb) || (s.nb[0] == 0 && s.nb[1] == 0)) { s.na = {1., 0., 0.}; s.nb = {0., 1., 0.}; }
  }
  // the reference frame is rebuilt from the rounded directions (Gram-Schmidt in long double)
  V3 e0 = {s.na[0], s.na[1], s.na[2]}, e1 = {s.nb[0], s.nb[1], s.nb[2]};
  L n0 = std::sqrt(e0[0] * e0[0] + e0[1] * e0[1] + e0[2] * e0[2]); for (auto& x : e0) x /= n0;
  L d01 = e0[0] * e1[0] + e0[1] * e1[1] + e0[2] * e1[2]; for (int i = 0; i < 3; ++i) e1[i] -= d01 * e0[i];
  L n1 = std::sqrt(e1[0] * e1[0] + e1[1] * e1[1] + e1[2] * e1[2]); for (auto& x : e1) x /= n1;
  V3 e2 = {e0[1] * e1[2] - e0[2] * e1[1], e0[2] * e1[0] - e0[0] * e1[2], e0[0] * e1[1] - e0[1] * e1[0]};
  for (int i = 0; i < 3; ++i) { s.Q[i][0] = e0[i]; s.Q[i][1] = e1[i]; s.Q[i][2] = e2[i]; }
  return s;
}
// relative separation of the semi-axes (conditioning of the closed forms, which divide by
// differences of squared semi-axes)
static L axes_gap(const Shape& s) {
  const L a = s.a, b = s.b, c = s.c, m = dmax(a, dmax(b, c));
  L g = 1;
  auto upd = [&](L x, L y) { const L d = std::fabs(x - y) / m; if (d > 0) g = std::min(g, d); };
  upd(a, b); upd(a, c); upd(b, c);
  return g;
}

// the general-ellipsoid closed forms go through numerically evaluated elliptic integrals: 1e-9 floor
static L two_regime(L gap) { return gap < 2e-3L ? 48 * gap + 1e-9L : 64 * KF * EPS * (1 + 1 / (gap * gap)) + 1e-9L; }

static void eshelby_case(const vf::Args& a, uint64_t idx) {
  vf::Rng g(a.seed, 2510, idx);
  const int st = int(idx % 7);
  const char* S = E_STRATA[st];
  char api[128];
  auto nm = [&](const char* f) { std::snprintf(api, sizeof api, "%s", f); vf::set_case(api, S, idx); return api; };
  const L scale = g.logmag(-3, 11);
  const Medium m0 = gen_medium(g, scale, 0), mi = gen_medium(g, scale, st == 6 ? 1 : 2);
  const Shape sh = gen_shape(g, st);
  double in[9] = {m0.E, m0.nu, mi.E, mi.nu, sh.a, sh.b, sh.c, sh.na[0], sh.nb[1]};
  const uint64_t h = vf::hash_arr(in, 9);
  auto dump = [&] { vf::J j; j.f("E0", m0.E).f("nu0", m0.nu).f("Ei", mi.E).f("nui", mi.nu).f("a", sh.a).f("b", sh.b).f("c", sh.c).arr("n_a", &sh.na[0], &sh.na[0] + 3).arr("n_b", &sh.nb[0], &sh.nb[0] + 3); return j.str(); };
  const tmat::YoungNuModuli<double> IM0(m0.E, m0.nu), IMi(mi.E, mi.nu);
  T4 S0inv;  // C0^-1
  esh::t4inv(S0inv, m0.C);
  const L nP = 1 / (2 * m0.G);  // magnitude of the Hill tensor
  // ---- structural identities, valid for every shape (incl. extreme aspect ratios)
  const auto Plib = hom::computeHillPolarisationTensor<double>(m0.E, m0.nu, sh.na, sh.a, sh.nb, sh.b, sh.c);
  const T4 Pl = from_st2tost2(Plib, 3);
  const L gap = axes_gap(sh);
  // closed forms lose digits like 1/gap^2 when two semi-axes approach each other; below the
  // documented switch (1.5e-4 in double) the axisymmetric / spherical formula is substituted
  // (documented switch: |e-1| or (a-b)/c below 1.5e-4 in double; (a-b)/c may be several times the gap
  // used here, relative to the longest axis): below 2e-3 an error proportional to the gap is allowed
  const L shape_tol = two_regime(gap);
  R.check(nm("HillPolarisationTensor:major-symmetry"), S, idx, h, mref::major_asym(Pl), dmax(shape_tol, KF * EPS) * nP, dump);
  {
    const auto P2 = hom::computeHillPolarisationTensor<double>(IM0, sh.na, sh.a, sh.nb, sh.b, sh.c);
    R.check(nm("HillPolarisationTensor(IsotropicModuli)=(E,nu)"), S, idx, h, t4dist(from_st2tost2(P2, 3), Pl), KF * EPS * nP * 8, dump);
    // the same ellipsoid described with the roles of the first two axes exchanged
    const auto P3 = hom::computeHillPolarisationTensor<double>(m0.E, m0.nu, sh.nb, sh.b, sh.na, sh.a, sh.c);
    R.check(nm("HillPolarisationTensor:axis-relabelling(a<->b)"), S, idx, h, t4dist(from_st2tost2(P3, 3), Pl), dmax(shape_tol, KF * EPS) * nP * 8, dump);
  }
  {  // Eshelby tensor: argument order is irrelevant (returned in the basis sorted by decreasing length)
    const auto S1 = hom::computeEshelbyTensor<double>(m0.nu, sh.a, sh.b, sh.c);
    const auto S2 = hom::computeEshelbyTensor<double>(m0.nu, sh.c, sh.a, sh.b);
    const auto S3 = hom::computeEshelbyTensor<double>(m0.nu, sh.b, sh.c, sh.a);
    R.check(nm("EshelbyTensor:argument-permutation"), S, idx, h, dmax(t4dist(from_st2tost2(S1, 3), from_st2tost2(S2, 3)), t4dist(from_st2tost2(S1, 3), from_st2tost2(S3, 3))),
            dmax(shape_tol, KF * EPS) * 8, dump);
    // P = S : C0^-1 with S rotated to the global frame: axes sorted by decreasing length
    double ax[3] = {sh.a, sh.b, sh.c}; int o[3] = {0, 1, 2};
    std::sort(o, o + 3, [&](int x, int y) { return ax[x] > ax[y]; });
    M3 Qs; for (int i = 0; i < 3; ++i) for (int k = 0; k < 3; ++k) Qs[i][k] = sh.Q[i][o[k]];
    if (det(Qs) < 0) for (int i = 0; i < 3; ++i) Qs[i][2] = -Qs[i][2];
    const T4 Sg = esh::rotate(from_st2tost2(S1, 3), Qs);
    R.check(nm("HillPolarisationTensor=EshelbyTensor:C0^-1"), S, idx, h, t4dist(ddot(Sg, S0inv), Pl), dmax(shape_tol, KF * EPS) * nP * 16, dump);
  }
  if (st == 6) return;
  // ---- values against the oracle
  T4 Pref_loc;
  if (st == 0) Pref_loc = ddot(esh::sphere_eshelby(m0.nu), S0inv);
  else {
    const L ax[3] = {sh.a, sh.b, sh.c};
    if (!esh::hill_quad(Pref_loc, m0.C, ax)) { R.skip(nm("HillPolarisationTensor=integral-definition"), S); return; }
  }
  const T4 Pref = esh::rotate(Pref_loc, sh.Q);
  R.check(nm("HillPolarisationTensor=integral-definition"), S, idx, h, t4dist(Pl, Pref), (shape_tol + 1e-10L) * nP, dump);
  if (st == 0) {
    const auto Ss = hom::computeSphereEshelbyTensor(m0.nu);
    R.check(nm("SphereEshelbyTensor=Eshelby1957"), S, idx, h, t4dist(from_st2tost2(Ss, 3), esh::sphere_eshelby(m0.nu)), KF * EPS, dump);
    const auto Ps = hom::computeSphereHillPolarisationTensor<double>(m0.E, m0.nu);
    R.check(nm("SphereHillPolarisationTensor=S:C0^-1"), S, idx, h, t4dist(from_st2tost2(Ps, 3), Pref_loc), KF * EPS * nP, dump);
    {  // oracle self-check: the quadrature reproduces Eshelby's sphere
      const L ax[3] = {1, 1, 1}; T4 Pq;
      if (esh::hill_quad(Pq, m0.C, ax)) R.check(nm("oracle:quadrature(sphere)=closed-form"), S, idx, h, t4dist(Pq, Pref_loc), 1e-12L * nP, dump);
    }
  }
  if (st == 1 || st == 2 || st == 4) {
    const double e = sh.a / sh.b;
    const auto Pa = hom::computeAxisymmetricalHillPolarisationTensor<double>(m0.E, m0.nu, sh.na, e);
    // reference for the rounded aspect ratio
    T4 Pr = Pref;
    if (st != 4) { const L ax[3] = {L(e), 1, 1}; T4 t; if (esh::hill_quad(t, m0.C, ax)) Pr = esh::rotate(t, sh.Q); }
    const L de = std::fabs(L(e) - 1);
    const L tol = st == 4 ? (32 * de + 1e-9L) : two_regime(de) + 1e-10L;
    if (st == 4) {  // spheroid -> sphere limit: S(e) = S(1) + O(e-1)
      R.check(nm("AxisymmetricalHillPolarisationTensor->sphere"), S, idx, h, t4dist(from_st2tost2(Pa, 3), ddot(esh::sphere_eshelby(m0.nu), S0inv)), tol * nP, dump);
      const auto Sa = hom::computeAxisymmetricalEshelbyTensor(m0.nu, e);
      R.check(nm("AxisymmetricalEshelbyTensor->sphere"), S, idx, h, t4dist(from_st2tost2(Sa, 3), esh::sphere_eshelby(m0.nu)), tol, dump);
    } else {
      R.check(nm("AxisymmetricalHillPolarisationTensor=integral-definition"), S, idx, h, t4dist(from_st2tost2(Pa, 3), Pr), tol * nP, dump);
      // Eshelby tensor in its own basis: e1 is (one of) the longest axes
      const auto Sa = hom::computeAxisymmetricalEshelbyTensor(m0.nu, e);
      const L ax[3] = {e > 1 ? L(e) : 1, 1, e > 1 ? 1 : L(e)};
      T4 t; if (esh::hill_quad(t, m0.C, ax)) R.check(nm("AxisymmetricalEshelbyTensor=integral-definition"), S, idx, h, t4dist(from_st2tost2(Sa, 3), ddot(t, m0.C)), tol * 4, dump);
    }
  }
  // ---- localisation tensors A = [I + P:(Ci-C0)]^-1
  T4 Aref;
  if (!esh::localisation(Aref, Pref, m0.C, mi.C)) { R.skip(nm("EllipsoidLocalisationTensor=[I+P:(Ci-C0)]^-1"), S); return; }
  const L contrast = dmax(mi.E / m0.E, m0.E / mi.E);
  const L tolA = (shape_tol + 1e-10L) * 8 * contrast * dmax(t4norm(Aref), 1);
  const auto Al = hom::computeEllipsoidLocalisationTensor<double>(m0.E, m0.nu, mi.E, mi.nu, sh.na, sh.a, sh.nb, sh.b, sh.c);
  R.check(nm("EllipsoidLocalisationTensor=[I+P:(Ci-C0)]^-1"), S, idx, h, t4dist(from_st2tost2(Al, 3), Aref), tolA, dump);
  {
    const auto A2 = hom::computeEllipsoidLocalisationTensor<double>(IM0, IMi, sh.na, sh.a, sh.nb, sh.b, sh.c);
    R.check(nm("EllipsoidLocalisationTensor(IsotropicModuli)=(E,nu)"), S, idx, h, t4dist(from_st2tost2(A2, 3), from_st2tost2(Al, 3)), KF * EPS * 8 * contrast * dmax(t4norm(Aref), 1), dump);
    // inclusion stiffness given as a tensor in the local basis (isotropic: same in every basis)
    const auto A3 = hom::computeEllipsoidLocalisationTensor<double>(IM0, mk4<3>(mi.C), sh.na, sh.a, sh.nb, sh.b, sh.c);
    R.check(nm("EllipsoidLocalisationTensor(Ci tensor)=(E,nu)"), S, idx, h, t4dist(from_st2tost2(A3, 3), from_st2tost2(Al, 3)), KF * EPS * 64 * contrast * dmax(t4norm(Aref), 1), dump);
  }
  if (st == 0) {
    const auto As = hom::computeSphereLocalisationTensor<double>(m0.E, m0.nu, mi.E, mi.nu);
    R.check(nm("SphereLocalisationTensor=[I+P:(Ci-C0)]^-1"), S, idx, h, t4dist(from_st2tost2(As, 3), Aref), KF * EPS * 8 * contrast * dmax(t4norm(Aref), 1), dump);
  }
  if (st == 1 || st == 2) {
    const double e = sh.a / sh.b;
    const L ax[3] = {L(e), 1, 1}; T4 t, Ar;
    if (esh::hill_quad(t, m0.C, ax) && esh::localisation(Ar, esh::rotate(t, sh.Q), m0.C, mi.C)) {
      const auto Aa = hom::computeAxisymmetricalEllipsoidLocalisationTensor<double>(m0.E, m0.nu, mi.E, mi.nu, sh.na, e);
      R.check(nm("AxisymmetricalEllipsoidLocalisationTensor=[I+P:(Ci-C0)]^-1"), S, idx, h, t4dist(from_st2tost2(Aa, 3), Ar), tolA, dump);
    }
  }
  // ---- biphasic schemes built on A (oracle: C0 + f (Ci-C0):<A> [: ((1-f) I + f <A>)^-1])
  const double f = g.irange(0, 4) == 0 ? 0.0 : (g.coin() ? g.uni(0, 0.6) : g.logmag(-6, -1));
  const T4 dC = esh::t4add(mi.C, m0.C, -1);
  auto dilute = [&](const T4& Aav) { return esh::t4add(m0.C, ddot(dC, Aav), f); };
  auto mori = [&](const T4& Aav, T4& out) {
    T4 inv_; if (!esh::t4inv(inv_, esh::t4add(esh::t4scal(esh::t4id(), 1 - L(f)), Aav, f))) return false;
    out = esh::t4add(m0.C, ddot(dC, ddot(Aav, inv_)), f); return true;
  };
  const L nC = t4norm(m0.C) + t4norm(mi.C);
  const L tolC = tolA * nC * 4 + KF * EPS * nC;
  {  // oriented
    const auto Cd = hom::computeOrientedDiluteScheme<double>(IM0, f, IMi, sh.na, sh.a, sh.nb, sh.b, sh.c);
    R.check(nm("OrientedDiluteScheme=C0+f(Ci-C0):A"), S, idx, h, t4dist(from_st2tost2(Cd, 3), dilute(Aref)), tolC, dump);
    T4 Cm; if (mori(Aref, Cm)) {
      const auto Cl = hom::computeOrientedMoriTanakaScheme<double>(IM0, f, IMi, sh.na, sh.a, sh.nb, sh.b, sh.c);
      R.check(nm("OrientedMoriTanakaScheme=C0+f(Ci-C0):A:[(1-f)I+fA]^-1"), S, idx, h, t4dist(from_st2tost2(Cl, 3), Cm), tolC, dump);
    }
    if (f == 0) R.check(nm("f=0:OrientedDilute/MoriTanaka=matrix"), S, idx, h,
                        dmax(t4dist(from_st2tost2(Cd, 3), m0.C), t4dist(from_st2tost2(hom::computeOrientedMoriTanakaScheme<double>(IM0, f, IMi, sh.na, sh.a, sh.nb, sh.b, sh.c), 3), m0.C)), KF * EPS * nC, dump);
  }
  {  // isotropic distribution of orientations: the orientation average of A is its isotropic projection
    const T4 J = esh::t4scal(otimes(eye(), eye()), 1 / 3.0L), Kp = esh::t4add(esh::t4id(), J, -1);
    L aJ = 0, aK = 0;
    for (int i = 0; i < 3; ++i) for (int j = 0; j < 3; ++j) for (int k = 0; k < 3; ++k) for (int l = 0; l < 3; ++l) { aJ += Aref.v[i][j][k][l] * J.v[i][j][k][l]; aK += Aref.v[i][j][k][l] * Kp.v[i][j][k][l]; }
    const T4 Aiso = esh::t4add(esh::t4scal(J, aJ), esh::t4scal(Kp, aK / 5));
    const T4 Cd = dilute(Aiso);
    const auto kd = hom::computeIsotropicDiluteScheme<double>(IM0, f, IMi, sh.a, sh.b, sh.c);
    R.check(nm("IsotropicDiluteScheme=C0+f(Ci-C0):<A>iso"), S, idx, h, t4dist(mref::iso_t4(L(kd.kappa) - 2 * L(kd.mu) / 3, L(kd.mu)), Cd), tolC, dump);
    T4 Cm; if (mori(Aiso, Cm)) {
      const auto km = hom::computeIsotropicMoriTanakaScheme<double>(IM0, f, IMi, sh.a, sh.b, sh.c);
      R.check(nm("IsotropicMoriTanakaScheme=C0+f(Ci-C0):<A>:[(1-f)I+f<A>]^-1"), S, idx, h, t4dist(mref::iso_t4(L(km.kappa) - 2 * L(km.mu) / 3, L(km.mu)), Cm), tolC, dump);
      if (f == 0) R.check(nm("f=0:IsotropicDilute/MoriTanaka=matrix"), S, idx, h, dmax(std::fabs(L(km.kappa) - m0.K) + std::fabs(L(km.mu) - m0.G), std::fabs(L(kd.kappa) - m0.K) + std::fabs(L(kd.mu) - m0.G)), KF * EPS * nC, dump);
    }
  }
  {  // transverse isotropic distribution: axis a fixed along n_a, the others uniformly rotated about it
    T4 Ati = t4zero();
    const int nrot = 16;  // exact for trigonometric polynomials of degree <= 4
    const L pi = 3.14159265358979323846264338327950288L;
    for (int r = 0; r < nrot; ++r) {
      const L th = 2 * pi * r / nrot; M3 Rl = eye(); Rl[1][1] = std::cos(th); Rl[1][2] = -std::sin(th); Rl[2][1] = std::sin(th); Rl[2][2] = std::cos(th);
      // local frame rotated about its first axis
      T4 Al_; if (!esh::localisation(Al_, esh::rotate(Pref_loc, mul(sh.Q, Rl)), m0.C, mi.C)) { Ati = t4zero(); break; }
      Ati = esh::t4add(Ati, Al_, 1.0L / nrot);
    }
    if (t4norm(Ati) > 0) {
      const auto Cd = hom::computeTransverseIsotropicDiluteScheme<double>(IM0, f, IMi, sh.na, sh.a, sh.b, sh.c);
      R.check(nm("TransverseIsotropicDiluteScheme=C0+f(Ci-C0):<A>TI"), S, idx, h, t4dist(from_st2tost2(Cd, 3), dilute(Ati)), tolC, dump);
      T4 Cm; if (mori(Ati, Cm)) {
        const auto Cl = hom::computeTransverseIsotropicMoriTanakaScheme<double>(IM0, f, IMi, sh.na, sh.a, sh.b, sh.c);
        R.check(nm("TransverseIsotropicMoriTanakaScheme=C0+f(Ci-C0):<A>:[(1-f)I+f<A>]^-1"), S, idx, h, t4dist(from_st2tost2(Cl, 3), Cm), tolC, dump);
      }
    }
  }
  if (st == 0) {  // spheres: closed forms of the dilute and Mori-Tanaka estimates
    const L AK = (3 * m0.K + 4 * m0.G) / (3 * mi.K + 4 * m0.G);
    const L H0 = m0.G * (9 * m0.K + 8 * m0.G) / (6 * (m0.K + 2 * m0.G));
    const L AG = (m0.G + H0) / (mi.G + H0);
    const L Kd = m0.K + f * (mi.K - m0.K) * AK, Gd = m0.G + f * (mi.G - m0.G) * AG;
    const L Km = m0.K + f * (mi.K - m0.K) * AK / (1 - f + f * AK), Gm = m0.G + f * (mi.G - m0.G) * AG / (1 - f + f * AG);
    const L tk = KF * EPS * (m0.K + mi.K + m0.G + mi.G) * 8 * contrast;
    const auto kd = hom::computeSphereDiluteScheme<double>(IM0, f, IMi);
    const auto km = hom::computeSphereMoriTanakaScheme<double>(IM0, f, IMi);
    R.check(nm("SphereDiluteScheme=closed-form"), S, idx, h, std::fabs(L(kd.kappa) - Kd) + std::fabs(L(kd.mu) - Gd), tk, dump);
    R.check(nm("SphereMoriTanakaScheme=closed-form"), S, idx, h, std::fabs(L(km.kappa) - Km) + std::fabs(L(km.mu) - Gm), tk, dump);
    const auto yd = hom::computeSphereDiluteScheme<double>(m0.E, m0.nu, f, mi.E, mi.nu);
    const auto ym = hom::computeSphereMoriTanakaScheme<double>(m0.E, m0.nu, f, mi.E, mi.nu);
    const auto yd2 = yd.ToKG(), ym2 = ym.ToKG();
    // (E,nu) -> (K,G) amplifies by 1/(1-2nu)
    const L ck = 1 / std::fabs(1 - 2 * L(ym.nu)) + 1 / std::fabs(1 - 2 * L(yd.nu));
    R.check(nm("SphereDiluteScheme(E,nu)=closed-form"), S, idx, h, std::fabs(L(yd2.kappa) - Kd) + std::fabs(L(yd2.mu) - Gd), tk * (1 + ck), dump);
    R.check(nm("SphereMoriTanakaScheme(E,nu)=closed-form"), S, idx, h, std::fabs(L(ym2.kappa) - Km) + std::fabs(L(ym2.mu) - Gm), tk * (1 + ck), dump);
    if (f == 0) R.check(nm("f=0:SphereDilute/MoriTanaka=matrix"), S, idx, h, std::fabs(L(kd.kappa) - m0.K) + std::fabs(L(kd.mu) - m0.G) + std::fabs(L(km.kappa) - m0.K) + std::fabs(L(km.mu) - m0.G), tk, dump);
  }
}

int main(int argc, char** argv) {
  vf::Args a(argc, argv);
  for (long i = 0; i < a.cases; ++i) {
    const uint64_t idx = a.only >= 0 ? uint64_t(a.only) : a.gidx(i);
    eshelby_case(a, idx);
    if (a.only >= 0) break;
  }
  R.finish();
  return 0;
}
