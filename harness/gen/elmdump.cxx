// elmdump — prints as JSON what tfel::system::ExternalLibraryManager reports about an entry point (C45).
//   elmdump mp  <library> <material property>
//   elmdump bhv <library> <behaviour> <hypothesis>
// Every getter is called in its own try block: a throwing getter is reported as {"error": what}.
#include <cmath>
#include <cstdio>
#include <functional>
#include <iostream>
#include <sstream>
#include <string>
#include <vector>
#include "TFEL/System/ExternalLibraryManager.hxx"

using ELM = tfel::system::ExternalLibraryManager;

static std::string esc(const std::string& s) {
  std::ostringstream o;
  o << '"';
  for (const char c : s) {
    if (c == '"' || c == '\\') o << '\\' << c;
    else if (c == '\n') o << "\\n";
    else if (c == '\t') o << "\\t";
    else if (static_cast<unsigned char>(c) < 0x20) { char b[8]; std::snprintf(b, sizeof b, "\\u%04x", c); o << b; }
    else o << c;
  }
  o << '"';
  return o.str();
}
static std::string js(const std::string& s) { return esc(s); }
static std::string js(const char* s) { return esc(s); }
static std::string js(const bool b) { return b ? "true" : "false"; }
static std::string js(const int v) { return std::to_string(v); }
static std::string js(const unsigned short v) { return std::to_string(v); }
static std::string js(const double v) {
  if (!std::isfinite(v)) return esc(std::isnan(v) ? "nan" : (v > 0 ? "inf" : "-inf"));
  char b[64];
  std::snprintf(b, sizeof b, "\"%a\"", v);   // hex float: exact
  return b;
}
static std::string js(const long double v) {
  // the monitor compares doubles: report the value rounded to double and whether the rounding was exact
  const double d = static_cast<double>(v);
  char b[96];
  if (!std::isfinite(d)) return esc(std::isnan(d) ? "nan" : (d > 0 ? "inf" : "-inf"));
  std::snprintf(b, sizeof b, "\"%a\"", d);
  return b;
}
template <typename T>
static std::string js(const std::vector<T>& v) {
  std::string r = "[";
  for (std::size_t i = 0; i != v.size(); ++i) r += (i ? "," : "") + js(v[i]);
  return r + "]";
}

struct Obj {
  std::string s = "{";
  bool first = true;
  void raw(const std::string& k, const std::string& v) {
    s += (first ? "" : ",") + esc(k) + ":" + v;
    first = false;
  }
  template <typename F>
  void get(const std::string& k, F&& f) {
    try {
      raw(k, js(f()));
    } catch (std::exception& e) {
      raw(k, "{\"error\":" + esc(e.what()) + "}");
    } catch (...) {
      raw(k, "{\"error\":\"unknown exception\"}");
    }
  }
  std::string str() const { return s + "}"; }
};

int main(int argc, char** argv) {
  if (argc < 4) return 2;
  const std::string mode = argv[1], l = argv[2], f = argv[3];
  auto& m = ELM::getExternalLibraryManager();
  Obj o;
  o.get("entry_points", [&] { return m.getEntryPoints(l); });
  o.get("contains", [&] { return m.contains(l, f); });
  o.get("material_knowledge_type", [&] { return m.getMaterialKnowledgeType(l, f); });
  o.get("interface", [&] { return m.getInterface(l, f); });
  o.get("source", [&] { return m.getSource(l, f); });
  o.get("tfel_version", [&] { return m.getTFELVersion(l, f); });
  o.get("unit_system", [&] { return m.getUnitSystem(l, f); });
  o.get("material", [&] { return m.getMaterial(l, f); });
  o.get("author", [&] { return m.getAuthor(l, f); });
  o.get("date", [&] { return m.getDate(l, f); });
  o.get("description", [&] { return m.getDescription(l, f); });
  o.get("build_id", [&] { return m.getBuildIdentifier(l, f); });
  if (mode == "mp") {
    o.get("law", [&] { return m.getLaw(l, f); });
    o.get("output", [&] { return m.getMaterialPropertyOutput(l, f); });
    o.get("nargs", [&] { return m.getMaterialPropertyNumberOfVariables(l, f); });
    std::vector<std::string> args, params;
    o.get("args", [&] { return args = m.getMaterialPropertyVariables(l, f); });
    o.get("generic_args", [&] { return m.getGenericMaterialPropertyVariables(l, f); });
    o.get("parameters", [&] { return params = m.getMaterialPropertyParameters(l, f); });
    Obj pd;
    for (const auto& p : params) pd.get(p, [&] { return m.getRealParameterDefaultValue(l, f, "", p); });
    o.raw("parameter_defaults", pd.str());
    Obj b;
    auto names = args;
    try { names.push_back(m.getMaterialPropertyOutput(l, f)); } catch (...) {}
    for (const auto& v : names) {
      Obj q;
      q.get("hasBounds", [&] { return m.hasBounds(l, f, v); });
      q.get("hasLowerBound", [&] { return m.hasLowerBound(l, f, v); });
      q.get("hasUpperBound", [&] { return m.hasUpperBound(l, f, v); });
      q.get("hasPhysicalBounds", [&] { return m.hasPhysicalBounds(l, f, v); });
      q.get("hasLowerPhysicalBound", [&] { return m.hasLowerPhysicalBound(l, f, v); });
      q.get("hasUpperPhysicalBound", [&] { return m.hasUpperPhysicalBound(l, f, v); });
      q.get("lowerBound", [&] { return m.getLowerBound(l, f, v); });
      q.get("upperBound", [&] { return m.getUpperBound(l, f, v); });
      q.get("lowerPhysicalBound", [&] { return m.getLowerPhysicalBound(l, f, v); });
      q.get("upperPhysicalBound", [&] { return m.getUpperPhysicalBound(l, f, v); });
      b.raw(v, q.str());
    }
    o.raw("bounds", b.str());
  } else {
    const std::string h = argc > 4 ? argv[4] : "";
    o.get("hypotheses", [&] { return m.getSupportedModellingHypotheses(l, f); });
    o.get("behaviour_type", [&] { return m.getUMATBehaviourType(l, f); });
    o.get("kinematic", [&] { return m.getUMATBehaviourKinematic(l, f); });
    o.get("symmetry", [&] { return m.getUMATSymmetryType(l, f); });
    o.get("elastic_symmetry", [&] { return m.getUMATElasticSymmetryType(l, f); });
    o.get("gradients", [&] { return m.getUMATGradientsNames(l, f); });
    o.get("gradients_types", [&] { return m.getUMATGradientsTypes(l, f); });
    o.get("thermodynamic_forces", [&] { return m.getUMATThermodynamicForcesNames(l, f); });
    o.get("thermodynamic_forces_types", [&] { return m.getUMATThermodynamicForcesTypes(l, f); });
    o.get("requires_stiffness_tensor", [&] { return m.getUMATRequiresStiffnessTensor(l, f, h); });
    o.get("requires_thermal_expansion", [&] { return m.getUMATRequiresThermalExpansionCoefficientTensor(l, f, h); });
    o.get("internal_energy", [&] { return m.isUMATBehaviourAbleToComputeInternalEnergy(l, f, h); });
    o.get("dissipated_energy", [&] { return m.isUMATBehaviourAbleToComputeDissipatedEnergy(l, f, h); });
    o.get("temperature_removed", [&] { return m.hasTemperatureBeenRemovedFromExternalStateVariables(l, f); });
    std::vector<std::string> mps, isvs, esvs, params;
    std::vector<int> ptypes;
    o.get("material_properties", [&] { return mps = m.getUMATMaterialPropertiesNames(l, f, h); });
    o.get("internal_state_variables", [&] { return isvs = m.getUMATInternalStateVariablesNames(l, f, h); });
    o.get("internal_state_variables_types", [&] { return m.getUMATInternalStateVariablesTypes(l, f, h); });
    o.get("external_state_variables", [&] { return esvs = m.getUMATExternalStateVariablesNames(l, f, h); });
    o.get("external_state_variables_types", [&] { return m.getUMATExternalStateVariablesTypes(l, f, h); });
    o.get("parameters", [&] { return params = m.getUMATParametersNames(l, f, h); });
    o.get("parameters_types", [&] { return ptypes = m.getUMATParametersTypes(l, f, h); });
    Obj pd;
    for (std::size_t i = 0; i != params.size(); ++i) {
      const auto& p = params[i];
      const int t = i < ptypes.size() ? ptypes[i] : 0;
      if (t == 0) pd.get(p, [&] { return m.getRealParameterDefaultValue(l, f, h, p); });
      else if (t == 1) pd.get(p, [&] { return m.getIntegerParameterDefaultValue(l, f, h, p); });
      else pd.get(p, [&] { return m.getUnsignedShortParameterDefaultValue(l, f, h, p); });
    }
    o.raw("parameter_defaults", pd.str());
    Obj b;
    auto names = mps;
    names.insert(names.end(), isvs.begin(), isvs.end());
    names.insert(names.end(), esvs.begin(), esvs.end());
    names.insert(names.end(), params.begin(), params.end());
    for (int i = 5; i < argc; ++i) names.push_back(argv[i]);   // extra names (array components...)
    for (const auto& v : names) {
      Obj q;
      q.get("hasBounds", [&] { return m.hasBounds(l, f, h, v); });
      q.get("hasLowerBound", [&] { return m.hasLowerBound(l, f, h, v); });
      q.get("hasUpperBound", [&] { return m.hasUpperBound(l, f, h, v); });
      q.get("hasPhysicalBounds", [&] { return m.hasPhysicalBounds(l, f, h, v); });
      q.get("hasLowerPhysicalBound", [&] { return m.hasLowerPhysicalBound(l, f, h, v); });
      q.get("hasUpperPhysicalBound", [&] { return m.hasUpperPhysicalBound(l, f, h, v); });
      q.get("lowerBound", [&] { return m.getLowerBound(l, f, h, v); });
      q.get("upperBound", [&] { return m.getUpperBound(l, f, h, v); });
      q.get("lowerPhysicalBound", [&] { return m.getLowerPhysicalBound(l, f, h, v); });
      q.get("upperPhysicalBound", [&] { return m.getUpperPhysicalBound(l, f, h, v); });
      b.raw(v, q.str());
    }
    o.raw("bounds", b.str());
  }
  std::cout << o.str() << std::endl;
  return 0;
}
