// C16 — tfel::math::ieee754::{fpclassify,isnan,isfinite} are bit-exact (DESIGN.md §4.1)
//
// float: all 2^32 patterns (multi-threaded).  double / x87 long double: every exponent x both
// signs (x explicit integer bit 0/1 for long double) x {0, 1, all ones, every single bit,
// low/high halves, random mantissas}.
// Two references, both independent of the compiler's builtin classification (which -Ofast
// may fold away):
//   (1) a decoder written here with masks on the integer image of the value,
//   (2) glibc's out-of-line __fpclassifyf/__fpclassify/__fpclassifyl and __isnan*/__finite*
//       entered through their symbols.
// isfinite is judged against "class is zero, subnormal or normal" (the definition in the
// documentation of the functions and in C): glibc's own __finitel answers 1 for x87
// unnormals although its __fpclassifyl says FP_NAN, so __finitel is recorded, not judged.
//
// The event lines follow the vfh.hxx protocol but are produced here: one event per pattern
// would be 4e9 lines, so counts are aggregated per (api, class of the reference).
#define VFH_MAIN
#include "vfh.hxx"
#include <atomic>
#include <cfloat>
#include <mutex>
#include <thread>
#include "TFEL/Math/General/IEEE754.hxx"

extern "C" {
int __fpclassifyf(float);
int __fpclassify(double);
int __fpclassifyl(long double);
int __isnanf(float);
int __isnan(double);
int __isnanl(long double);
int __finitef(float);
int __finite(double);
int __finitel(long double);
}

namespace ie = tfel::math::ieee754;

enum Cls { C_ZERO = 0, C_SUB, C_NORMAL, C_INF, C_NAN, C_PSEUDO_DENORMAL, C_UNNORMAL, C_PSEUDO_INF, C_PSEUDO_NAN, NCLS };
static const char* CLS[NCLS] = {"zero", "subnormal", "normal", "infinite", "nan",
                                "x87-pseudo-denormal", "x87-unnormal", "x87-pseudo-infinity", "x87-pseudo-nan"};
// FP_* value the property demands for each stratum.  For the x87-only encodings the demand
// is "as the platform C library does": the expected value is what glibc answers, and the
// decoder states what the hardware does with them (387 and later: pseudo-denormals are
// accepted as normal numbers with the minimum exponent, the other three are invalid
// operands, i.e. not numbers).
static int fp_of(Cls c) {
  switch (c) {
    case C_ZERO: return FP_ZERO;
    case C_SUB: return FP_SUBNORMAL;
    case C_NORMAL: case C_PSEUDO_DENORMAL: return FP_NORMAL;
    case C_INF: return FP_INFINITE;
    default: return FP_NAN;
  }
}

static Cls decode_f(uint32_t b) {
  const uint32_t e = (b & 0x7f800000u) / 0x00800000u, m = b & 0x007fffffu;
  if (e == 0) return m == 0 ? C_ZERO : C_SUB;
  if (e == 255) return m == 0 ? C_INF : C_NAN;
  return C_NORMAL;
}
static Cls decode_d(uint64_t b) {
  const uint64_t e = (b & 0x7ff0000000000000ull) / 0x0010000000000000ull, m = b & 0x000fffffffffffffull;
  if (e == 0) return m == 0 ? C_ZERO : C_SUB;
  if (e == 2047) return m == 0 ? C_INF : C_NAN;
  return C_NORMAL;
}
static Cls decode_ld(uint16_t se, uint64_t m) {
  const unsigned e = se & 0x7fffu;
  const bool ib = (m & 0x8000000000000000ull) != 0;
  const uint64_t fr = m & 0x7fffffffffffffffull;
  if (e == 0) {
    if (!ib) return fr == 0 ? C_ZERO : C_SUB;
    return C_PSEUDO_DENORMAL;
  }
  if (e == 0x7fff) {
    if (ib) return fr == 0 ? C_INF : C_NAN;
    return fr == 0 ? C_PSEUDO_INF : C_PSEUDO_NAN;
  }
  return ib ? C_NORMAL : C_UNNORMAL;
}

enum Api { A_FPCLASSIFY = 0, A_ISNAN, A_ISFINITE, NAPI };
static const char* APIN[NAPI] = {"fpclassify", "isnan", "isfinite"};

struct Witness { unsigned long long hi, lo; int got, dec, libc; };
struct Tally {
  unsigned long long n[NAPI][NCLS] = {}, bad[NAPI][NCLS] = {};
  unsigned long long finitel_differs = 0;  // recorded only
  std::vector<Witness> w[NAPI][NCLS];
  void add(const Tally& o) {
    for (int a = 0; a < NAPI; ++a) for (int c = 0; c < NCLS; ++c) {
      n[a][c] += o.n[a][c]; bad[a][c] += o.bad[a][c];
      for (auto& x : o.w[a][c]) if (w[a][c].size() < 3) w[a][c].push_back(x);
    }
    finitel_differs += o.finitel_differs;
  }
  inline void judge(Api a, Cls c, int got, int dec, int libc, unsigned long long hi, unsigned long long lo) {
    n[a][c]++;
    if (got != dec || got != libc) {
      bad[a][c]++;
      if (w[a][c].size() < 3) w[a][c].push_back({hi, lo, got, dec, libc});
    }
  }
};

static inline void one_f(Tally& t, uint32_t b) {
  float x; std::memcpy(&x, &b, 4);
  const Cls c = decode_f(b);
  const int want = fp_of(c);
  t.judge(A_FPCLASSIFY, c, ie::fpclassify(x), want, __fpclassifyf(x), 0, b);
  t.judge(A_ISNAN, c, ie::isnan(x) ? 1 : 0, want == FP_NAN, __isnanf(x) != 0, 0, b);
  t.judge(A_ISFINITE, c, ie::isfinite(x) ? 1 : 0, want != FP_NAN && want != FP_INFINITE, __finitef(x) != 0, 0, b);
}
static inline void one_d(Tally& t, uint64_t b) {
  double x; std::memcpy(&x, &b, 8);
  const Cls c = decode_d(b);
  const int want = fp_of(c);
  t.judge(A_FPCLASSIFY, c, ie::fpclassify(x), want, __fpclassify(x), 0, b);
  t.judge(A_ISNAN, c, ie::isnan(x) ? 1 : 0, want == FP_NAN, __isnan(x) != 0, 0, b);
  t.judge(A_ISFINITE, c, ie::isfinite(x) ? 1 : 0, want != FP_NAN && want != FP_INFINITE, __finite(x) != 0, 0, b);
}
#if LDBL_MANT_DIG == 64
static inline void one_ld(Tally& t, uint16_t se, uint64_t m, uint64_t pad) {
  unsigned char raw[sizeof(long double)];
  std::memcpy(raw, &m, 8); std::memcpy(raw + 8, &se, 2);
  std::memcpy(raw + 10, &pad, sizeof(long double) - 10);  // padding bytes carry garbage on purpose
  long double x; std::memcpy(&x, raw, sizeof x);
  const Cls c = decode_ld(se, m);
  const int want = fp_of(c);
  const int cl = __fpclassifyl(x);
  t.judge(A_FPCLASSIFY, c, ie::fpclassify(x), want, cl, se, m);
  t.judge(A_ISNAN, c, ie::isnan(x) ? 1 : 0, want == FP_NAN, __isnanl(x) != 0, se, m);
  // reference for isfinite: the class (see the header comment)
  const int fin = (cl == FP_ZERO || cl == FP_SUBNORMAL || cl == FP_NORMAL);
  t.judge(A_ISFINITE, c, ie::isfinite(x) ? 1 : 0, want != FP_NAN && want != FP_INFINITE, fin, se, m);
  if ((__finitel(x) != 0) != (fin != 0)) t.finitel_differs++;
}
#endif

static void emit(const char* type, const Tally& t, bool exhaustive) {
  for (int a = 0; a < NAPI; ++a) {
    char api[64]; std::snprintf(api, sizeof api, "%s<%s>", APIN[a], type);
    for (int c = 0; c < NCLS; ++c) {
      if (!t.n[a][c]) continue;
      for (auto& w : t.w[a][c]) {
        vf::J j; j.s("type", type);
        char b[64]; std::snprintf(b, sizeof b, "0x%04llx:%016llx", w.hi, w.lo); j.s("bits(se:mantissa or value)", b);
        j.i("tfel", w.got).i("decoder", w.dec).i("glibc", w.libc).i("FP_NAN", FP_NAN).i("FP_INFINITE", FP_INFINITE)
            .i("FP_ZERO", FP_ZERO).i("FP_SUBNORMAL", FP_SUBNORMAL).i("FP_NORMAL", FP_NORMAL);
        vf::Reporter::emit("viol", api, CLS[c], w.lo, 1, 0.5L, j.str(), "differs from the bit decoder and/or the glibc symbol");
      }
      // every pattern is a distinct case by construction
      std::printf("@@VF {\"ev\":\"sum\",\"api\":\"%s\",\"stratum\":\"%s\",\"n\":%llu,\"distinct\":%llu,\"skipped\":0,\"viol\":%llu,\"max_ratio\":%d}\n",
                  api, CLS[c], t.n[a][c], t.n[a][c], t.bad[a][c], t.bad[a][c] ? 2 : 0);
    }
  }
  std::printf("@@VF {\"ev\":\"note\",\"what\":\"%s:%s\",\"n\":1}\n", type, exhaustive ? "exhaustive" : "structured");
  if (t.finitel_differs)
    std::printf("@@VF {\"ev\":\"note\",\"what\":\"%s:glibc __finitel differs from class-based finiteness (recorded)\",\"n\":%llu}\n", type, t.finitel_differs);
  std::fflush(stdout);
}

// a few cases written out for the evidence file (what a case looks like)
static void sample(const char* type, const char* cls, unsigned long long hi, unsigned long long lo, int tfel, int dec, int libc) {
  char api[64]; std::snprintf(api, sizeof api, "fpclassify<%s>", type);
  vf::J j; j.s("type", type);
  char b[64]; std::snprintf(b, sizeof b, "0x%04llx:%016llx", hi, lo); j.s("bits(se:mantissa or value)", b);
  j.i("tfel", tfel).i("decoder", dec).i("glibc", libc);
  vf::Reporter::emit("sample", api, cls, lo, 0, 0.5L, j.str(), "");
}
static void samples() {
  for (uint32_t b : {0x00000001u, 0x7f800000u, 0xffc00001u, 0x3f800000u}) {
    float x; std::memcpy(&x, &b, 4);
    sample("float", CLS[decode_f(b)], 0, b, ie::fpclassify(x), fp_of(decode_f(b)), __fpclassifyf(x));
  }
#if LDBL_MANT_DIG == 64
  const struct { uint16_t se; uint64_t m; } P[] = {{0, 0x8000000000000000ull}, {0x3fff, 0x4000000000000000ull}, {0x7fff, 0}, {0x7fff, 0x8000000000000000ull}};
  for (auto& p : P) {
    unsigned char raw[sizeof(long double)] = {0}; std::memcpy(raw, &p.m, 8); std::memcpy(raw + 8, &p.se, 2);
    long double x; std::memcpy(&x, raw, sizeof x);
    sample("ldouble", CLS[decode_ld(p.se, p.m)], p.se, p.m, ie::fpclassify(x), fp_of(decode_ld(p.se, p.m)), __fpclassifyl(x));
  }
#endif
}

template <typename F>
static Tally parallel(unsigned nthreads, unsigned long long nblocks, F&& body) {
  Tally total; std::mutex mu; std::atomic<unsigned long long> next{0};
  std::vector<std::thread> th;
  for (unsigned k = 0; k < nthreads; ++k)
    th.emplace_back([&] {
      Tally t;
      for (;;) { const unsigned long long b = next++; if (b >= nblocks) break; body(t, b); }
      std::lock_guard<std::mutex> l(mu); total.add(t);
    });
  for (auto& x : th) x.join();
  return total;
}

int main(int argc, char** argv) {
  vf::Args a(argc, argv);
  unsigned nth = unsigned(std::atoi(a.get("--threads", "0").c_str()));
  if (!nth) nth = std::max(1u, std::thread::hardware_concurrency());
  const std::string what = "," + a.get("--what", "float,double,ldouble") + ",";
  auto wants = [&](const char* t) { return what.find(std::string(",") + t + ",") != std::string::npos; };
  const long nrand = a.cases;  // random mantissas per (sign, exponent[, integer bit])
  samples();
  if (wants("float")) {
    // exhaustive: 256 blocks of 2^24 patterns
    Tally t = parallel(nth, 256, [](Tally& tt, unsigned long long blk) {
      const uint32_t base = uint32_t(blk) << 24;
      for (uint32_t i = 0; i < (1u << 24); ++i) one_f(tt, base | i);
    });
    emit("float", t, true);
  }
  if (wants("double")) {
    Tally t = parallel(nth, 4096, [&](Tally& tt, unsigned long long blk) {
      const uint64_t top = uint64_t(blk) << 52;  // sign + exponent
      const uint64_t M = (1ull << 52) - 1;
      auto go = [&](uint64_t m) { one_d(tt, top | (m & M)); };
      go(0); go(1); go(M); go(M - 1); go(M >> 1); go((M >> 1) + 1); go(0xffffffffull); go(M ^ 0xffffffffull);
      for (int k = 0; k < 52; ++k) { go(1ull << k); go(M ^ (1ull << k)); go((1ull << k) | 1); }
      vf::Rng g(a.seed, 1601, blk);
      for (long k = 0; k < nrand; ++k) go(g.u64());
    });
    emit("double", t, false);
  }
#if LDBL_MANT_DIG == 64
  if (wants("ldouble")) {
    // blocks: sign(1) x exponent(15) x integer bit(1)
    Tally t = parallel(nth, 1ull << 17, [&](Tally& tt, unsigned long long blk) {
      const uint16_t se = uint16_t(blk >> 1);
      const uint64_t ib = (blk & 1) << 63;
      const uint64_t M = (1ull << 63) - 1;
      vf::Rng g(a.seed, 1602, blk);
      auto go = [&](uint64_t fr) { one_ld(tt, se, ib | (fr & M), g.u64()); };
      go(0); go(1); go(M); go(M - 1); go(M >> 1); go((M >> 1) + 1); go(0xffffffffull); go(M ^ 0xffffffffull);
      for (int k = 0; k < 63; ++k) { go(1ull << k); go(M ^ (1ull << k)); }
      for (long k = 0; k < std::max(1l, nrand / 8); ++k) go(g.u64());
    });
    emit("ldouble", t, false);
  }
#else
  std::printf("@@VF {\"ev\":\"note\",\"what\":\"long double is not the x87 format on this platform\",\"n\":1}\n");
#endif
  return 0;
}
