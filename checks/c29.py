"""C29 — ThreadPool runs every task exactly once and wait() is complete (DESIGN.md §4.5)."""
import re
import vfcore
from vfcore import VERIF, REPO

META = {
    "engine": "conc", "level": "exploration", "design_ref": "DESIGN.md §4.5 C29",
    "technique": "seeded schedule-perturbed histories on the real ThreadPool.cxx (hook points), offline history checker over a ticketed event log (exactly-once, wait completeness, destructor drain, futures), repeated in ThreadSanitizer and ASan+UBSan builds",
    "text": "Thousands of short histories (1..16 workers, 0..3000 tasks with unique ids, throwing and self-submitting tasks, several client threads calling addTask and wait concurrently, pools destroyed right after submission) run against the real implementation with seeded delays injected between its critical sections; each history is checked offline. The same workload runs under TSan (any data-race report on the pool is a violation) and ASan+UBSan. Only executed schedules are judged: no claim on all interleavings.",
    "note": "Trusted: the harness's event log (tickets drawn under one mutex, so the order is consistent with happens-before), TSan's interception of pthread primitives. Delays are placed only at the hook points between the pool's critical sections.",
}

SRC = [VERIF / "harness/conc/c29.cxx", REPO / "src/System/ThreadPool.cxx", REPO / "src/System/ThreadedTaskResult.cxx"]


def build(ctx):
    b = {}
    for fl in ("plain", "tsan", "asan"):
        b[fl] = vfcore.compile_cxx("c29", SRC, fl, libs=("TFELException",))
    return b


APIS = ["exactly-once", "wait-complete", "dtor-drains-queue", "no-enqueue-after-stop", "future-result"]


def tsan_reports(txt):
    out = []
    for blk in re.split(r"={18,}", txt):
        m = re.search(r"WARNING: ThreadSanitizer: ([^\n(]+)", blk)
        if not m:
            continue
        frames = re.findall(r"#\d+ (\S+) ([^\s:]+):(\d+)", blk)
        fr = [f for f in frames if "/repo/" in f[1] or "TFEL" in f[1]]
        top = ",".join("%s@%s" % (f[0][:40], f[1].split("/")[-1]) for f in fr[:2]) or "?"
        out.append((m.group(1).strip(), top, blk[:3000]))
    return out


def run(ctx):
    b = build(ctx)
    ctx.cov["rule"] = ("history = (scenario, workers 1..16, tasks 0..N with unique ids, clients 1..4, seeded delay plan over the 6 hook sites); "
                       "distinct = distinct interleaving signature (hash of the sequence of hook sites/worker ids in ticket order); "
                       "non-trivial = every history (even 0 tasks exercises construct/wait/destroy)")
    req = [(a, None, 50) for a in APIS]
    n = ctx.n(600, 60000)
    ctx.run_events(b["plain"], n, shards=8, require=req, timeout=1200)
    ctx.run_events(b["asan"], ctx.n(120, 8000), shards=4, require=[], timeout=1200)
    # TSan: run and also parse its reports (halt_on_error=0 so that every report is seen)
    nt = ctx.n(120, 6000)
    shards = 4
    per = (nt + shards - 1) // shards

    def one(i):
        return i, vfcore.run([b["tsan"], "--seed", ctx.seed, "--cases", per, "--shard", i, "--nshards", shards, "--tier", ctx.tier],
                             timeout=1800, cwd=ctx.work, env={"TSAN_OPTIONS": "halt_on_error=0:exitcode=0:report_signal_unsafe=1"})
    summ = {}
    nrep = 0
    for i, r in vfcore.pmap(one, range(shards), workers=shards):
        for kind, top, blk in tsan_reports(r.err):
            nrep += 1
            ctx.violation("tsan:%s:%s" % (kind.replace(" ", "-"), top), "ThreadSanitizer: %s\n%s" % (kind, blk), {"shard": i, "report": blk})
        ctx.fold_events(r, summ, where="c29.tsan shard %d" % i)
    for (api, st), s in summ.items():
        ctx.cov["evaluations"] += s["n"]
    ctx.cov["tsan"] = {"histories": sum(s["n"] for (a, _), s in summ.items() if a == "exactly-once"), "reports": nrep}
    c = ctx.cov.get("counters", {})
    ctx.require(c.get("note:hook_events", 0) > 1000, "hook points were not reached (hooks off?)")
    ctx.require(c.get("note:max_concurrent_8", 0) + c.get("note:max_concurrent_4", 0) > 0, "no history reached 4 concurrent tasks")
