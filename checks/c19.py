"""C19 — kriging interpolants reproduce their training data."""
import vfcore

META = {
    "engine": "math", "level": "exploration", "design_ref": "DESIGN.md §4.1 C19",
    "technique": "ASan+UBSan harness building Kriging<1,2,3>, Kriging1D/2D/3D, FactorizedKriging<1,1>/<1,2>, "
                 "FactorizedKriging1D1D/1D2D/1D3D and KrigedFunction<1,2,3> (through tfel::math::Evaluator) with nugget 0 and "
                 "evaluating them at every training point; tolerance K eps kappa max|y| with kappa from an independently "
                 "assembled long-double dual-kriging matrix",
    "text": "Point sets of nb+1..40 points (nb = number of drift functions) in 1 to 4 coordinates: random, truncated lattices, "
            "clusters (minimum separation 2e-3 of the box), boxes of size 1e-2..1e3 at offsets up to 10 sizes, anisotropic "
            "aspect ratios; values = trend + noise over 1e-6..1e6.  The largest |k(x_i)-y_i| over the training points is "
            "compared with 256 eps kappa_inf(M) max|y|.  Collinear/coplanar sets and sets with eps*kappa > 1e-4 are skipped and "
            "counted (with whether the library threw or answered); sets with n <= nb are accepted when refused "
            "(KrigingErrorInsufficientData or another exception) and judged like the others when answered.  Held on the "
            "cases executed only.",
    "note": "Trusted: the restatement of the covariance/drift models in harness/math/c19.cxx (1D |h|^3, 2D h^2 log(h^2)/2 with the "
            "10 eps cut-off, 3D |h|, piecewise-linear |h|; drifts 1,x,y,z; per-axis normalisation to [0,1] for the library "
            "classes) and the long-double Gauss-Jordan inverse with full pivoting.",
}

SRC = vfcore.VERIF / "harness/math/c19.cxx"
LIBS = ("TFELMathKriging", "TFELMathParser", "TFELMath", "TFELException")
SUBJECTS = ["Kriging<1>", "Kriging<2>", "Kriging<3>", "Kriging1D", "Kriging2D", "Kriging3D", "FactorizedKriging<1,1>",
            "FactorizedKriging<1,2>", "FactorizedKriging1D1D", "FactorizedKriging1D2D", "FactorizedKriging1D3D",
            "Kriging1D(tfel::math::vector)", "Kriging2D(tfel::math::vector)", "Kriging3D(tfel::math::vector)",
            "FactorizedKriging1D1D(tfel::math::vector)", "FactorizedKriging1D2D(tfel::math::vector)", "FactorizedKriging1D3D(tfel::math::vector)",
            "KrigedFunction<1>/Evaluator", "KrigedFunction<2>/Evaluator", "KrigedFunction<3>/Evaluator"]


def build(ctx):
    bins = {"asan": vfcore.compile_cxx("c19", [SRC], "asan", libs=LIBS)}
    if ctx.thorough:
        bins["O2"] = vfcore.compile_cxx("c19", [SRC], "O2", libs=LIBS)
    return bins


def run(ctx):
    bins = build(ctx)
    ctx.cov["rule"] = ("case = (subject, point-set kind, n, points, values) from (VERIF_SEED, index); one event per model carrying the worst "
                       "training-point error; distinct = hash of points and values; non-trivial = eps*kappa <= 1e-4 (others are skipped "
                       "and counted under the subject and under ill-conditioned/*)")
    req = [(s, None, 30) for s in SUBJECTS]
    req += [(s, "lattice", 3) for s in SUBJECTS] + [(s, "random", 3) for s in SUBJECTS]
    summ = ctx.run_events(bins["asan"], ctx.n(8400, 126000), require=req, timeout=3600)
    if ctx.thorough:
        ctx.run_events(bins["O2"], 126000, require=[], timeout=3600)
    refused = sum(s["skipped"] for (a, _), s in summ.items() if a.startswith("few-points/refused"))
    ctx.require(refused > 0, "no few-points case was refused or observed")
    ctx.assumptions += ["relative error is measured against max|y| of the training values (the norm of the right-hand side of the dual system)",
                        "point sets closer than 2e-3 of the box size are not generated (well-separated points)"]
