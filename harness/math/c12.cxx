// C12 — GaussKronrodQuadrature and RungeKutta2/4/42/54 achieve their stated order (DESIGN.md §4.1)
//
// Gauss–Kronrod (15 points): random polynomials of degree <= 22 written in the local variable
// u = (x-m)/s of the interval, so that the exact integral s * sum_{k even} 2 c_k/(k+1) is known
// without cancellation; the integrand is evaluated in long double at the abscissa the library
// passes and rounded to the library's scalar type.  Tolerance: K eps (b-a) sum |c_k| (1 + k
// (1 + max|x|/s)): the k-term is the sensitivity of p to the rounding of the abscissae (the
// library's own nodes are 15-digit decimals), max|x|/s the conditioning of an interval far from 0.
// Adaptive version: judged only when a value is returned, against requested tolerance +
// rounding.  Analytic integrands: a seed-independent grid for e^{-x^2}, 1/(1+x^2), cos(wx+p)
// (finite, half-infinite and infinite ranges; infinity spelled inf and numeric_limits::max),
// plus random members of families whose derivatives have constant sign (e^{cx}, x^m on
// [a,b]>0) for which |K15-G7| provably bounds the K15 error.
//
// Runge–Kutta: y' = p(t) with deg p < order, p given in u = (t-t0)/span.  Exactness is judged
// against y0 + int_{t0}^{t_reached} p with t_reached the *reported* time (RK2/RK4: get_t()) or
// the largest stage time observed by the right-hand side (RK42/RK54 do not report a time);
// "final time" is judged separately: t_reached vs requested final time.
#define VFH_MAIN
#include "vfh.hxx"
#include <algorithm>
#include <functional>
#include "TFEL/Math/NumericalIntegration/GaussKronrodQuadrature.hxx"
#include "TFEL/Math/RungeKutta2.hxx"
#include "TFEL/Math/RungeKutta4.hxx"
#include "TFEL/Math/RungeKutta42.hxx"
#include "TFEL/Math/RungeKutta54.hxx"

typedef long double L;
namespace tfm = tfel::math;
static vf::Reporter R;
static const L PI = 3.141592653589793238462643383279502884L;

struct Poly {
  int deg;
  L c[24];
  L m, s;  // local variable u = (x-m)/s
  L eval(L x) const { const L u = (x - m) / s; L r = 0; for (int k = deg; k >= 0; --k) r = r * u + c[k]; return r; }
  L integral_full() const { L r = 0; for (int k = 0; k <= deg; k += 2) r += 2 * c[k] / (k + 1); return r * s; }  // u from -1 to 1
  L integral_u(L u0, L u1) const { L r = 0; for (int k = 0; k <= deg; ++k) r += c[k] * (std::pow(u1, L(k + 1)) - std::pow(u0, L(k + 1))) / (k + 1); return r * s; }
  L sumabs() const { L r = 0; for (int k = 0; k <= deg; ++k) r += std::fabs(c[k]); return r; }
  L sumkabs() const { L r = 0; for (int k = 0; k <= deg; ++k) r += k * std::fabs(c[k]); return r; }
};

static Poly rand_poly(vf::Rng& g, int deg, L m, L s) {
  Poly p; p.deg = deg; p.m = m; p.s = s;
  const L sc = g.logmag(-6, 6);
  const bool sparse = g.irange(0, 3) == 0;
  for (int k = 0; k <= deg; ++k) p.c[k] = (sparse && k != deg && g.coin()) ? 0 : sc * g.normal();
  if (p.c[deg] == 0) p.c[deg] = sc;
  return p;
}

template <typename T> struct EpsOf { static constexpr L v = std::numeric_limits<T>::epsilon(); };
// the Kronrod/Gauss nodes and weights are double literals: long double runs cannot be more
// accurate than double (stated in the evidence); they are judged with the double epsilon
template <> struct EpsOf<long double> { static constexpr L v = std::numeric_limits<double>::epsilon(); };

// ------------------------------------------------------------------------- GK, polynomials
template <typename T>
static void gk_poly(const vf::Args& a, uint64_t idx, const char* tname) {
  vf::Rng g(a.seed, 1200 + sizeof(T), idx);
  const L eps = EpsOf<T>::v;
  const int deg = (idx % 2) ? g.irange(0, 13) : g.irange(14, 22);
  const char* S = deg <= 13 ? "deg<=13" : "deg14..22";
  char api[96];
  auto nm = [&](const char* f) { std::snprintf(api, sizeof api, "%s<%s>", f, tname); vf::set_case(api, S, idx); return api; };
  const L len = g.logmag(-6, 6);
  const L off = g.irange(0, 2) == 0 ? 0 : g.sign() * g.logmag(-3, 6);
  T ta = T(off - len / 2), tb = T(off + len / 2);
  if (!(tb > ta)) { R.skip(nm("gk/domain"), S); return; }
  const L A = ta, B = tb, m = (A + B) / 2, s = (B - A) / 2;
  const L xmax = std::max(std::fabs(A), std::fabs(B));
  if (eps * (xmax / s) * std::max(deg, 1) > 1e-4L) { R.skip(nm("gk/ill-conditioned-interval"), S); return; }
  const Poly p = rand_poly(g, deg, m, s);
  const L exact = p.integral_full();
  // the library's nodes and weights are 15-digit decimal literals (their sum is 2 - 6e-15, i.e.
  // 13 eps relative for a constant integrand in double): K is sized on that, not on eps/2 roundings
  const L K = sizeof(T) == 4 ? 256 : 2048;
  const L scale = (B - A) * (p.sumabs() + p.sumkabs() * (1 + xmax / s));
  long calls = 0;
  auto f = [&](const T x) -> T { ++calls; return T(p.eval(L(x))); };
  const uint64_t h = vf::hash_arr(p.c, size_t(deg + 1), vf::hash_bytes(&ta, sizeof ta, vf::hash_bytes(&tb, sizeof tb)));
  auto dump = [&] { vf::J j; j.s("T", tname).i("deg", deg).f("a", ta).f("b", tb).arr("c(u^k)", p.c, p.c + deg + 1).f("exact", exact); return j.str(); };
  // --- single panel
  const auto r1 = tfm::gauss_kronrod_integrate(f, ta, tb);
  R.expect(nm("gk(f,a,b)/has-value"), S, idx, h, r1.has_value() && calls == 15, dump, "finite bounds: a value and exactly 15 evaluations");
  if (!r1.has_value()) return;
  const L i1 = std::get<0>(*r1), e1 = std::get<1>(*r1);
  R.check(nm("gk(f,a,b)/exact-degree<=22"), S, idx, h, std::fabs(i1 - exact), K * eps * scale, dump, "15-point Kronrod value vs exact integral");
  if (deg <= 13) R.check(nm("gk(f,a,b)/error-estimate"), S, idx, h, std::fabs(e1), K * eps * scale, dump, "|K15-G7| for degree <= 13");
  else R.expect(nm("gk(f,a,b)/error-estimate"), S, idx, h, e1 >= 0 && std::isfinite((double)e1), dump, "estimate is a finite non-negative number");
  const auto r2 = tfm::gauss_kronrod_integrate(f, tb, ta);
  R.expect(nm("gk(f,b,a)/antisymmetric"), S, idx, h, r2.has_value() && L(std::get<0>(*r2)) == -i1 && L(std::get<1>(*r2)) == e1, dump,
           "swapped bounds: value changes sign bitwise, same estimate");
  // --- adaptive
  const L req = scale * g.logmag(-14, -3);
  const std::size_t nref = std::size_t(g.irange(1, 6));
  const auto r3 = tfm::gauss_kronrod_integrate(f, ta, tb, {.absolute_tolerance = T(req), .maximum_number_of_refinements = nref});
  const auto r4 = tfm::gauss_kronrod_integrate(f, tb, ta, {.absolute_tolerance = T(req), .maximum_number_of_refinements = nref});
  if (r3.has_value()) {
    R.check(nm("gk(f,a,b,params)/within-tolerance"), S, idx, h, std::fabs(L(*r3) - exact), L(T(req)) + K * eps * scale, dump,
            "adaptive value vs exact integral when a value is returned");
  } else R.skip(nm("gk(f,a,b,params)/within-tolerance"), S);
  R.expect(nm("gk(f,b,a,params)/antisymmetric"), S, idx, h,
           r3.has_value() == r4.has_value() && (!r3.has_value() || L(*r4) == -L(*r3)), dump, "swapped bounds");
  const auto r5 = tfm::gauss_kronrod_integrate(f, ta, tb, {.absolute_tolerance = T(req), .maximum_number_of_refinements = 0});
  R.expect(nm("gk(f,a,b,params)/zero-refinements"), S, idx, h, !r5.has_value(), dump, "no refinement allowed: no value");
}

// ------------------------------------------------------------------------- GK, NaN bounds
template <typename T>
static void gk_nan(const vf::Args& a, uint64_t idx, const char* tname) {
  vf::Rng g(a.seed, 1210 + sizeof(T), idx);
  char api[96];
  const char* S = "nan-bounds";
  auto nm = [&](const char* f) { std::snprintf(api, sizeof api, "%s<%s>", f, tname); vf::set_case(api, S, idx); return api; };
  const T nan = g.coin() ? std::numeric_limits<T>::quiet_NaN() : -std::numeric_limits<T>::quiet_NaN();
  const T inf = std::numeric_limits<T>::infinity();
  const T other[] = {T(0), T(g.uni(-10, 10)), inf, -inf, std::numeric_limits<T>::max(), nan};
  long calls = 0;
  auto f = [&](const T x) -> T { ++calls; return T(1) / (1 + x * x); };
  bool ok = true; int bad = -1;
  for (int k = 0; k < 6; ++k) for (int o = 0; o < 2; ++o) {
    const T lo = o ? other[k] : nan, hi = o ? nan : other[k];
    const auto r1 = tfm::gauss_kronrod_integrate(f, lo, hi);
    const auto r2 = tfm::gauss_kronrod_integrate(f, lo, hi, {.absolute_tolerance = T(1e-6), .maximum_number_of_refinements = 4});
    if (r1.has_value() || r2.has_value()) { ok = false; bad = 2 * k + o; }
  }
  // same-signed infinities on both sides: no value either (empty / undefined range)
  for (T s : {inf, -inf}) {
    const auto r1 = tfm::gauss_kronrod_integrate(f, s, s);
    const auto r2 = tfm::gauss_kronrod_integrate(f, s, s, {.absolute_tolerance = T(1e-6), .maximum_number_of_refinements = 4});
    if (r1.has_value() || r2.has_value()) { ok = false; bad = 100; }
  }
  const uint64_t h = vf::hash_bytes(&nan, sizeof nan, idx);
  R.expect(nm("gk/nan-bounds"), S, idx, h, ok, [&] { vf::J j; j.s("T", tname).i("failing_combination", bad); return j.str(); },
           "a NaN bound must give no value");
}

// ------------------------------------------------------------------------- GK, analytic integrands (double)
struct Analytic {
  const char* name;
  std::function<double(double)> f;
  std::function<L(L, L)> F;  // exact integral from a to b (a,b may be +-inf)
  std::function<L(L, L)> absint;  // bound of the integral of |f| for the rounding term
};
static L erf_int(L a, L b) {
  // (sqrt(pi)/2) (erf b - erf a) without cancellation for same-signed large arguments
  const L h = std::sqrt(PI) / 2;
  if (a > 0 && b > 0) return h * (std::erfc(a) - std::erfc(b));
  if (a < 0 && b < 0) return h * (std::erfc(-b) - std::erfc(-a));
  return h * (std::erf(b) - std::erf(a));
}
static L inf_of(int code) { return code > 0 ? INFINITY : -INFINITY; }

static void gk_analytic_grid(const vf::Args& a) {
  // seed independent (the reliability of |K15-G7| for these integrands was established on this grid)
  (void)a;
  std::vector<Analytic> fs;
  fs.push_back({"exp(-x^2)", [](double x) { return std::exp(-x * x); }, [](L p, L q) { return erf_int(p, q); }, [](L p, L q) { return std::fabs(erf_int(p, q)); }});
  fs.push_back({"1/(1+x^2)", [](double x) { return 1 / (1 + x * x); }, [](L p, L q) { return std::atan(q) - std::atan(p); }, [](L p, L q) { return std::fabs(std::atan(q) - std::atan(p)); }});
  static const double W[] = {1, 5, 25}, PH[] = {0, 0.7};
  static char names[6][32];
  int z = 0;
  for (double w : W) for (double ph : PH) {
    std::snprintf(names[z], sizeof names[z], "cos(%gx+%g)", w, ph);
    fs.push_back({names[z], [w, ph](double x) { return std::cos(w * x + ph); },
                  [w, ph](L p, L q) { return (std::sin(L(w) * q + L(ph)) - std::sin(L(w) * p + L(ph))) / L(w); },
                  [](L p, L q) { return std::fabs(q - p); }});
    ++z;
  }
  static const double PT[] = {-10, -3, -1, -0.5, 0, 0.25, 1, 2, 5, 10};
  static const double TOL[] = {1e-6, 1e-10};
  static const std::size_t NREF[] = {3, 8, 12};
  const double inf = std::numeric_limits<double>::infinity(), big = std::numeric_limits<double>::max();
  uint64_t idx = 0;
  for (auto& fn : fs) {
    const bool osc = fn.name[0] == 'c';
    // finite pairs, both orientations
    std::vector<std::pair<double, double>> ranges;
    for (double p : PT) for (double q : PT) if (p != q) ranges.push_back({p, q});
    const size_t nfinite = ranges.size();
    if (!osc) {
      for (double p : PT) for (double i : {inf, -inf, big, -big}) { ranges.push_back({p, i}); ranges.push_back({i, p}); }
      for (double i : {inf, big}) for (double jn : {inf, big}) { ranges.push_back({-i, jn}); ranges.push_back({jn, -i}); }
    }
    for (size_t r = 0; r < ranges.size(); ++r) for (double tol : TOL) for (std::size_t nr : NREF) {
      ++idx;
      const double lo = ranges[r].first, hi = ranges[r].second;
      const char* S = r < nfinite ? "finite" : (std::fabs(lo) >= big && std::fabs(hi) >= big) ? "infinite" : "half-infinite";
      char api[96]; std::snprintf(api, sizeof api, "gk(f,a,b,params)/%s", fn.name);
      vf::set_case(api, S, idx);
      auto tol_inf = [&](double v) -> L { return std::fabs(v) >= big ? L(v > 0 ? INFINITY : -INFINITY) : L(v); };
      const L ea = tol_inf(lo), eb = tol_inf(hi);
      const L exact = fn.F(ea, eb);
      long calls = 0;
      auto f = [&](const double x) { ++calls; return fn.f(x); };
      const auto res = tfm::gauss_kronrod_integrate(f, lo, hi, {.absolute_tolerance = tol, .maximum_number_of_refinements = nr});
      const uint64_t h = vf::hash_bytes(&lo, 8, vf::hash_bytes(&hi, 8, vf::hash_bytes(&tol, 8, nr)));
      auto dump = [&] { vf::J j; j.s("f", fn.name).f("a", lo).f("b", hi).f("absolute_tolerance", tol).i("max_refinements", (long long)nr).f("exact", exact).i("evaluations", calls); if (res.has_value()) j.f("got", *res); return j.str(); };
      if (!res.has_value()) { R.skip(api, S); continue; }
      const L rounding = 256 * std::numeric_limits<double>::epsilon() * (fn.absint(ea, eb) + std::fabs(exact));
      R.check(api, S, idx, h, std::fabs(L(*res) - exact), L(tol) + rounding, dump, "returned value vs closed form, requested absolute tolerance");
      // sign change on swapped bounds
      const auto rev = tfm::gauss_kronrod_integrate(f, hi, lo, {.absolute_tolerance = tol, .maximum_number_of_refinements = nr});
      R.expect("gk(f,b,a,params)/antisymmetric<double>", S, idx, h, rev.has_value() && *rev == -*res, dump, "swapped (possibly infinite) bounds");
    }
    // non-adaptive call on unbounded ranges: value/sign conventions only
    if (!osc) {
      for (double i : {inf, -inf}) for (double p : PT) {
        ++idx;
        const auto r1 = tfm::gauss_kronrod_integrate(fn.f, p, i), r2 = tfm::gauss_kronrod_integrate(fn.f, i, p);
        const uint64_t h = vf::hash_bytes(&p, 8, vf::hash_bytes(&i, 8));
        auto dump = [&] { vf::J j; j.s("f", fn.name).f("a", p).f("b", i); return j.str(); };
        R.expect("gk(f,a,b)/unbounded-antisymmetric<double>", "half-infinite", idx, h,
                 r1.has_value() && r2.has_value() && std::get<0>(*r1) == -std::get<0>(*r2) && std::get<1>(*r1) == std::get<1>(*r2), dump);
      }
    }
  }
}

static void gk_analytic_random(const vf::Args& a, uint64_t idx) {
  vf::Rng g(a.seed, 1230, idx);
  const double eps = std::numeric_limits<double>::epsilon();
  const bool mono = idx % 2;
  const char* api = mono ? "gk(f,a,b,params)/x^m" : "gk(f,a,b,params)/exp(cx)";
  const char* S = "sign-definite-derivatives";
  vf::set_case(api, S, idx);
  double lo, hi; L exact, absint; std::function<double(double)> fn; double par;
  if (!mono) {
    lo = g.sign() * g.logmag(-2, 1); hi = lo + g.logmag(-2, 1);
    const double c = g.sign() * g.uni(0.1, 30) / (hi - lo), x0 = lo; par = c;
    fn = [c, x0](double x) { return std::exp(c * (x - x0)); };
    exact = std::expm1(L(c) * (L(hi) - L(lo))) / L(c); absint = std::fabs(exact);
  } else {
    const int mm = g.irange(24, 40); par = mm;
    lo = g.logmag(-1, 1); hi = lo * g.uni(1.05, 3);
    fn = [mm](double x) { return std::pow(x, mm); };
    exact = (std::pow(L(hi), L(mm + 1)) - std::pow(L(lo), L(mm + 1))) / (mm + 1); absint = std::fabs(exact);
  }
  if (g.coin()) { std::swap(lo, hi); exact = -exact; }
  const double tol = double(absint) * g.logmag(-12, -4);
  const std::size_t nr = std::size_t(g.irange(1, 10));
  const auto res = tfm::gauss_kronrod_integrate(fn, lo, hi, {.absolute_tolerance = tol, .maximum_number_of_refinements = nr});
  if (!res.has_value()) { R.skip(api, S); return; }
  const uint64_t h = vf::hash_bytes(&lo, 8, vf::hash_bytes(&hi, 8, vf::hash_bytes(&par, 8)));
  auto dump = [&] { vf::J j; j.f("a", lo).f("b", hi).f("parameter(c or m)", par).f("absolute_tolerance", tol).i("max_refinements", (long long)nr).f("exact", exact).f("got", *res); return j.str(); };
  // pow/exp of the harness integrand carry up to ~1 ulp each, amplified by the parameter through the abscissa rounding
  R.check(api, S, idx, h, std::fabs(L(*res) - exact), L(tol) + 1024 * eps * (1 + std::fabs(L(par)) * std::max(std::fabs(L(lo)), std::fabs(L(hi)))) * absint, dump,
          "returned value vs closed form, requested absolute tolerance");
}

// ------------------------------------------------------------------------- Runge–Kutta
struct TooManySteps {};
static const long MAXCALLS = 400000;

template <typename T, int ORDER> struct RhsPoly {
  Poly p[2];
  void make(vf::Rng& g, L t0, L span) { for (auto& q : p) q = rand_poly(g, g.irange(0, ORDER - 1), t0, span); }
  // integral from t0 (u=0) to t
  L integral(int k, L t) const { return p[k].integral_u(0, (t - p[k].m) / p[k].s); }
};

template <typename T> struct Rk2Sys : tfm::RungeKutta2<2, T, Rk2Sys<T>> {
  RhsPoly<T, 2> rhs; long calls = 0;
  void computeF(const T t, const tfm::tvector<2, T>&) { if (++calls > MAXCALLS) throw TooManySteps(); this->f(0) = T(rhs.p[0].eval(L(t))); this->f(1) = T(rhs.p[1].eval(L(t))); }
};
template <typename T> struct Rk4Sys : tfm::RungeKutta4<2, T, Rk4Sys<T>> {
  RhsPoly<T, 4> rhs; long calls = 0;
  void computeF(const T t, const tfm::tvector<2, T>&) { if (++calls > MAXCALLS) throw TooManySteps(); this->f(0) = T(rhs.p[0].eval(L(t))); this->f(1) = T(rhs.p[1].eval(L(t))); }
};

template <typename T, typename Sys, int ORDER>
static void rk_fixed(const vf::Args& a, uint64_t idx, const char* cname, const char* tname) {
  vf::Rng g(a.seed, 1250 + ORDER * 8 + sizeof(T), idx);
  const L eps = std::numeric_limits<T>::epsilon();
  const bool dyadic = idx % 2;
  const char* S = dyadic ? "dyadic-step" : "generic-step";
  char api[96];
  auto nm = [&](const char* f) { std::snprintf(api, sizeof api, "%s<2,%s>/%s", cname, tname, f); vf::set_case(api, S, idx); return api; };
  T begin, end, hstep; long nsteps;
  if (dyadic) {
    // h = 2^e, begin = j h, end = begin + n h: every partial sum is exactly representable
    const int e = g.irange(-12, 6);
    hstep = T(std::ldexp(1.0, e)); nsteps = g.irange(1, 200);
    const long j = g.irange(-1000, 1000);
    begin = T(j * L(hstep)); end = T((j + nsteps) * L(hstep));
  } else {
    nsteps = g.irange(1, 200);
    const L span = g.logmag(-6, 6);
    begin = g.irange(0, 2) == 0 ? T(0) : T(g.sign() * g.logmag(-3, 6));
    end = T(L(begin) + span);
    if (!(end > begin)) { R.skip(nm("domain"), S); return; }
    hstep = T((L(end) - L(begin)) / nsteps);
    if (!(hstep > 0) || !(L(begin) + L(hstep) > L(begin))) { R.skip(nm("domain"), S); return; }
    if (eps * std::max(std::fabs(L(begin)), std::fabs(L(end))) * nsteps > 1e-3L * L(hstep)) { R.skip(nm("domain"), S); return; }  // t += h must resolve h
  }
  const L span = L(end) - L(begin);
  Sys s;
  s.rhs.make(g, begin, span);
  tfm::tvector<2, T> y0; y0(0) = T(g.normal() * g.logmag(-3, 3)); y0(1) = T(0);
  s.set_y(y0); s.set_h(hstep);
  const uint64_t h = vf::hash_bytes(&begin, sizeof begin, vf::hash_bytes(&end, sizeof end, vf::hash_bytes(&hstep, sizeof hstep, vf::hash_arr(s.rhs.p[0].c, 4))));
  auto dump = [&] {
    vf::J j; j.s("T", tname).f("begin", begin).f("end", end).f("h", hstep).i("steps_expected", nsteps).f("reported_final_time", s.get_t())
        .i("rhs_calls", s.calls).arr("p0", s.rhs.p[0].c, s.rhs.p[0].c + s.rhs.p[0].deg + 1).arr("p1", s.rhs.p[1].c, s.rhs.p[1].c + s.rhs.p[1].deg + 1)
        .f("y0", y0(0)).f("y_final_0", s.get_y()(0)).f("y_final_1", s.get_y()(1));
    return j.str();
  };
  try { s.exe(begin, end); } catch (TooManySteps&) { R.expect(nm("terminates"), S, idx, h, false, dump, "more than 4e5 right-hand-side calls"); return; }
  const L tr = s.get_t();
  const L stepsdone = L(s.calls) / (ORDER == 2 ? 2 : 4);
  // exactness w.r.t. the reported time
  L worst = 0, wt = 1;
  for (int k = 0; k < 2; ++k) {
    const L want = L(y0(k)) + s.rhs.integral(k, tr);
    const L tmax = std::max(std::fabs(L(begin)), std::fabs(tr));
    const L sc = std::fabs(L(y0(k))) + (std::fabs(tr - L(begin))) * (s.rhs.p[k].sumabs() + s.rhs.p[k].sumkabs()) * (1 + tmax / span) * std::pow(std::max<L>(1, std::fabs(tr - L(begin)) / span), L(ORDER));
    const L tol = 64 * eps * (stepsdone + 4) * sc, err = std::fabs(L(s.get_y()(k)) - want);
    if (k == 0 || err * wt > worst * tol) { worst = err; wt = tol; }
  }
  R.check(nm("exact-for-degree<order"), S, idx, h, worst, wt, dump, "final state vs y0 + integral of p up to the reported time");
  // final time
  if (dyadic) R.expect(nm("final-time"), S, idx, h, tr == L(end), dump, "reported final time == requested final time (all sums exact)");
  else R.check(nm("final-time"), S, idx, h, std::fabs(tr - L(end)), 8 * eps * (nsteps + 2) * std::max(std::fabs(L(begin)), std::fabs(L(end))) , dump,
               "reported final time vs requested final time, h = (end-begin)/n");
}

template <unsigned short N, typename T> struct Sol { using type = tfm::tvector<N, T>; static T get(const type& v, int k) { return v(k); } static type make(T a, T) { type v; v(0) = a; if (N > 1) v(N - 1) = 0; return v; } };
template <typename T> struct Sol<1, T> { using type = T; static T get(const type& v, int) { return v; } static type make(T a, T) { return a; } };

template <unsigned short N, typename T, int ORDER, template <unsigned short, typename, typename> class RK>
struct AdSys : RK<N, AdSys<N, T, ORDER, RK>, T> {
  RhsPoly<T, ORDER> rhs; mutable long calls = 0; mutable L tmax = -INFINITY; mutable std::vector<T> times;
  typename Sol<N, T>::type computeF(const T t, const typename Sol<N, T>::type&) const {
    if (++calls > MAXCALLS) throw TooManySteps();
    if (L(t) > tmax) tmax = t;
    times.push_back(t);
    if constexpr (N == 1) return T(rhs.p[0].eval(L(t)));
    else { typename Sol<N, T>::type r; r(0) = T(rhs.p[0].eval(L(t))); r(1) = T(rhs.p[1].eval(L(t))); return r; }
  }
};

template <unsigned short N, typename T, int ORDER, template <unsigned short, typename, typename> class RK>
static void rk_adaptive(const vf::Args& a, uint64_t idx, const char* cname, const char* tname) {
  vf::Rng g(a.seed, 1270 + ORDER * 8 + N, idx);
  const L eps = std::numeric_limits<T>::epsilon();
  const int kind = int(idx % 3);
  const char* S = kind == 0 ? "dt0>=span" : kind == 1 ? "dt0<span" : "dt0<<span";
  char api[96];
  auto nm = [&](const char* f) { std::snprintf(api, sizeof api, "%s<%d,%s>/%s", cname, int(N), tname, f); vf::set_case(api, S, idx); return api; };
  const L span = g.logmag(-4, 4);
  const T ti = g.irange(0, 2) == 0 ? T(0) : T(g.sign() * g.logmag(-3, 4));
  const T tf = T(L(ti) + span);
  if (!(L(tf) - L(ti) > 1e6L * eps * std::max(std::fabs(L(ti)), std::fabs(L(tf))))) { R.skip(nm("domain"), S); return; }
  const L sp = L(tf) - L(ti);
  const T dt0 = kind == 0 ? T(sp * g.uni(1.0, 3.0)) : kind == 1 ? T(sp * g.uni(0.05, 0.999)) : T(sp * g.logmag(-3, -1.3));
  AdSys<N, T, ORDER, RK> s;
  s.rhs.make(g, ti, sp);
  const T y00 = T(g.normal() * g.logmag(-3, 3));
  s.setInitialValue(Sol<N, T>::make(y00, 0));
  s.setInitialTime(ti); s.setFinalTime(tf); s.setInitialTimeIncrement(dt0);
  // criterion relative to the size of the increments of y over the span
  L inc = 0; for (int k = 0; k < int(N); ++k) inc += sp * s.rhs.p[k].sumabs();
  const T crit = T(inc * g.logmag(-7, -2) + 1e-300L);
  s.setCriterionValue(crit);
  const uint64_t h = vf::hash_bytes(&ti, sizeof ti, vf::hash_bytes(&tf, sizeof tf, vf::hash_bytes(&dt0, sizeof dt0, vf::hash_arr(s.rhs.p[0].c, 5))));
  auto dump = [&] {
    vf::J j; j.s("T", tname).i("N", N).f("ti", ti).f("tf", tf).f("dt0", dt0).d("dt0_over_span", L(dt0) / sp).f("criterion", crit).f("largest_stage_time", s.tmax).f("time_reached(last accepted t+dt)", s.times.size() >= 2 ? (ORDER == 4 ? s.times.back() : s.times[s.times.size() - 2]) : ti)
        .d("(tf-t_reached)/span", s.times.size() >= 2 ? (L(tf) - L(ORDER == 4 ? s.times.back() : s.times[s.times.size() - 2])) / sp : 1).i("rhs_calls", s.calls).arr("p0", s.rhs.p[0].c, s.rhs.p[0].c + s.rhs.p[0].deg + 1).f("y0", y00)
        .f("y_final_0", Sol<N, T>::get(s.getValue(), 0));
    return j.str();
  };
  try { s.iterate(); }
  catch (TooManySteps&) { R.skip(nm("too-many-steps"), S); return; }
  catch (std::exception& e) { R.expect(nm("accepts"), S, idx, h, false, dump, "exception for ti<tf, dt0>0"); return; }
  // the loop of iterate() can only be left after an accepted step (a rejection shrinks dt and
  // keeps the loop condition true), so the time reached is t+dt of the last trial step: the last
  // stage call of RK42 (k4 at t+dt), the last but one of RK54 (k5 at t+dt, then k6 at t+dt/2)
  const L stages = ORDER == 4 ? 4 : 6;
  if (s.times.size() < size_t(stages)) { R.expect(nm("steps"), S, idx, h, false, dump, "no step was made"); return; }
  const L tr = ORDER == 4 ? L(s.times.back()) : L(s.times[s.times.size() - 2]);
  const L stepsdone = L(s.calls) / stages;
  L worst = 0, wt = 1;
  for (int k = 0; k < int(N); ++k) {
    const L y0k = k == 0 ? L(y00) : 0;
    const L want = y0k + s.rhs.integral(k, tr);
    const L tm = std::max(std::fabs(L(ti)), std::fabs(L(tf)));
    const L sc = std::fabs(y0k) + sp * (s.rhs.p[k].sumabs() + s.rhs.p[k].sumkabs()) * (1 + tm / sp);
    const L tol = 64 * eps * (stepsdone + 4) * sc, err = std::fabs(L(Sol<N, T>::get(s.getValue(), k)) - want);
    if (k == 0 || err * wt > worst * tol) { worst = err; wt = tol; }
  }
  R.check(nm("exact-for-degree<order"), S, idx, h, worst, wt, dump, "final state vs y0 + integral of p up to the time reached by the last accepted step");
  R.check(nm("final-time"), S, idx, h, std::fabs(tr - L(tf)), 64 * eps * std::max(std::fabs(L(ti)), std::fabs(L(tf))), dump,
          "time reached by the last accepted step vs requested final time");
}

int main(int argc, char** argv) {
  vf::Args a(argc, argv);
  R.viol_cap = 3;
  const std::string part = a.get("--part", "all");
  if ((part == "all" || part == "grid") && a.shard == 0) gk_analytic_grid(a);
  if (part == "grid") { R.finish(); return 0; }
  for (long i = 0; i < a.cases; ++i) {
    const uint64_t idx = a.only >= 0 ? uint64_t(a.only) : a.gidx(i);
    switch (idx % 16) {
      case 0: case 1: gk_poly<double>(a, idx / 16 * 2 + idx % 2, "double"); break;
      case 2: case 3: gk_poly<float>(a, idx / 16 * 2 + idx % 2, "float"); break;
      case 4: case 5: gk_poly<long double>(a, idx / 16 * 2 + idx % 2, "ldouble"); break;
      case 6: if ((idx / 16) % 8 == 0) { gk_nan<double>(a, idx, "double"); gk_nan<float>(a, idx, "float"); gk_nan<long double>(a, idx, "ldouble"); } else gk_analytic_random(a, idx / 16); break;
      case 7: gk_analytic_random(a, idx / 16 + (1ull << 40)); break;
      case 8: rk_fixed<double, Rk2Sys<double>, 2>(a, idx / 16, "RungeKutta2", "double"); break;
      case 9: rk_fixed<double, Rk4Sys<double>, 4>(a, idx / 16, "RungeKutta4", "double"); break;
      case 10: rk_fixed<float, Rk4Sys<float>, 4>(a, idx / 16, "RungeKutta4", "float"); break;
      case 11: rk_fixed<float, Rk2Sys<float>, 2>(a, idx / 16, "RungeKutta2", "float"); break;
      case 12: rk_adaptive<1, double, 4, tfm::RungeKutta42>(a, idx / 16, "RungeKutta42", "double"); break;
      case 13: rk_adaptive<2, double, 4, tfm::RungeKutta42>(a, idx / 16, "RungeKutta42", "double"); break;
      case 14: rk_adaptive<2, double, 5, tfm::RungeKutta54>(a, idx / 16, "RungeKutta54", "double"); break;
      // RungeKutta54 does not compile for Scalar=float (double literals in tvector<float> expressions) nor for N=1 (eval of a scalar)
      default: rk_adaptive<2, float, 4, tfm::RungeKutta42>(a, idx / 16, "RungeKutta42", "float");
    }
    if (a.only >= 0) break;
  }
  R.finish();
  return 0;
}
