"""C48 — MTest enforces imposed loadings and reaches every requested time (DESIGN.md §4.6)."""
import math
import re

import vfcore
from checks import mt_common as M

META = {
    "engine": "mtest", "level": "exploration", "design_ref": "DESIGN.md §4.6 C48",
    "technique": "random mtest problems (mixed strain/stress/free control, LPI tables and formulas, wild time grids, 6 hypotheses, elastic/Norton/plasticity behaviours generated from the reference .mfront files, scripted step refusals forcing sub-stepping) run by the real mtest binary; the result file is judged against evolutions re-evaluated in python and against the requested times bit for bit",
    "text": "Each generated problem is run by the freshly built mtest in its own directory with @OutputFilePrecision 17. For every run that completes, every output row after the initial one is compared with the generator's own evaluation of each imposed evolution at the requested time (imposed strains within @StrainEpsilon, imposed stresses within @StressEpsilon, an echoed external state variable given as an LPI table within 4 ulp, tables deliberately narrower than the time range so that the constant branches are exercised), and the list of output times must be the requested list, each value bit-identical, also when the behaviour refused steps (time step above a random threshold or refusal of chosen integration calls) so that MTest sub-stepped. Runs mtest reports as failed (non convergence, maximum number of sub-steps) are counted and excluded.",
    "note": "Trusted: python's libm-based re-evaluation of the formula family (sin, cos, exp, sqrt, powers; 4e-15 relative slack), strtod/repr round trip of decimal doubles. The tolerances are the documented ones (@StrainEpsilon/@StressEpsilon are the solver's own stopping criteria, so err/tol legitimately approaches 1) plus the variation of the evolution over 4 ulp of the time. The initial row (t0) is the user-given initial state, not a solved step, and is only checked for its time. Uncontrolled components are not judged (the property is about imposed ones).",
}

NEEDED = ["Elasticity", "Norton", "Plasticity", "ImplicitNorton", "VfNorton", "VfImplicitNorton", "VfPlasticity", "VfEcho"]
PLAIN = ["Elasticity", "Norton", "Plasticity", "ImplicitNorton"]
SUB = ["VfNorton", "VfImplicitNorton", "VfPlasticity"]


def build(ctx):
    return M.build_libs(NEEDED)


def gen_case(seed, i, libs):
    g = vfcore.rng(seed, "c48", i)
    u = g.random()
    stratum = "plain" if u < 0.5 else ("substep" if u < 0.8 else "echo")
    name = g.choice(PLAIN) if stratum == "plain" else (g.choice(SUB) if stratum == "substep" else "VfEcho")
    hyp = g.choice(M.HYPS[name])
    mp, info, eamp, samp = M.rand_material(g, M.LAW[name])
    nsteps = g.randrange(2, 16)
    envx = {}
    maxsub = 1
    if stratum == "substep":
        t0 = g.choice([0.0, 0.0, 10.0 ** g.uniform(0, 7)])
        base = 10.0 ** g.uniform(-3, 2.5)
        ts = [t0]
        for _ in range(nsteps):
            nt = ts[-1] + base * 10.0 ** g.uniform(0, 1.3)
            ts.append(nt if nt > ts[-1] else math.nextafter(ts[-1], math.inf))
        steps = [b - a for a, b in zip(ts, ts[1:])]
        mp["MaximalAcceptedTimeStep"] = max(steps) / g.choice([1.5, 3.0, 6.0, 12.0]) if g.random() < 0.8 else 0.0
        if g.random() < 0.6:
            envx["VF_FAIL_AT"] = ",".join(str(k) for k in sorted({g.randrange(1, 12 * nsteps) for _ in range(g.randrange(1, 6))}))
            envx["VF_FAIL_MODE"] = str(g.randrange(2))
        maxsub = 12
    else:
        ts = M.rand_times(g, nsteps, wild=g.random() < 0.75, t0=g.choice([0.0, 0.0, 10.0 ** g.uniform(-3, 5)]))
        if g.random() < 0.3:
            maxsub = 10
    cons = M.rand_control(g, hyp, eamp, samp, ts[0], ts[-1])
    eeps = 10.0 ** g.uniform(-14, -9)
    seps = 10.0 ** g.uniform(-4, 1) * (info["E"] / 1.5e11)
    esv = None
    if stratum == "echo":
        esv = {"Source": M.rand_lpi(g, 10.0 ** g.uniform(-3, 6), ts[0], ts[-1], inside=g.random() < 0.8)}
    extra = []
    k = g.random()
    if k < 0.25:
        extra.append("@PredictionPolicy '%s';" % g.choice(["LinearPrediction", "ElasticPrediction", "TangentOperatorPrediction"]))
    if k > 0.7:
        extra.append("@AccelerationAlgorithm '%s';" % g.choice(["Cast3M", "Secant", "Steffensen", "IronsTuck", "UAnderson", "FAnderson"]))
    txt = M.mtest_text(libs[name], M.SPECS[name][1], hyp, mp, ts, cons, eeps, seps, extra=extra, esv=esv, maxsub=maxsub)
    return {"i": i, "stratum": stratum, "behaviour": name, "hyp": hyp, "times": ts, "cons": cons, "eeps": eeps, "seps": seps,
            "esv": esv, "env": envx, "text": txt}


def failure_reason(out):
    out = re.sub(r"\x1b\[[0-9;]*m", "", out)
    m = re.search(r"Execution failed \((.*)\)\s*$", out, re.M) or re.search(r"what\(\):\s*(.*)", out)
    s = (m.group(1) if m else out.strip().splitlines()[-1] if out.strip() else "?")[:160]
    s = re.sub(r"[-+]?\d[\d.eE+-]*", "#", s)
    return s[:90]


def time_slack(ev, t, nulp=4):
    """the solver reaches te as ti + (te - ti) (and by sums of sub-steps), i.e. within a few ulp of the
    requested time (4 + one per accepted sub-step): an evolution with a steep slope may legitimately differ
    by its variation over that distance"""
    tp, tm = t, t
    for _ in range(nulp):
        tp, tm = math.nextafter(tp, math.inf), math.nextafter(tm, -math.inf)
    try:
        return max(abs(ev(tp) - ev(t)), abs(ev(t) - ev(tm)))
    except (ValueError, OverflowError):
        return 0.0


def judge(case, res, att=None, doctor=None):
    """-> list of (key, what) and stats; `doctor` (tests of the monitor itself) may alter the parsed result"""
    viol, stats = [], {"rows": 0, "cmp": 0, "max_ratio": 0.0, "lpi_zones": {}, "loop": None}
    st = case["stratum"]
    if doctor:
        doctor(case, res)
    req = case["times"]
    got = [r[0] for r in res.rows]
    if len(got) != len(req):
        viol.append(("times:count:%s" % st, "requested %d times, result file has %d rows: requested %s got %s" % (len(req), len(got), req, got)))
        return viol, stats
    for k, (a, b) in enumerate(zip(got, req)):
        if M.bits(a) != M.bits(b):
            cls = "not-bitwise" if abs(a - b) <= 1e-9 * max(abs(b), 1e-300) else "wrong-time"
            viol.append(("times:%s:%s" % (cls, st), "output time of row %d is %r, requested %r (raw token %s)" % (k, a, b, res.raw[k][0])))
            return viol, stats
    # the solver's own time loop, followed through the attempts of the log
    nulp = [4] * len(req)
    if att is not None:
        loop, consistent = M.replay_time_loop(req, att)
        if consistent:
            nulp = [4] + [4 + len(iv["accepted"]) for iv in loop]
        stats["loop"] = "followed" if consistent else "log-not-followed"
        if consistent:
            for iv in loop:
                if iv["t_final"] - iv["te"] > 0.25 * iv["dt_last"] > 0:
                    stats["loop"] = "overshoot"
                    viol.append(("GenericSolver:sub-stepping-overshoots-requested-time",
                                 "interval [%r, %r]: after %d accepted sub-steps of %r the loop is at t=%r (te-t=%.3g, more than its "
                                 "tolerance 100*eps*(te-ti)=%.3g) and performs one more sub-step, ending at %r instead of %r; the state "
                                 "printed for %r is the state at %r and the next interval starts from it (%s, %s)" %
                                 (iv["ti"], iv["te"], len(iv["accepted"]) - 1, iv["dt_last"], iv["accepted"][-1][0], iv["te"] - iv["accepted"][-1][0],
                                  (iv["te"] - iv["ti"]) * 100 * 2.220446049250313e-16, iv["t_final"], iv["te"], iv["te"], iv["t_final"],
                                  case["behaviour"], case["hyp"])))
                    # everything after that point is computed from a shifted state: not judged further
                    return viol, stats
                if abs(iv["t_final"] - iv["te"]) > 64 * M.ulp(iv["te"]) * max(1, len(iv["accepted"])):
                    viol.append(("GenericSolver:time-loop-ends-off-requested-time", "interval [%r, %r] ends at %r" % (iv["ti"], iv["te"], iv["t_final"])))
                    return viol, stats
    for kind, comp, ev in case["cons"]:
        try:
            c = res.col(comp)
        except ValueError:
            viol.append(("result-file:no-column:%s" % comp, "no column %s in %s" % (comp, res.names)))
            continue
        eps = case["eeps"] if kind == "E" else case["seps"]
        for k in range(1, len(req)):
            ref = ev(req[k])
            v = res.rows[k][c]
            # (1e-13 x increment: the loop also stops within 100 eps (te - ti) of te)
            tol = eps + 4e-15 * abs(ref) + time_slack(ev, req[k], nulp[k]) + 1e-13 * abs(ref - ev(req[k - 1])) + 5e-324
            err = abs(v - ref)
            stats["cmp"] += 1
            ratio = err / tol if math.isfinite(err) else math.inf
            stats["max_ratio"] = max(stats["max_ratio"], ratio)
            if not (err <= tol):
                viol.append(("imposed-%s:%s:%s" % ("strain" if kind == "E" else "stress", "table" if "lpi" in ev.desc else ev.kind, st),
                             "%s at t=%r is %r, its evolution %s gives %r: |diff|=%.3g > eps=%.3g (%s, %s)" %
                             (comp, req[k], v, ev.text, ref, err, eps, case["behaviour"], case["hyp"])))
                break
    if case["esv"]:
        ev = case["esv"]["Source"]
        pts = ev.desc["lpi"]
        c = res.col("Echo")
        scale = max(abs(p[1]) for p in pts)
        for k in range(1, len(req)):
            t = req[k]
            zone = "left" if t < pts[0][0] else ("right" if t > pts[-1][0] else ("node" if any(t == p[0] for p in pts) else "between"))
            stats["lpi_zones"][zone] = stats["lpi_zones"].get(zone, 0) + 1
            ref = ev(t)
            v = res.rows[k][c]
            stats["cmp"] += 1
            tol = 8 * M.ulp(scale) + time_slack(ev, t, nulp[k]) + 1e-13 * abs(ref - ev(req[k - 1]))
            if not (abs(v - ref) <= tol):
                viol.append(("LPI:%s:echo" % zone, "echoed LPI evolution %s at t=%r is %r, expected %r (zone %s)" % (ev.text, t, v, ref, zone)))
                break
    stats["rows"] = len(req)
    return viol, stats


def run_case(ctx, case, doctor=None):
    d = ctx.work / ("c%d" % case["i"])
    d.mkdir(parents=True, exist_ok=True)
    (d / "a.mtest").write_text(case["text"])
    r = M.run_mtest(d, "a.mtest", args=["--verbose=level1"], timeout=120, extra_env=case["env"])
    out = {"i": case["i"], "status": None, "viol": [], "stats": None, "substeps": 0}
    crash = ctx.classify_crash(r, recognised_terminate=True)
    if crash == "hang":
        out["status"] = "timeout"
        return out
    if crash:
        out["status"] = "crash"
        out["viol"].append(("mtest-crash:%s:%s" % (crash, case["stratum"]), "mtest died (%s) on a generated problem\n%s" % (crash, r.out[-1500:])))
        return out
    if not M.completed(r):
        out["status"] = "failed:" + failure_reason(r.out)
        return out
    att, st = M.parse_log(r.out)
    out["substeps"] = st.get("sub-steps", 0)
    res = M.Res(d / "a.res")
    if not res.ok:
        out["status"] = "completed"
        out["viol"].append(("result-file:unreadable:%s" % case["stratum"], "mtest exited 0 but a.res is missing/ragged"))
        return out
    out["status"] = "completed"
    out["viol"], out["stats"] = judge(case, res, att, doctor)
    return out


def replay_of(case):
    return {"mtest_file": case["text"], "env": case["env"], "times": [M.fl(t) for t in case["times"]],
            "constraints": [(k, c, e.text) for k, c, e in case["cons"]], "eeps": case["eeps"], "seps": case["seps"]}


def run(ctx, doctor=None):
    libs = build(ctx)
    n = ctx.n(160, 4000)
    ctx.cov["rule"] = ("case = one mtest run: (behaviour, hypothesis, material, mixed control of every component by table/formula/constant, "
                       "time grid, eeps, seps, stratum plain|substep|echo); distinct = completed runs (each has its own random loading); "
                       "non-trivial = at least one imposed component and >= 2 steps")
    cases = [gen_case(ctx.seed, i, libs) for i in range(n)]
    outs = vfcore.pmap(lambda c: run_case(ctx, c, doctor), cases, workers=min(vfcore.NCPU, 12))
    done = {"plain": 0, "substep": 0, "echo": 0}
    tot = {"plain": 0, "substep": 0, "echo": 0}
    substepped = 0
    zones = {}
    for case, o in zip(cases, outs):
        ctx.add_eval(1)
        st = case["stratum"]
        tot[st] += 1
        ctx.count("status:" + o["status"].split(":")[0])
        if o["status"].startswith("failed:"):
            ctx.count("excluded:" + o["status"][7:])
        if o["status"] == "timeout":
            ctx.count("watchdog")
        for key, what in o["viol"]:
            ctx.violation(key, what, replay_of(case))
        if o["status"] == "completed" and o["stats"] is not None:
            done[st] += 1
            ctx.add_distinct("%d" % case["i"])
            ctx.count("rows", o["stats"]["rows"])
            ctx.count("comparisons", o["stats"]["cmp"])
            ctx.count("time_loop:%s" % o["stats"]["loop"])
            ctx.maxstat("max_err_over_tol", float("%.3g" % min(o["stats"]["max_ratio"], 1e30)))
            ctx.count("completed:%s:%s" % (case["behaviour"], case["hyp"]))
            if o["substeps"] > 0:
                substepped += 1
                ctx.count("substeps_total", o["substeps"])
            for z, k in o["stats"]["lpi_zones"].items():
                zones[z] = zones.get(z, 0) + k
            ctx.sample({"i": case["i"], "behaviour": case["behaviour"], "hyp": case["hyp"], "steps": len(case["times"]) - 1,
                        "constraints": [(k, c, e.text[:60]) for k, c, e in case["cons"]], "substeps": o["substeps"]})
    ctx.cov["completed_per_stratum"] = done
    ctx.cov["generated_per_stratum"] = tot
    ctx.cov["runs_that_substepped"] = substepped
    ctx.cov["lpi_zones_echo"] = zones
    nto = ctx.cov.get("counters", {}).get("watchdog", 0)
    if nto > max(2, n // 50):
        ctx.inconc("%d runs hit the watchdog" % nto)
    for st in done:
        ctx.require(done[st] >= max(5, tot[st] // 4), "stratum %s: only %d of %d runs completed" % (st, done[st], tot[st]))
    ctx.require(substepped >= ctx.n(10, 200), "only %d completed runs sub-stepped" % substepped)
    ctx.require(all(zones.get(z, 0) > 0 for z in ("left", "right", "between")), "LPI zones not all exercised: %s" % zones)
