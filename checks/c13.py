"""C13 — tfel::math::Evaluator implements the documented formula language."""
import concurrent.futures as cf
import math
import random
import re
import sys
import vfcore

sys.path.insert(0, str(vfcore.VERIF / "lib"))
import exprgen as E      # noqa: E402
import exprparse as P    # noqa: E402

META = {
    "engine": "text", "level": "exploration", "design_ref": "DESIGN.md §4.2 C13",
    "technique": "random expression trees (lib/exprgen.py, interval-propagated domains) printed with minimal parentheses + redundant "
                 "parentheses/blanks, evaluated by the ASan+UBSan build of libTFELMathParser and by an independent tree evaluator calling "
                 "the same libm functions; getCxxFormula texts compiled in batches and run; resolveDependencies / parameter rewriting "
                 "compared with getValue; token-level mutants judged against an independent precedence-climbing parser (lib/exprparse.py); "
                 "crash/sanitizer/hang classifier with bisection to the witness formula",
    "text": "For the generated well-formed formulas (numbers in all literal forms, variables, + - * / **, unary minus, every documented "
            "unary/binary function, power<N>, Cste constants, a conditional with logical operators at the root) getValue equals the value "
            "of the generating tree within a running rounding-error bound; the compiled getCxxFormula text, resolveDependencies and "
            "createFunctionByChangingParametersIntoVariables give the same value as getValue (1e-14 relative or the rounding bound). Every "
            "token-level mutant either raises a std::exception or evaluates to the value given by the independent parser; no crash, "
            "sanitizer report or hang. Sampled; chained a**b**c and unparenthesised &&/|| mixtures are recorded, not judged.",
    "note": "Trusted: lib/exprgen.py (tree evaluator, interval propagation), lib/exprparse.py (grammar = docs/web/math.md + unary minus + "
            "C-like conditional), glibc libm through ctypes, g++ for the getCxxFormula batches (compiled with 'using namespace std; using "
            "namespace tfel::math;' as mfront-generated code does). Constants: values parsed from TFEL/PhysicalConstants.hxx and "
            "cross-checked (1e-5) with docs/web/physical-constants.md. Ill-conditioned (bound/|value| > 1e6 ulp) and rounding-dependent "
            "comparisons are skipped and counted.",
}

SRC = vfcore.VERIF / "harness/text/c13.cxx"
LIBS = ("TFELMathParser", "TFELMath", "TFELUnicodeSupport", "TFELException")
U = 2.0 ** -53
KTOL = 128          # tolerance = KTOL x running rounding bound (worst observed ratio over the seeds stays below 0.02)
SEP = "\x1f"

VAR_POOL = ["x", "y", "z", "T", "t", "p", "a", "b", "eps", "sig", "X1", "v_2", "E", "nu"]
BOXES = [(0.1, 2.0), (-2.0, 2.0), (1.0, 10.0), (300.0, 1500.0), (1e-3, 1e-1), (-1.0, 1.0), (0.5, 0.9), (-50.0, 50.0)]


def build(ctx):
    return {"asan": vfcore.compile_cxx("c13", [SRC], "asan", libs=LIBS)}


# ------------------------------------------------------------------------------------ constants
def constants(ctx=None):
    hdr = (vfcore.REPO / "include/TFEL/PhysicalConstants.hxx").read_text()
    vals = {}
    for m in re.finditer(r"static constexpr auto (\w+) =\s*NumericType\(([-+0-9.eE]+)\)", hdr):
        vals[m.group(1)] = float(m.group(2))
    if ctx is not None:
        doc = (vfcore.REPO / "docs/web/physical-constants.md").read_text()
        sym = {"\\mu": "mu", "N_{a}": "Na", "k_{b}": "kb", "G_{0}": "G0", "e_{0}": "e0", "m_{e}": "me", "eV": "eV", "e": "e", "F": "F",
               "a": "a", "R": "R", "s": "s"}
        n = 0
        for m in re.finditer(r"^\|\s*\\\((.+?)\\\)\s*\|[^|]*\|\s*\\\(([0-9.]+)(?:\\,\.10\^\{(-?\d+)\})?\s*\\\)", doc, re.M):
            name = sym.get(m.group(1).strip())
            if name and name in vals:
                dv = float(m.group(2)) * 10.0 ** int(m.group(3) or 0)
                n += 1
                if abs(dv - vals[name]) > 1e-5 * abs(dv):
                    ctx.violation("constants:%s" % name, "Cste::%s = %r in PhysicalConstants.hxx, %r in docs/web/physical-constants.md" % (name, vals[name], dv),
                                  {"name": name})
        ctx.cov["constants_cross_checked_with_docs"] = n
    return vals


def hexf(v):
    return float(v).hex()


def unhex(h):
    return "" if h == "-" else bytes.fromhex(h).decode("utf-8", "replace")


# ------------------------------------------------------------------------------------ case generation
def make_gen(rng, csts, cxx_safe=False, params=False):
    nv = rng.randint(1, 4)
    names = rng.sample(VAR_POOL, nv)
    vs = {n: rng.choice(BOXES) for n in names}
    pars = {}
    if params:
        pars["P0"] = float("%.3g" % rng.uniform(0.5, 5))
        pars["Q0"] = pars["P0"] * 2 + 1
    f1 = [f for f in E.F1 if not (cxx_safe and f in ("ln", "H"))]
    use_c = {k: v for k, v in csts.items() if rng.random() < 0.5}
    return E.ExprGen(rng, vs, parameters=pars, constants=use_c, functions1=f1, number_forms="float" if cxx_safe else "all",
                     pow_zero=not cxx_safe)     # x**0 is folded into the integer literal 1: class cxx-int


def value_case(rng, csts, stratum):
    """-> dict(formula, tree, env, gen, extra) for one well-formed formula of the given stratum"""
    cxx_safe = stratum in ("cxx",)
    params = stratum in ("params", "param-exponent")
    g = make_gen(rng, csts, cxx_safe=cxx_safe, params=params)
    if stratum == "cxx-int":
        g.f1 = [f for f in g.f1 if f not in ("ln", "H")]
        g.f2 = []                       # max(x,2) does not compile either: kept apart (cxx-int-max)
    if stratum == "cxx-int-max":
        g.f1 = [f for f in g.f1 if f not in ("ln", "H")]
        g.number_forms = "float"
        g.pow_zero = False
    if stratum in ("cxx-ln", "cxx-H"):
        g.number_forms = "float"
        g.pow_zero = False
        g.f1 = [f for f in g.f1 if f not in ("ln", "H")]
    depth = rng.choice((2, 3, 3, 4, 4, 5, 5, 6, 7, 8))
    cmp_guard = True
    if stratum in ("cond", "cond-left-paren", "cond-cste-then"):
        t, iv = g._cond(max(3, depth))
        cmp_guard = stratum != "cond-left-paren"
        has_cst = any(n[0] == "cst" for n in E.walk(t[2]))
        if stratum == "cond-cste-then":
            if not has_cst:
                t = ("cond", t[1], ("+", t[2], ("cst", rng.choice(sorted(csts)))), t[3])
        elif has_cst:
            return None     # 'c ? Cste::X : b' is a class of its own (cond-cste-then)
    elif stratum == "cond-nested":
        c, _ = g._cond(max(3, depth - 1))
        a, _ = g.arith(rng.randint(1, 3))
        k = rng.randint(0, 2)
        t = ("+", c, a) if k == 0 else (("*", a, c) if k == 1 else ("f2", "max", c, a))
    elif stratum == "param-exponent":     # x ** P0 with an integer-valued parameter
        g.pars["P0"] = float(rng.randint(2, 5))
        g.pars["Q0"] = g.pars["P0"] * 2 + 1
        a, ia = g.arith(rng.randint(1, 3))
        a, ia = g.fit(a, ia, 0.1, 50.0)
        if a is None:
            return None
        t = ("+", ("**", a, ("par", "P0")), ("par", "Q0"))
    else:
        g.conditional = False
        t, iv = g.tree(depth)
        if stratum == "cxx-int":       # make sure an integer literal takes part in a division or a power<N>
            n1, n2 = rng.randint(1, 9), rng.randint(2, 9)
            t = ("+", t, ("/", ("num", str(n1), float(n1)), ("num", str(n2), float(n2))))
        if stratum == "cxx-int-max":
            n1 = rng.randint(1, 9)
            t = ("f2", rng.choice(("max", "min")), t, ("num", str(n1), float(n1)))
        if stratum == "cxx-ln":
            a, ia = g.fit(t, iv, 1e-2, 1e8) if iv else (None, None)
            if a is None:
                a = ("num", "2.5", 2.5)
            t = ("f1", "ln", a)
        if stratum == "cxx-H":
            t = ("*", t, ("f1", "H", ("var", sorted(g.vars)[0])))
    formula = E.to_formula(t, rng, redundant=rng.choice((0.0, 0.1, 0.3)), spaces=rng.choice((0.0, 0.2, 0.5)), cmp_guard=cmp_guard)
    if stratum == "cond-left-paren" and not re.search(r"(^|\?|&&|\|\||!|\()\s*\(", formula.split("?")[0]):
        return None
    return {"formula": formula, "tree": t, "gen": g}


def folded_parameters(t):
    """parameters that occur only below a '** 0' (the Evaluator folds x**0 into 1)"""
    inside, outside = set(), set()

    def rec(n, folded):
        if n[0] == "par":
            (inside if folded else outside).add(n[1])
        f = folded or (n[0] == "**" and n[2][0] == "num" and n[2][2] == 0.0)
        for ch in n[1:]:
            if isinstance(ch, tuple):
                rec(ch, f)
    rec(t, False)
    return inside - outside


def exponent_parameters(t):
    """parameters standing alone as the exponent of a **"""
    return {n[2][1] for n in E.walk(t) if n[0] == "**" and n[2][0] == "par"}


def line(cid, mode, formula, varlist, params, extra):
    vs = ";".join("%s=%s:%s:%s" % (n, hexf(v), hexf(lo), hexf(hi)) for n, v, lo, hi in varlist)
    ps = ";".join("%s=%s" % kv for kv in params)
    ex = ";".join("%s=%s" % kv for kv in extra)
    return SEP.join([str(cid), mode, formula, vs, ps, ex])


def run_harness(binary, lines, work, timeout=600, symbolize=True):
    """feed the lines to the harness; on a crash return the results obtained so far and the id of the witness"""
    env = None if symbolize else {"ASAN_OPTIONS": vfcore.SAN_ENV["ASAN_OPTIONS"] + ":symbolize=0", "UBSAN_OPTIONS": "print_stacktrace=0:halt_on_error=1"}
    r = vfcore.run([binary], timeout=timeout, cwd=work, env=env, stdin=("\n".join(lines) + "\n").encode())
    res, last_b = {}, None
    for ln in r.out.splitlines():
        if ln.startswith("B "):
            last_b = ln[2:]
        elif ln.startswith("R "):
            f = ln.split(" ")
            res[f[1]] = f[3:]
    done = r.out.rstrip().endswith("DONE")
    return res, (None if done else last_b), r


def drive(binary, lines, work, prefix, describe):
    """run all the lines, resuming after each dying case.  Every death is confirmed on the single witness line (a
    watchdog firing must fire twice, with a longer delay) and reported once per distinct sanitizer signature.
    -> (results {id: fields}, violations [(key, what, replay)], counters)"""
    results, viol, counters, known = {}, [], {}, {}
    by_id = {ln.split(SEP, 1)[0]: ln for ln in lines}
    todo = lines
    while todo:
        res, witness, r = run_harness(binary, todo, work, timeout=180 + 0.5 * len(todo), symbolize=False)
        results.update(res)
        if witness is None:
            break
        k = next((j for j, ln in enumerate(todo) if ln.split(SEP, 1)[0] == witness), len(todo) - 1)
        todo = todo[k + 1:]
        counters["crash"] = counters.get("crash", 0) + 1
        sig = signature(r.err) if not r.timed_out else ("hang", witness)
        if sig in known:
            counters["crash-same-signature-as:" + known[sig]] = counters.get("crash-same-signature-as:" + known[sig], 0) + 1
            continue
        ln = by_id.get(witness)
        res1, w1, r1 = run_harness(binary, [ln], work, timeout=120)
        cls = crash_class(r1)
        if cls == "hang":
            res2, w2, r2 = run_harness(binary, [ln], work, timeout=300)
            cls = "hang" if r2.timed_out else crash_class(r2)
            r1 = r2
        if cls is None:
            if res1.get(witness):
                results[witness] = res1[witness]
            if not r.timed_out:
                viol.append(("__inconclusive__", "death in a batch on %s not reproduced alone: %s" % (describe(witness), crash_class(r)), None))
            continue
        key = "%s:%s:%s" % (prefix, crash_kind(cls, r1.err), frame_of(r1.err, "Evaluator"))
        known[sig] = key
        viol.append((key, "%s on %s\n%s" % (cls, describe(witness), r1.err[-3000:]), {"line": ln, "stderr": r1.err[-4000:], "what": describe(witness)}))
    return results, viol, counters


def crash_class(r):
    c = vfcore.Ctx.classify_crash(None, vfcore.Result(r.rc, "", r.err, r.timed_out, r.wall))
    return c


def frame_of(err, fallback="?"):
    """a stable site name for the key: the innermost non-destructor frame of tfel::math in the report"""
    for m in re.finditer(r"in tfel::math::((?:\w+::)*~?\w+)", err):
        name = m.group(1)
        if "~" in name or name.startswith("parser::Expr"):
            continue
        return "::".join(name.split("::")[-2:])
    return fallback


def crash_kind(cls, err):
    """short class of a crash: asan:<bug type> / ubsan / assert / signal"""
    if cls is None:
        return None
    if cls.startswith("asan:"):
        if "attempting free on address which was not malloc" in err:
            return "asan:bad-free"
        if "attempting double-free" in err:
            return "asan:double-free"
        return "asan:" + cls.split(":")[1]
    if cls == "signal:SIGABRT" and ("double free" in err or "free(): invalid" in err):
        return "abort:invalid-free"
    return cls


def signature(err):
    """cheap identity of an unsymbolised sanitizer report: bug type + the first frames inside the TFEL libraries"""
    m = re.search(r"ERROR: AddressSanitizer: ([^\n]{0,60}?)(?: on address| 0x|\n)", err)
    offs = re.findall(r"\((/[^\s()]*libTFEL[^\s()+]*)\+(0x[0-9a-f]+)\)", err)[:4]
    u = re.search(r"runtime error: ([^\n]{0,60})", err)
    return (m.group(1) if m else (u.group(1) if u else err[-80:]), tuple(o[1] for o in offs))


# ------------------------------------------------------------------------------------ value half (worker)
VALUE_STRATA = [("arith", 0.446), ("param-exponent", 0.004), ("cond", 0.16), ("cxx", 0.2), ("params", 0.1), ("cond-left-paren", 0.012), ("cond-nested", 0.012), ("cond-cste-then", 0.012),
                ("cxx-int", 0.012), ("cxx-int-max", 0.012), ("cxx-ln", 0.012), ("cxx-H", 0.012)]
EXPECTED_DEFECT_STRATA = ("param-exponent", "cond-left-paren", "cond-nested", "cond-cste-then", "cxx-int", "cxx-int-max", "cxx-ln", "cxx-H")


def value_shard(args):
    seed, shard, ncases, binary, work, csts = args
    rng = random.Random((seed * 1000003 + shard) * 7919 + 13)
    cases, lines = {}, []
    names, weights = zip(*VALUE_STRATA)
    for i in range(ncases):
        st = rng.choices(names, weights)[0]
        c = None
        for _ in range(20):
            c = value_case(rng, csts, st)
            if c is None:
                continue
            g = c["gen"]
            env = g.point()
            try:
                v, err, dec = E.evaluate(c["tree"], env, csts)
            except (E.DomainError, OverflowError, ZeroDivisionError, ValueError):
                c = None
                continue
            break
        if c is None:
            continue
        cid = shard * 10000000 + i
        c.update(env=env, ref=v, err=err, dec=dec, stratum=st, id=cid)
        varlist = [(n, env[n], g.vars[n][0], g.vars[n][1]) for n in sorted(g.vars)]
        params = [("P0", repr(g.pars["P0"])), ("Q0", "P0*2+1")] if g.pars else []
        extra = []
        if st.startswith("cxx"):
            extra.append(("cxx", "1"))
        if g.pars:
            used = E.parameters(c["tree"])
            extra.append(("cv", ",".join(used)))
        elif rng.random() < 0.3 and not st.startswith("cxx"):
            extra.append(("free", "1"))       # variables discovered by the parser: positions unknown, no rd
        if ("free", "1") not in extra:
            extra.append(("rd", "1"))
        c["varlist"] = varlist
        c["line"] = line(cid, "V", c["formula"], varlist, params, extra)
        cases[str(cid)] = c
        lines.append(c["line"])
    out = {"stats": {}, "viol": [], "cxx": [], "maxratio": {}, "samples": []}

    def stat(k, n=1):
        out["stats"][k] = out["stats"].get(k, 0) + n
    results, crashes, counters = drive(binary, lines, work, "accept", lambda w: "the well-formed formula %r" % (cases.get(w, {}).get("formula"),))
    out["viol"] += crashes
    for k, v in counters.items():
        stat(k, v)
    for cid, c in cases.items():
        st = c["stratum"]
        f = results.get(cid)
        if f is None:
            continue
        stat("n:" + st)
        rp = {"formula": c["formula"], "variables": {n: hexf(v) for n, v, _, _ in c["varlist"]}, "reference": hexf(c["ref"]),
              "line": c["line"], "stratum": st}
        if f[0].startswith("exc"):
            what = unhex(f[1]) if len(f) > 1 else ""
            kst = st
            # mechanisms must not share a key: a constant `Cste::X` in the then-branch of a conditional is its own (open)
            # finding whatever the stratum that generated the formula; a comparison whose left operand starts with '(' too
            if f[0] == "exc-parse" and "invalid variable name ':'" in what and re.search(r"\?[^:?]*Cste\s*::", c["formula"]):
                kst = "cond-cste-then"
            elif f[0] == "exc-parse" and re.search(r"unmatched parenthesis|unbalanced parenthesis", what) and st.startswith("cond"):
                kst = "cond-left-paren"
            key = "accept:%s:%s" % (kst, "parse-exception" if f[0] == "exc-parse" else "eval-exception")
            if f[0] == "exc-eval" and (c["dec"] == 0.0 or c["err"] > 1e6 * abs(c["ref"])):
                stat("skipped-ill-conditioned:" + st)
                continue
            out["viol"].append((key, "well-formed formula %r rejected: %s" % (c["formula"], what), rp))
            continue
        got = float.fromhex(f[1])
        ref, err = c["ref"], c["err"]
        if c["dec"] == 0.0 or not math.isfinite(err) or err > 1e6 * max(abs(ref), 1e-300) and ref != 0:
            stat("skipped-ill-conditioned:" + st)
            continue
        tol = KTOL * err * U + 1e-300
        ratio = abs(got - ref) / tol
        out["maxratio"]["getValue:" + st] = max(out["maxratio"].get("getValue:" + st, 0.0), ratio)
        stat("judged:getValue:" + st)
        if len(out["samples"]) < 2:
            out["samples"].append({"formula": c["formula"], "value": got, "reference": ref})
        if not (ratio <= 1):
            rp["got"] = hexf(got)
            out["viol"].append(("getValue:%s" % st, "Evaluator(%r) = %r, tree value %r (tolerance %.3g)" % (c["formula"], got, ref, tol), rp))
            continue
        tol2 = max(1e-14 * abs(got), tol)
        for item in f[2:]:
            k, _, val = item.partition("=")
            if k == "cvp":
                held = set(x for x in unhex(val).split(",") if x)
                missing = set(E.parameters(c["tree"])) - held
                missing -= folded_parameters(c["tree"])
                if missing and missing <= exponent_parameters(c["tree"]):
                    out["viol"].append(("getParametersNames:parameter-as-integer-exponent", "in %r the parameter %s is the exponent of ** and has an integer "
                                        "value: it is folded into power<N> when the formula is analysed; getParametersNames does not list it and it cannot "
                                        "be changed into a variable" % (c["formula"], sorted(missing)), rp))
                elif missing:
                    out["viol"].append(("getParametersNames:%s" % st, "getParametersNames of %r misses %s" % (c["formula"], sorted(missing)), rp))
                continue
            if k in ("rd", "cv"):
                api = "resolveDependencies" if k == "rd" else "createFunctionByChangingParametersIntoVariables"
                if val.startswith("EXC:"):
                    out["viol"].append(("%s:%s:exception" % (api, st), "%s threw on %r: %s" % (api, c["formula"], unhex(val[4:])), rp))
                    continue
                w = float.fromhex(val)
                stat("judged:%s:%s" % (api, st))
                rt = abs(w - got) / tol2
                out["maxratio"]["%s:%s" % (api, st)] = max(out["maxratio"].get("%s:%s" % (api, st), 0.0), rt)
                if not (rt <= 1):
                    out["viol"].append(("%s:%s" % (api, st), "%s changes the value of %r: %r -> %r" % (api, c["formula"], got, w), rp))
            elif k == "cxx":
                if val.startswith("EXC:"):
                    out["viol"].append(("getCxxFormula:%s:exception" % st, "getCxxFormula threw on %r: %s" % (c["formula"], unhex(val[4:])), rp))
                else:
                    out["cxx"].append({"id": cid, "stratum": st, "formula": c["formula"], "cxx": unhex(val), "values": [v for _, v, _, _ in c["varlist"]],
                                       "getValue": got, "tol": tol2})
    return out


# ------------------------------------------------------------------------------------ getCxxFormula batches
PRELUDE = """#include <cmath>
#include <cstdio>
#include <algorithm>
#include "TFEL/Math/power.hxx"
#include "TFEL/Math/General/IEEE754.hxx"
using namespace std;
using namespace tfel::math;
"""


def cxx_batch(ctx, name, items):
    """compile one TU holding the formulas of `items` (one function per line) and run it.
    -> (values {id: float}, uncompilable {id: first error message})"""
    bad = {}
    for attempt in range(3):
        live = [it for it in items if it["id"] not in bad]
        if not live:
            return {}, bad
        src = ctx.work / ("%s.cxx" % name)
        body = [PRELUDE.rstrip("\n")]
        first = len(PRELUDE.splitlines()) + 1
        for k, it in enumerate(live):
            body.append("static double f%d(const double* const v){ return %s; }" % (k, it["cxx"]))
        body.append("int main(){")
        for k, it in enumerate(live):
            vals = ",".join("%s" % float(x).hex() for x in it["values"]) or "0"
            body.append("{ const double v[]={%s}; std::printf(\"%s %%a\\n\", f%d(v)); }" % (vals, it["id"], k))
        body.append("return 0;}")
        src.write_text("\n".join(body) + "\n")
        exe = ctx.work / name
        cmd = ["g++", "-std=c++20", "-O0", "-w", "-fmax-errors=0"] + vfcore.include_flags("plain") + ["-o", exe, src]
        r = vfcore.run(cmd, timeout=1200, cwd=ctx.work)
        if r.rc == 0:
            rr = vfcore.run([exe], timeout=300, cwd=ctx.work)
            vals = {}
            for ln in rr.out.splitlines():
                a, _, b = ln.partition(" ")
                try:
                    vals[a] = float.fromhex(b)
                except ValueError:
                    vals[a] = float("nan")
            return vals, bad
        errs = {}
        for m in re.finditer(r"%s:(\d+):\d+: error: ([^\n]*)" % re.escape(str(src)), r.err):
            errs.setdefault(int(m.group(1)), m.group(2))
        hit = False
        for ln, msg in errs.items():
            k = ln - first
            if 0 <= k < len(live):
                bad[live[k]["id"]] = msg
                hit = True
        if not hit:
            raise vfcore.HarnessFailure("getCxxFormula batch %s does not compile for a reason not tied to a formula:\n%s" % (name, r.err[-3000:]))
    return {}, bad


def judge_cxx(ctx, items):
    by = {}
    for it in items:
        by.setdefault(it["stratum"], []).append(it)
    batches = []
    for st, its in by.items():
        size = 250
        for k in range(0, len(its), size):
            batches.append(("cxx_%s_%d" % (st.replace("-", "_"), k // size), its[k:k + size]))
    stats = {}
    mx = {}

    def one(b):
        return b, cxx_batch(ctx, b[0], b[1])
    for (name, its), (vals, bad) in vfcore.pmap(one, batches, workers=vfcore.NCPU):
        for it in its:
            st = it["stratum"]
            rp = {"formula": it["formula"], "cxx": it["cxx"], "variables": [float(v).hex() for v in it["values"]], "getValue": float(it["getValue"]).hex()}
            if it["id"] in bad:
                stats["uncompilable:" + st] = stats.get("uncompilable:" + st, 0) + 1
                ctx.violation("getCxxFormula:%s:uncompilable" % st, "getCxxFormula(%r) = %r does not compile: %s" % (it["formula"], it["cxx"], bad[it["id"]]), rp)
                continue
            if it["id"] not in vals:
                continue
            stats["judged:" + st] = stats.get("judged:" + st, 0) + 1
            w = vals[it["id"]]
            rt = abs(w - it["getValue"]) / it["tol"] if w == w else float("inf")
            mx[st] = max(mx.get(st, 0.0), rt if math.isfinite(rt) else 1e300)
            ctx.add_eval(1)
            if not (rt <= 1):
                ctx.violation("getCxxFormula:%s:value" % st, "the C++ text %r of %r evaluates to %r, getValue to %r" % (it["cxx"], it["formula"], w, it["getValue"]), rp)
    ctx.cov["getCxxFormula"] = {"counts": stats, "max_err_over_tol": {k: float("%.3g" % v) for k, v in mx.items()}}
    return stats


# ------------------------------------------------------------------------------------ rejection half (worker)
POOL = ["+", "-", "*", "/", "**", "(", ")", ",", "?", ":", "<", ">", "<=", ">=", "==", "&&", "||", "!", "x", "y", "2", "0.5", "1e3", "3.",
        "sin", "max", "power", "Cste", ":", "R", "exp", "H", "1", "-", "-", "+"]


def mutate(rng, toks):
    toks = list(toks)
    for _ in range(rng.choice((1, 1, 1, 2, 2, 3))):
        k = rng.randint(0, 11)
        i = rng.randrange(len(toks)) if toks else 0
        if k == 0 and toks:
            del toks[i]
        elif k == 1 and toks:
            toks.insert(i, toks[i])
        elif k == 2 and len(toks) > 1:
            j = min(i, len(toks) - 2)
            toks[j], toks[j + 1] = toks[j + 1], toks[j]
        elif k == 3 and toks:
            toks[i] = rng.choice(POOL)
        elif k == 4:
            toks.insert(i, rng.choice(POOL))
        elif k == 5 and toks:      # stray sign: a+-b, --a, a*-b, a**-b
            toks.insert(i, "-")
        elif k == 6 and toks:      # unbalance / rebalance parentheses
            ps = [j for j, t in enumerate(toks) if t in "()"]
            if ps:
                del toks[rng.choice(ps)]
            else:
                toks.insert(i, rng.choice("()"))
        elif k == 7:
            toks.append(rng.choice(POOL))
        elif k == 8 and toks:      # another operator at the same place (stays well formed: tests priorities)
            ops = [j for j, t in enumerate(toks) if t in ("+", "-", "*", "/", "**")]
            if ops:
                toks[rng.choice(ops)] = rng.choice(("+", "-", "*", "/", "**"))
        elif k == 9 and toks:      # redundant parentheses around one operand
            ats = [j for j, t in enumerate(toks) if (t[0].isalnum() or t[0] == ".") and not (j + 1 < len(toks) and toks[j + 1] in ("(", "<", ":"))
                   and not (j > 0 and toks[j - 1] in (":", "<"))]
            if ats:
                j = rng.choice(ats)
                toks[j:j + 1] = ["(", toks[j], ")"]
        else:                       # remove a matching pair of parentheses (stays well formed, changes the grouping)
            st, pairs = [], []
            for j, t in enumerate(toks):
                if t == "(":
                    st.append(j)
                elif t == ")" and st:
                    pairs.append((st.pop(), j))
            pairs = [(a, b) for a, b in pairs if not (a > 0 and (toks[a - 1][0].isalpha() or toks[a - 1] == ">"))]
            if pairs:
                a, b = rng.choice(pairs)
                del toks[b]
                del toks[a]
    out = ""
    for t in toks:
        sep = "" if rng.random() < 0.6 else " "
        if out and (out[-1].isalnum() or out[-1] in "._") and (t[0].isalnum() or t[0] in "._") and rng.random() < 0.9:
            sep = " "
        out += sep + t
    return out.strip()


PLUS_MINUS_CAP = 25
HAND = ["a+-b", "--a", "a--b", "a-+b", "+a", "a+", "a**", "**a", "a*/b", "(a", "a)", "()", "", " ", "a b", "2 3", "sin", "sin()", "sin(,)", "max(a)",
        "max(a,b,c)", "power<>(a)", "power<2>", "power<2>(a", "power<a>(b)", "power<2,>(a)", "power<2,3>(a)", "power<,2>(a)", "Cste::", "Cste::Z", "::R", "a?b:c", "a<b?1", "a<b?1:", "a<b?:2", "?1:2",
        "a<b<c?1:2", "a<b?1:c<d?2:3", "1e", "1e+", "1.2.3", "2x", "x2", "a+-b*c", "-a+-b", "a*-b", "a/-b", "a**-b", "a+-(b)", "(a)+-b", "sin(a+-b)",
        "a+-b+-c", "a+-2", "2+-a", "-+a", "a-", "-", "a<-b?1:2", "a<b&&?1:2", "!a<b?1:2", "a<b||c<d&&e<f?1:2", "2**3**2", "a&&b", "a&b?1:2", "a|b",
        "diff(a*a,a)", "a=b", "a==b", "a<=b", "a,b", "f(a)", "a(b)", "3(a)", "a[0]", "$a", "a.b", "1/0", "sqrt(-1)", "ln(0)", "exp(1000)"]


def reason_slug(mine):
    """class of a rejection by the reference parser: its message without positions (e.g. expected-'>'-read-',')"""
    m = mine.replace("reject: ", "")
    m = re.sub(r"at \d+", "", m)
    m = re.sub(r"near .*", "", m)
    m = re.sub(r"(unknown (?:function|constant)|qualified name|malformed number) .*", r"\1", m)
    return re.sub(r"\s+", "-", m.strip())[:48]


def reject_shard(args):
    seed, shard, ncases, binary, work, csts = args
    rng = random.Random((seed * 1000003 + shard) * 104729 + 7)
    env = {"x": 0.7, "y": 1.9, "z": -0.4, "T": 650.0, "t": 2.5, "p": 3.25, "a": 1.5, "b": 0.6, "eps": 0.02, "sig": 120.0, "X1": 0.3,
           "v_2": 2.2, "E": 7.0, "nu": 0.3, "c": 1.1, "d": 0.9, "e": 2.0, "f": 4.0, "R": 1.75}
    cases, lines = {}, []
    npm = skipped_pm = 0
    for i in range(ncases):
        cid = shard * 10000000 + i
        if shard == 0 and i < len(HAND):
            s, origin = HAND[i], "hand"
        else:
            for _ in range(20):
                c = value_case(rng, csts, rng.choice(("arith", "arith", "cond", "cxx")))
                if c is not None:
                    break
            base = E.to_formula(c["tree"])
            try:
                toks = [v for _, v in P.lex(base)]
            except (P.Reject, P.Undocumented):
                continue
            s, origin = mutate(rng, toks), base
        if SEP in s or "\n" in s:
            continue
        if re.search(r"\+\s*-", s):
            # '+' directly followed by '-' : the pattern of the TGroup::reduce invalid free; a bounded number per shard is run
            npm += 1
            if npm > PLUS_MINUS_CAP:
                skipped_pm += 1
                continue
        cases[str(cid)] = {"s": s, "origin": origin}
        varlist = [(n, v, v, v) for n, v in sorted(env.items())]
        cases[str(cid)]["line"] = line(cid, "F", s, varlist, [], [])
        lines.append(cases[str(cid)]["line"])
    out = {"stats": {}, "viol": [], "maxratio": 0.0, "notes": {}, "samples": []}

    def stat(k, n=1):
        out["stats"][k] = out["stats"].get(k, 0) + n
    if skipped_pm:
        stat("not-run:plus-minus-pattern-beyond-cap", skipped_pm)
    results, crashes, counters = drive(binary, lines, work, "reject",
                                       lambda w: "the formula %r (mutant of %r)" % (cases.get(w, {}).get("s"), cases.get(w, {}).get("origin")))
    for key, what, rp in crashes:
        if rp is not None:
            w = rp["line"].split(SEP, 1)[0]
            rp.update(formula=cases.get(w, {}).get("s"), origin=cases.get(w, {}).get("origin"))
        out["viol"].append((key, what, rp))
    for k, v in counters.items():
        stat(k, v)
    for cid, c in cases.items():
        f = results.get(cid)
        if f is None:
            continue
        stat("mutants")
        s = c["s"]
        try:
            t, notes = P.parse(s)
            mine = "ok"
        except P.Reject as ex:
            t, notes, mine = None, set(), "reject: %s" % ex
        except P.Undocumented:
            stat("not-judged:undocumented-extension")
            continue
        except RecursionError:
            t, notes, mine = None, set(), "reject: too deep"
        if f[0].startswith("exc"):
            stat("rejected-by-evaluator")
            if mine == "ok":
                stat("rejected-by-evaluator-but-well-formed")     # an exception is always an acceptable answer here
            continue
        stat("accepted-by-evaluator")
        got = float.fromhex(f[1])
        rp = {"formula": s, "origin": c["origin"], "line": c["line"], "evaluator_value": hexf(got), "reference_parser": mine}
        if mine != "ok":
            out["viol"].append(("reject:accepted-malformed:" + reason_slug(mine), "the malformed formula %r (%s) is accepted and evaluates to %r" % (s, mine, got), rp))
            continue
        undecided = notes & {"chained-pow", "mixed-logical"}
        names = unhex(f[2][5:]).split(",") if len(f) > 2 and f[2].startswith("vars=") else []
        e2 = dict(env)
        for n in E.variables(t):
            e2.setdefault(n, 1.25)
        try:
            ref, err, dec = E.evaluate(t, e2, csts)
        except (E.DomainError, OverflowError, ZeroDivisionError, ValueError, KeyError, RecursionError):
            stat("skipped-reference-undefined")
            continue
        if undecided:
            for n in undecided:
                k = n + (":same-as-left-to-right-reading" if abs(got - ref) <= 1e-9 * max(abs(ref), 1e-300) else ":different-reading")
                out["notes"][k] = out["notes"].get(k, 0) + 1
            continue
        if dec == 0.0 or not math.isfinite(err) or (ref != 0 and err > 1e6 * abs(ref)):
            stat("skipped-ill-conditioned")
            continue
        tol = KTOL * err * U + 1e-300
        ratio = abs(got - ref) / tol
        stat("judged-value")
        if notes:
            stat("judged-value:" + "+".join(sorted(notes)))
        out["maxratio"] = max(out["maxratio"], ratio)
        if len(out["samples"]) < 2:
            out["samples"].append({"mutant": s, "value": got})
        if not (ratio <= 1):
            rp["reference_value"] = hexf(ref)
            out["viol"].append(("reject:different-parse", "%r evaluates to %r; the documented grammar gives %r" % (s, got, ref), rp))
    return out


# ------------------------------------------------------------------------------------ recorded, not judged
def observations(ctx, binary):
    probes = {"chained-pow": ("2**3**2", {"left-to-right (2**3)**2": 64.0, "right-to-left 2**(3**2)": 512.0}),
              "chained-pow-neg": ("2**-1**2", {"(2**-1)**2": 0.25, "2**-(1**2)": 0.5}),
              "and-or": ("1<0&&1<0||0<1?1:2", {"&& binds tighter (C)": 1.0, "a&&(b||c)": 2.0}),
              "or-and": ("0<1||1<0&&1<0?1:2", {"&& binds tighter (C)": 1.0, "(a||b)&&c": 2.0})}
    lines = [line(i, "F", p[0], [], [], []) for i, p in enumerate(probes.values())]
    res, w, r = run_harness(binary, lines, ctx.work, timeout=60)
    obs = {}
    for i, (k, (s, readings)) in enumerate(probes.items()):
        f = res.get(str(i))
        if not f:
            obs[k] = "no answer"
        elif f[0] != "ok":
            obs[k] = "%s -> exception" % s
        else:
            v = float.fromhex(f[1])
            obs[k] = "%s = %r : %s" % (s, v, next((n for n, x in readings.items() if x == v), "other"))
    ctx.cov["recorded_not_judged"] = obs


# ------------------------------------------------------------------------------------ run
def fold(ctx, outs, prefix):
    stats, mx = {}, {}
    for o in outs:
        for k, v in o["stats"].items():
            stats[k] = stats.get(k, 0) + v
        m = o["maxratio"]
        if isinstance(m, dict):
            for k, v in m.items():
                mx[k] = max(mx.get(k, 0.0), v)
        else:
            mx["value"] = max(mx.get("value", 0.0), m)
        for key, what, rp in o["viol"]:
            if key == "__inconclusive__":
                ctx.inconc(what)
            else:
                ctx.violation(key, what, rp)
        for s in o.get("samples", []):
            ctx.sample(s)
        for k, v in o.get("notes", {}).items():
            ctx.count("not-judged:" + k, v)
    ctx.cov[prefix] = {"counts": stats, "max_err_over_tol": {k: float("%.3g" % v) for k, v in mx.items()}}
    return stats


def replay_one(ctx, binary, c):
    """--replay: run the recorded line alone and show what the harness answers"""
    res, w, r = run_harness(binary, [c["line"]], ctx.work, timeout=120)
    cls = crash_class(r)
    if cls:
        ctx.violation("replay:%s" % cls, "%s on %r\n%s" % (cls, c.get("formula"), r.err[-3000:]), c)
    else:
        print("replay: harness answers %s" % res, flush=True)
        ctx.inconc("replay of a value case: re-run the check with the same seed to re-judge it (harness answered %s)" % (res,))


def run(ctx):
    b = build(ctx)["asan"]
    if ctx.replay and isinstance(ctx.replay.get("case"), dict) and ctx.replay["case"].get("line"):
        return replay_one(ctx, b, ctx.replay["case"])
    csts = constants(ctx)
    ctx.require(len(csts) == 24, "only %d constants parsed from PhysicalConstants.hxx" % len(csts))
    ctx.cov["rule"] = ("value half: one case = one random tree (depth 2..8) over 1-4 variables with random boxes, printed with random redundant "
                       "parentheses and blanks, and one point of the box; a case is judged when its reference value is finite, its rounding "
                       "bound below 1e6 ulp and no comparison/H() depends on rounding; distinct = distinct formula text. rejection half: one "
                       "case = 1-3 token mutations (drop, duplicate, swap, replace, insert, stray '-', parenthesis) of a well-formed formula, "
                       "plus a fixed list of hand-written malformed formulas")
    nshards = vfcore.NCPU
    nv = ctx.n(8000, 300000)
    nr = ctx.n(20000, 800000)
    with cf.ProcessPoolExecutor(nshards) as ex:
        vouts = list(ex.map(value_shard, [(ctx.seed, i, (nv + nshards - 1) // nshards, str(b), str(ctx.work), csts) for i in range(nshards)]))
        routs = list(ex.map(reject_shard, [(ctx.seed, i, (nr + nshards - 1) // nshards, str(b), str(ctx.work), csts) for i in range(nshards)]))
    vs = fold(ctx, vouts, "value_half")
    cxx_items = [it for o in vouts for it in o["cxx"]]
    if not ctx.thorough:
        # the compile cost is bounded in the quick tier: 2000 formulas of the main stratum + all of the one-feature strata
        main = [it for it in cxx_items if it["stratum"] == "cxx"][:2000]
        cxx_items = main + [it for it in cxx_items if it["stratum"] != "cxx"]
    else:
        main = [it for it in cxx_items if it["stratum"] == "cxx"][:30000]
        cxx_items = main + [it for it in cxx_items if it["stratum"] != "cxx"]
    cs = judge_cxx(ctx, cxx_items)
    rs = fold(ctx, routs, "rejection_half")
    observations(ctx, b)
    judged = sum(v for k, v in vs.items() if k.startswith("judged:getValue:"))
    ctx.add_eval(judged + rs.get("mutants", 0))
    ctx.add_distinct_n(judged + rs.get("accepted-by-evaluator", 0))
    for st in ("arith", "cond", "cxx", "params"):
        ctx.require(vs.get("judged:getValue:" + st, 0) >= 0.3 * nv * dict(VALUE_STRATA)[st], "stratum %s: %d judged values" % (st, vs.get("judged:getValue:" + st, 0)))
    ctx.require(vs.get("judged:resolveDependencies:params", 0) >= 100 and vs.get("judged:createFunctionByChangingParametersIntoVariables:params", 0) >= 100,
                "parameter rewriting: too few judged cases %s" % {k: v for k, v in vs.items() if "params" in k})
    ctx.require(cs.get("judged:cxx", 0) >= 1000, "getCxxFormula: %d compiled formulas judged" % cs.get("judged:cxx", 0))
    ctx.require(rs.get("accepted-by-evaluator", 0) >= 1000 and rs.get("rejected-by-evaluator", 0) >= 1000,
                "rejection half: accepted %d / rejected %d mutants" % (rs.get("accepted-by-evaluator", 0), rs.get("rejected-by-evaluator", 0)))
    ctx.assumptions += ["unary minus binds tighter than * / and looser than ** on its left (-a**b = -(a**b)); a unary minus directly after a binary operator applies to the following factor",
                        "a conditional has the lowest priority (C reading); chained ** and mixed &&/|| without parentheses are outside the judged domain",
                        "an exception raised by getValue for a value whose reference is finite and well-conditioned is a violation (same libm calls, same errno rule)"]
