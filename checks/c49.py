"""C49 — MTest results do not depend on solver options (DESIGN.md §4.6)."""
import math
import re
import statistics

import vfcore
from checks import mt_common as M
from checks import c48

META = {
    "engine": "mtest", "level": "exploration", "design_ref": "DESIGN.md §4.6 C49",
    "technique": "differential runs of the real mtest binary: one random well-posed problem solved under a covering array of (15 acceleration settings x 4 prediction policies x 4 stiffness matrix types x 4 rounding modes x sub-stepping on/off x 3 verbosity levels x 4 iteration limits); converged result files compared column by column with a tolerance derived from @StrainEpsilon/@StressEpsilon and a stiffness estimate",
    "text": "Random mixed-control problems on elastic, Norton (two implementations) and plasticity behaviours generated from the reference .mfront files are each solved under every row of a pairwise covering array of the solver options (quick) or the array plus 100 random rows of the full product, 100 problems (thorough). All runs of a problem that complete with the same accepted time steps must give the same strains, stresses and internal state variables at every output time within c.(eeps, seps): per step the distance of a converged iterate to the discrete solution is at most eeps + seps/k_min for strains and seps + 3E.(that) for stresses (k_min: smallest tangent modulus, estimated from the material and the observed stress level); these laws are non-expansive so the bound grows at most linearly with the number of steps, and c = 10 x steps is used (the evidence reports the worst spread/tolerance). Besides the comparison between runs, every state accepted by the solver (every row of the @OutputFrequency 'EveryPeriod' result file, sub-steps included) is checked against the stated convergence criteria: imposed strains within eeps, imposed stresses within seps and the stress of every uncontrolled component (the equilibrium residual) within seps; an accepted state that is not converged is a violation whatever the other runs say. Small @MaximumNumberOfIterations values make slowly converging option sets reach the iteration limit and sub-step, at every verbosity level (the evidence counts such runs per level). Configurations that do not converge or are not supported by the behaviour are counted, not judged; runs that sub-stepped solve a different time discretisation and are compared only for the path-independent elastic behaviour.",
    "note": "Trusted: the stiffness estimate behind the tolerance (problems with E/k_min > 1e4 are skipped and counted). The 'Random' rounding mode is not used (not replayable). Energies are not compared.",
}

NEEDED = ["Elasticity", "Norton", "Plasticity", "ImplicitNorton"]
ACC = ["none", "UseCastem", "Cast3M", "Secant", "AlternateSecant", "AlternateDelta2", "Alternate2Delta", "CrossedSecant", "CrossedDelta2",
       "Crossed2Delta", "Crossed2Deltabis", "Steffensen", "IronsTuck", "UAnderson", "FAnderson"]
PRED = ["NoPrediction", "LinearPrediction", "ElasticPrediction", "TangentOperatorPrediction"]
# accepted by the parser but refused at initialisation for generic behaviours on the unchanged tree ("unsupported prediction
# policy" / "invalid or unspecified stiffness matrix"): probed once per problem and counted, not part of the array
PRED_PROBED = ["ElasticPredictionFromMaterialProperties", "SecantOperatorPrediction"]
KTYPE = ["Elastic", "SecantOperator", "TangentOperator", "ConsistentTangentOperator"]
RDM = ["ToNearest", "UpWard", "DownWard", "TowardZero"]
SUBS = [1, 10]
# verbosity: the solver's decisions must not depend on what it prints (level1 is the level at which iteration reports are written)
VERB = ["quiet", "level0", "level1"]
# @MaximumNumberOfIterations: default, and small values so that slowly converging option sets (elastic stiffness, no
# acceleration...) reach the limit and sub-step (or fail when sub-stepping is off)
ITER = [None, 3, 5, 12]
FACTORS = [ACC, PRED, KTYPE, RDM, SUBS, VERB, ITER]
HYPS = ["Tridimensional", "Axisymmetrical", "GeneralisedPlaneStrain", "AxisymmetricalGeneralisedPlaneStrain", "PlaneStrain"]


def build(ctx):
    return M.build_libs(NEEDED)


def factory_names():
    """cross-check ACC against AccelerationAlgorithmFactory.cxx of the current tree"""
    src = (vfcore.REPO / "mtest/src/AccelerationAlgorithmFactory.cxx").read_text()
    return sorted(set(re.findall(r'registerAlgorithm\(\s*"([^"]+)"', src)))


def pairwise(g, factors):
    """greedy covering array of strength 2 -> list of index tuples"""
    need = set()
    for a in range(len(factors)):
        for b in range(a + 1, len(factors)):
            for i in range(len(factors[a])):
                for j in range(len(factors[b])):
                    need.add((a, i, b, j))
    rows = []
    while need:
        best, bestc = None, -1
        for _ in range(40):
            # seed a candidate with one uncovered pair
            a, i, b, j = g.choice(sorted(need)) if g.random() < 0.7 else (0, g.randrange(len(factors[0])), 1, g.randrange(len(factors[1])))
            cand = [g.randrange(len(f)) for f in factors]
            cand[a], cand[b] = i, j
            c = sum(1 for x in range(len(factors)) for y in range(x + 1, len(factors)) if (x, cand[x], y, cand[y]) in need)
            if c > bestc:
                best, bestc = cand, c
        rows.append(tuple(best))
        for x in range(len(factors)):
            for y in range(x + 1, len(factors)):
                need.discard((x, best[x], y, best[y]))
    return rows


def gen_problem(seed, i, libs):
    g = vfcore.rng(seed, "c49", "problem", i)
    name = NEEDED[i % len(NEEDED)]
    hyp = g.choice(HYPS)
    law = M.LAW[name]
    mp, info, eamp, samp = M.rand_material(g, law)
    nsteps = g.randrange(5, 13)
    T = 10.0 ** g.uniform(0, 3)
    ts = [0.0]
    for _ in range(nsteps):
        ts.append(ts[-1] + T / nsteps * g.uniform(0.6, 1.4))
    cons = M.rand_control(g, hyp, eamp, samp, ts[0], ts[-1], pfree=0.3, pstress=0.35)
    eeps = 10.0 ** g.uniform(-13, -11)
    seps = 10.0 ** g.uniform(-3, -1) * (info["E"] / 1.5e11)
    return {"i": i, "behaviour": name, "law": law, "hyp": hyp, "mp": mp, "info": info, "times": ts, "cons": cons, "eeps": eeps, "seps": seps,
            "lib": libs[name]}


def config_lines(cfg):
    acc, pred, kt = cfg[:3]
    L = []
    if acc == "UseCastem":
        L.append("@UseCastemAccelerationAlgorithm true;")
    elif acc != "none":
        L.append("@AccelerationAlgorithm '%s';" % acc)
    L.append("@PredictionPolicy '%s';" % pred)
    L.append("@StiffnessMatrixType '%s';" % kt)
    return L


class _Rows:
    """result restricted to some rows (same interface as mt_common.Res for what compare() uses)"""

    def __init__(self, names, rows):
        self.names, self.rows = names, rows

    def col(self, name):
        return self.names.index(name)


def free_components(pb):
    """(strain name, stress name) of the components left uncontrolled: mtest solves S = 0 for them.  In PlaneStrain the
    axial strain is not an unknown."""
    ctl = {c[1:] for _, c, _ in pb["cons"]}
    out = []
    for e in M.ALL_E[pb["hyp"]]:
        if e[1:] in ctl or (pb["hyp"] == "PlaneStrain" and e == "EZZ"):
            continue
        out.append((e, "S" + e[1:]))
    return out


def accepted_states_residual(pb, res):
    """every accepted state (requested times and sub-steps, rows of the EveryPeriod output) against the convergence criteria the
    input file states: imposed strains within eeps, imposed stresses within seps, stress of the uncontrolled components (the
    equilibrium residual) within seps.  -> (worst ratio, description of the worst offender or None)"""
    worst, what = 0.0, None
    free = free_components(pb)
    for k in range(1, len(res.rows)):
        row = res.rows[k]
        t, tp = row[0], res.rows[k - 1][0]
        for kind, comp, ev in pb["cons"]:
            eps = pb["eeps"] if kind == "E" else pb["seps"]
            ref = ev(t)
            tol = eps + 4e-15 * abs(ref) + c48.time_slack(ev, t, 8) + 1e-13 * abs(ref - ev(tp)) + 5e-324
            err = abs(row[res.col(comp)] - ref)
            r = err / tol if math.isfinite(err) else math.inf
            if r > worst:
                worst, what = r, "imposed %s %s at t=%r is %r, its evolution gives %r (criterion %.3g)" % (
                    "strain" if kind == "E" else "stress", comp, t, row[res.col(comp)], ref, eps)
        for e, sname in free:
            v = row[res.col(sname)]
            r = abs(v) / (pb["seps"] * (1 + 1e-9)) if math.isfinite(v) else math.inf
            if r > worst:
                worst, what = r, "uncontrolled component %s: stress %s = %r at t=%r, i.e. the equilibrium residual exceeds @StressEpsilon %.3g" % (
                    e, sname, v, t, pb["seps"])
    return worst, what


def run_config(ctx, pb, k, cfg):
    d = ctx.work / ("p%d" % pb["i"]) / ("c%d" % k)
    d.mkdir(parents=True, exist_ok=True)
    txt = M.mtest_text(pb["lib"], M.SPECS[pb["behaviour"]][1], pb["hyp"], pb["mp"], pb["times"], pb["cons"], pb["eeps"], pb["seps"],
                       extra=config_lines(cfg) + ["@OutputFrequency 'EveryPeriod';"], maxsub=cfg[4], itermax=cfg[6])
    (d / "a.mtest").write_text(txt)
    r = M.run_mtest(d, "a.mtest", args=["--verbose=" + cfg[5], "--rounding-direction-mode=" + cfg[3]], timeout=120)
    crash = ctx.classify_crash(r, recognised_terminate=True)
    o = {"cfg": cfg, "status": None, "res": None, "full": None, "substeps": 0, "text": txt}
    if crash == "hang":
        o["status"] = "timeout"
    elif crash:
        o["status"] = "crash:" + crash
        o["tail"] = r.out[-1500:]
    elif not M.completed(r):
        o["status"] = "failed:" + c48.failure_reason(r.out)
    else:
        res = M.Res(d / "a.res")
        # the result file lists every accepted period (the verbosity must not matter, so nothing is read from the log);
        # the rows of the requested times are found by their time
        req = pb["times"]
        if res.ok and len(res.rows) >= len(req):
            # (under a directed rounding mode the times are *printed* with the last digit rounded that way: matched within 1e-12)
            sel, j = [], 0
            for row in res.rows:
                if j < len(req) and abs(row[0] - req[j]) <= 1e-12 * max(abs(req[j]), req[-1] - req[0]):
                    sel.append(row)
                    j += 1
            if j == len(req):
                o["status"] = "ok"
                o["full"] = res
                o["res"] = _Rows(res.names, sel)
                o["substeps"] = len(res.rows) - len(req)
        if o["status"] is None:
            o["status"] = "unreadable"
    return o


def von_mises(row, names):
    s = [row[names.index(n)] for n in names if re.fullmatch(r"S(XX|YY|ZZ|RR|TT|XY|XZ|YZ|RZ)", n)]
    tr = sum(s[:3])
    q = sum(x * x for x in s) - tr * tr / 3.0
    return math.sqrt(max(0.0, 1.5 * q))


def stiffness_ratio(pb, ref):
    """upper estimate of E / (smallest tangent modulus met on the path)"""
    info, law = pb["info"], pb["law"]
    E = info["E"]
    if law == "elastic":
        return 3.0
    if law == "plastic":
        return 3.0 * (E + info["H"]) / info["H"]
    seq = max(von_mises(r, ref.names) for r in ref.rows)
    dtm = max(b - a for a, b in zip(pb["times"], pb["times"][1:]))
    n, A = info["n"], info["A"]
    return 3.0 * (1.0 + 1.5 * E * dtm * n * A * seq ** (n - 1.0))


def column_kind(name):
    if re.fullmatch(r"S(XX|YY|ZZ|RR|TT|XY|XZ|YZ|RZ)", name):
        return "stress"
    if re.fullmatch(r"E(XX|YY|ZZ|RR|TT|XY|XZ|YZ|RZ)", name) or name.startswith("ElasticStrain") or "Strain" in name:
        return "strain"
    return None


def cfg_key(cfg):
    return "%s:%s:%s:%s:sub%d:%s:it%s" % (cfg[0], cfg[1], cfg[2], cfg[3], cfg[4], cfg[5], cfg[6] or "default")


def compare(ctx, pb, outs, mutate=None):
    ok = [o for o in outs if o["status"] == "ok"]
    if mutate:
        mutate(pb, ok)
    # (a) every accepted state of every completed run satisfies the convergence criteria, whatever the other runs say
    for o in ok:
        w, what = accepted_states_residual(pb, o["full"])
        ctx.count("accepted_states_checked", len(o["full"].rows) - 1)
        ctx.maxstat("max_accepted_state_residual_over_criterion", float("%.3g" % min(w, 1e30)))
        if w > 1.0:
            cfg = o["cfg"]
            ctx.violation("accepted-state-not-converged:%s:%s" % (pb["behaviour"], cfg_key(cfg)),
                          "%s (%s): a state accepted by the solver does not meet the convergence criteria: %s (eeps=%.3g, seps=%.3g, %d sub-steps, "
                          "configuration %s)" % (pb["behaviour"], pb["hyp"], what, pb["eeps"], pb["seps"], o["substeps"], cfg),
                          {"mtest_file": o["text"], "rounding_mode": cfg[3], "verbose": cfg[5]})
    # same discrete problem: runs that sub-stepped are kept only for the path-independent law
    same = [o for o in ok if o["substeps"] == 0 or pb["law"] == "elastic"]
    ctx.count("runs_ok", len(ok))
    ctx.count("runs_ok_substepped", sum(1 for o in ok if o["substeps"] > 0))
    ctx.count("runs_ok_substepped_excluded", len(ok) - len(same))
    if len(same) < 3:
        ctx.count("problems_with_fewer_than_3_comparable_runs")
        return
    names = same[0]["res"].names
    nrow = len(pb["times"])
    med = [[statistics.median(o["res"].rows[k][c] for o in same) for c in range(len(names))] for k in range(nrow)]

    class _R:
        pass
    ref = _R()
    ref.names, ref.rows = names, med
    ratio = stiffness_ratio(pb, ref)
    if not (ratio <= 1e4):
        ctx.count("problems_skipped_ill_conditioned")
        return
    E = pb["info"]["E"]
    te = pb["eeps"] + ratio * pb["seps"] / E
    ts = pb["seps"] + 3 * E * te
    te_all = te + 3 * ts / E
    worst = (0.0, None)
    ncmp = 0
    for c, n in enumerate(names):
        kind = column_kind(n)
        if kind is None:
            continue
        for k in range(1, nrow):
            tol = 10.0 * k * (ts if kind == "stress" else te_all)
            vals = [o["res"].rows[k][c] for o in same]
            ncmp += len(vals)
            if not all(math.isfinite(v) for v in vals):
                bad = next(o for o in same if not math.isfinite(o["res"].rows[k][c]))
                worst = (math.inf, (k, c, n, bad, tol, vals))
                break
            spread = max(vals) - min(vals)
            r = spread / tol
            if r > worst[0]:
                far = max(same, key=lambda o: abs(o["res"].rows[k][c] - med[k][c]))
                worst = (r, (k, c, n, far, tol, vals))
    ctx.count("comparisons", ncmp)
    ctx.count("problems_compared")
    ctx.count("compared:%s" % pb["behaviour"])
    ctx.add_distinct("p%d" % pb["i"])
    ctx.maxstat("max_spread_over_tol", float("%.3g" % min(worst[0], 1e30)))
    ctx.maxstat("max_spread_over_tol:%s" % pb["behaviour"], float("%.3g" % min(worst[0], 1e30)))
    ctx.maxstat("max_stiffness_ratio", float("%.3g" % ratio))
    if worst[0] > 1.0:
        k, c, n, far, tol, vals = worst[1]
        cfg = far["cfg"]
        ctx.violation("%s:%s" % (pb["behaviour"], cfg_key(cfg)),
                      "%s (%s): column %s at t=%r spreads over %.6g (min %r, max %r, median %r) among %d converged configurations, tolerance %.3g "
                      "(eeps=%.3g, seps=%.3g, E/kmin<=%.3g); farthest from the median: %s -> %r" %
                      (pb["behaviour"], pb["hyp"], n, pb["times"][k], max(vals) - min(vals), min(vals), max(vals), med[k][c], len(vals), tol,
                       pb["eeps"], pb["seps"], ratio, cfg, far["res"].rows[k][c]),
                      {"mtest_file_of_outlier": far["text"], "rounding_mode": cfg[3], "configs": [o["cfg"] for o in same],
                       "values": vals})


def run(ctx, mutate=None):
    libs = build(ctx)
    fn = factory_names()
    missing = [a for a in fn if a not in ACC]
    ctx.require(not missing, "acceleration algorithms of the factory not covered by the check: %s" % missing)
    nprob = ctx.n(20, 100)
    ctx.cov["rule"] = ("case = one mtest run = (problem, configuration); problem = behaviour x hypothesis x material x mixed control x grid; "
                       "configuration = row of a pairwise covering array over %s values (+100 random rows of the full product in thorough); "
                       "distinct = problems with >= 3 comparable converged runs" % "x".join(str(len(f)) for f in FACTORS))
    tasks = []
    pbs = []
    for i in range(nprob):
        pb = gen_problem(ctx.seed, i, libs)
        g = vfcore.rng(ctx.seed, "c49", "cov", i)
        rows = pairwise(g, FACTORS)
        if ctx.thorough:
            seen = set(rows)
            for _ in range(100):
                r = tuple(g.randrange(len(f)) for f in FACTORS)
                if r not in seen:
                    seen.add(r)
                    rows.append(r)
        cfgs = [tuple(f[j] for f, j in zip(FACTORS, r)) for r in rows]
        cfgs += [("none", p, "ConsistentTangentOperator", "ToNearest", 1, "level1", None) for p in PRED_PROBED]
        pbs.append((pb, cfgs))
        for k, cfg in enumerate(cfgs):
            tasks.append((pb, k, cfg))
    ctx.cov["configurations_per_problem"] = len(pbs[0][1])
    outs = vfcore.pmap(lambda t: run_config(ctx, t[0], t[1], t[2]), tasks, workers=min(vfcore.NCPU, 12))
    by = {}
    for t, o in zip(tasks, outs):
        by.setdefault(t[0]["i"], []).append(o)
        ctx.add_eval(1)
        st = o["status"]
        ctx.count("status:" + st.split(":")[0])
        if st.startswith("failed:"):
            ctx.count("not_converged_or_unsupported:" + st[7:])
            ctx.count("failed:acc=%s" % o["cfg"][0])
            ctx.count("failed:pred=%s" % o["cfg"][1])
        elif st == "ok":
            for f, v in zip(("acc", "pred", "ktype", "rdm", "sub", "verb", "itermax"), o["cfg"]):
                ctx.count("ok:%s=%s" % (f, v))
            if o["substeps"] > 0:
                ctx.count("ok_runs_that_substepped:verbose=%s" % o["cfg"][5])
                if o["cfg"][6]:
                    ctx.count("ok_runs_that_hit_small_iteration_limit_and_substepped:verbose=%s" % o["cfg"][5])
        if st.startswith("crash:"):
            ctx.violation("mtest-crash:%s:%s" % (st[6:], t[0]["behaviour"]), "mtest died (%s) under configuration %s\n%s" % (st, o["cfg"], o.get("tail", "")),
                          {"mtest_file": o["text"], "rounding_mode": o["cfg"][3]})
    for pb, cfgs in pbs:
        compare(ctx, pb, by[pb["i"]], mutate)
        ctx.sample({"problem": pb["i"], "behaviour": pb["behaviour"], "hyp": pb["hyp"], "steps": len(pb["times"]) - 1,
                    "constraints": [(k, c, e.text[:50]) for k, c, e in pb["cons"]],
                    "ok": sum(1 for o in by[pb["i"]] if o["status"] == "ok"), "configs": len(cfgs)})
    cnt = ctx.cov.get("counters", {})
    nto = cnt.get("status:timeout", 0)
    if nto > max(3, len(tasks) // 100):
        ctx.inconc("%d runs hit the watchdog" % nto)
    ctx.require(cnt.get("problems_compared", 0) >= nprob // 2, "only %d of %d problems could be compared" % (cnt.get("problems_compared", 0), nprob))
    ctx.cov["probed_prediction_policies_ok_runs"] = {p: cnt.get("ok:pred=%s" % p, 0) for p in PRED_PROBED}
    for v in VERB:
        nsub = cnt.get("ok_runs_that_hit_small_iteration_limit_and_substepped:verbose=%s" % v, 0)
        ctx.require(nsub >= ctx.n(8, 100), "only %d completed runs reached a small iteration limit and sub-stepped at --verbose=%s" % (nsub, v))
    for f, vals in (("acc", ACC), ("pred", PRED), ("ktype", KTYPE), ("rdm", RDM), ("sub", SUBS), ("verb", VERB), ("itermax", ITER)):
        for v in vals:
            if cnt.get("ok:%s=%s" % (f, v), 0) == 0:
                ctx.count("option_value_never_converged:%s=%s" % (f, v))
    never = [k for k in cnt if k.startswith("option_value_never_converged")]
    ctx.cov["option_values_never_converged"] = never
    ctx.require(not never, "option values that never produced a converged run: %s" % never)
