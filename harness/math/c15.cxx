// C15 — geometricDiscretization yields an ordered graded mesh (DESIGN.md §4.1)
//
// Judged from the returned vector only:
//   size == n+1, v[0] == xb and v[n] == xe (bitwise), strict monotonicity in the direction of
//   xe-xb, and a constant ratio between consecutive element lengths.
// The ratio oracle does not use the library's formula: the constant is the observed ratio of
// the two largest consecutive interior elements, every interior ratio is compared with it, and the ratio that
// involves the last element (which the code closes on xe) is compared with the same constant.
// Tolerances come from a forward error analysis of *any* implementation that accumulates
// n terms f*r^k (see comments at tol_int / tol_last).
#define VFH_MAIN
#include "vfh.hxx"
#include <algorithm>
#include <vector>
#include "TFEL/Math/Discretization1D.hxx"
#include "TFEL/Math/vector.hxx"

typedef long double L;
static vf::Reporter R;

// how the ratio of the *ideal* mesh follows from the densities: used only to place the
// inputs in the strata and to apply the domain restriction of DESIGN §4.1 (representable
// regime); never used as an oracle.
static L ideal_ratio(L xb, L xe, L db, L de) {
  const L l = xe - xb, rdb = db / l, rde = de / l;
  const L x = 0.5L * (rdb - rde) * (rdb - rde);
  return rde < rdb ? 1 + x - std::sqrt(x * (2 + x)) : 1 + x + std::sqrt(x * (2 + x));
}

struct Case {
  L xb, xe, db, de;
  long n;
  const char* stratum;
};

static const long NS[] = {1, 2, 3, 10, 100, 1000, 10000, 100000};

template <typename T>
static bool gen(vf::Rng& g, uint64_t idx, bool thorough, Case& c) {
  const int kind = int(idx % 4);  // 0 graded, 1,2 near-uniform, 3 equal densities
  int ni = g.irange(0, 7);
  if (sizeof(T) == 4 && ni > 4) ni = g.irange(0, 4);            // float: n <= 100 (n^2 eps < 1e-3)
  if (!thorough && ni == 7 && g.irange(0, 3) != 0) ni = g.irange(0, 6);  // fewer 1e5 meshes in quick
  c.n = NS[ni];
  if (g.irange(0, 3) == 0 && c.n >= 10) c.n = std::max<long>(4, long(c.n * g.uni(0.11, 1.0)));  // non-round n
  const L len = g.logmag(-6, 6);
  const L off = g.coin() ? 0 : g.sign() * g.logmag(-3, 3) * len;
  const bool fwd = g.coin();
  L xb = off, xe = off + (fwd ? len : -len);
  xb = T(xb); xe = T(xe);
  const L l = xe - xb;
  // relative densities (the ratio only depends on their difference)
  L rb = g.logmag(-3, -0.3), re;
  if (kind == 0) {
    c.stratum = "graded";
    re = rb * g.logmag(-3, 3);
    if (re > 2) re = 2;
  } else if (kind == 3) {
    c.stratum = "equal";
    re = rb;
  } else {
    const L d = g.logmag(-12, -3);  // |r-1| ~ d, straddles the 1e-5 switch of the code
    // two strata so that a violation is attributed to the right side of the switch; the band
    // [1e-5, 1.1e-5] is labelled with the lower side (r is computed in T by the code)
    c.stratum = d <= 1.1e-5L ? "near-uniform" : "nearly-equal";
    re = rb + g.sign() * d;
    if (re <= 0) re = rb + d;
  }
  const L al = std::fabs(l);
  c.db = T(rb * al); c.de = T(re * al);
  if (g.irange(0, 7) == 0) { c.db = -c.db; c.de = -c.de; }  // the code accepts any non-zero density
  c.xb = xb; c.xe = xe;
  // the stratum is a property of the rounded inputs, whatever the way they were drawn: a
  // "graded" draw with a small first density can land on either side of the 1e-5 switch
  const L d = std::fabs(ideal_ratio(c.xb, c.xe, c.db, c.de) - 1);
  c.stratum = d == 0 ? "equal" : d <= 1.1e-5L ? "near-uniform" : d <= 1e-3L ? "nearly-equal" : "graded";
  return true;
}

// domain restriction (DESIGN §4.1 C15): smallest element of the ideal mesh > 1e-9 |xe-xb|
// (and well above the spacing of the floating-point grid at the nodes), r^n finite.
template <typename T>
static bool in_domain(const Case& c) {
  const L eps = std::numeric_limits<T>::epsilon();
  const L l = c.xe - c.xb, al = std::fabs(l);
  const L r = ideal_ratio(c.xb, c.xe, c.db, c.de);
  if (!(r > 0) || !std::isfinite((double)r)) return false;
  const L lg = c.n * std::log(r);
  if (std::fabs(lg) > 600) return false;  // r^n not finite / not representable
  const L rn = std::exp(lg);
  // first element of the ideal mesh
  const L f = std::fabs(r - 1) * c.n < 1e-9L ? al / c.n : al * (1 - r) / (1 - rn);
  const L hmin = std::min(f, f * rn / r);
  const L scale = std::fabs(c.xb) + std::fabs(c.xe);
  if (!(hmin > 1e-9L * al)) return false;
  if (!(hmin > 400 * c.n * eps * al)) return false;
  if (!(hmin > 1e4L * eps * scale)) return false;
  return true;
}

template <typename T, typename Vec>
static void one(const vf::Args& a, uint64_t idx, const char* tname) {
  vf::Rng g(a.seed, 1500 + sizeof(T) + 16 * sizeof(typename Vec::value_type), idx);
  Case c;
  gen<T>(g, idx, a.thorough, c);
  char api[96];
  auto nm = [&](const char* f) { std::snprintf(api, sizeof api, "%s/%s", f, tname); vf::set_case(api, c.stratum, idx); return api; };
  if (!in_domain<T>(c)) { R.skip(nm("domain"), c.stratum); return; }
  const T xb = T(c.xb), xe = T(c.xe), db = T(c.db), de = T(c.de);
  const long n = c.n;
  uint64_t h = 0;
  { T in[4] = {xb, xe, db, de}; h = vf::hash_arr(in, 4, vf::hash_bytes(&n, sizeof n)); }
  auto dump = [&] {
    vf::J j; j.s("T", tname).f("xb", xb).f("xe", xe).f("db", db).f("de", de).i("n", n)
        .d("ideal_r_minus_1", ideal_ratio(c.xb, c.xe, c.db, c.de) - 1);
    return j.str();
  };
  static Vec v;  // reused: a fresh 1e5-node vector per case costs more (ASan quarantine) than the call under test
  try {
    tfel::math::geometricDiscretization(v, xb, xe, db, de, typename Vec::size_type(n));
  } catch (std::exception& e) {
    // a refusal of an in-domain input is not what the property describes
    R.expect(nm("accepts"), c.stratum, idx, h, false, dump, "exception thrown for an in-domain input");
    return;
  }
  const L eps = std::numeric_limits<T>::epsilon();
  R.expect(nm("size"), c.stratum, idx, h, long(v.size()) == n + 1, dump);
  if (long(v.size()) != n + 1) return;
  R.expect(nm("first"), c.stratum, idx, h, v[0] == xb, dump);
  R.expect(nm("last"), c.stratum, idx, h, v[size_t(n)] == xe, dump);
  // strict monotonicity in the direction of xe - xb
  const L dir = xe > xb ? 1 : -1;
  long bad = -1;
  for (long i = 0; i < n; ++i) {
    const L hh = (L(v[size_t(i + 1)]) - L(v[size_t(i)])) * dir;
    if (!(hh > 0)) { bad = i; break; }
  }
  auto dumpm = [&] {
    vf::J j; j.s("T", tname).f("xb", xb).f("xe", xe).f("db", db).f("de", de).i("n", n).i("first_bad_element", bad);
    if (bad >= 0) j.f("x_i", v[size_t(bad)]).f("x_ip1", v[size_t(bad + 1)]);
    j.d("ideal_r_minus_1", ideal_ratio(c.xb, c.xe, c.db, c.de) - 1);
    return j.str();
  };
  R.expect(nm("monotone"), c.stratum, idx, h, bad < 0, dumpm, "nodes must be strictly monotone from xb to xe");
  if (bad >= 0) return;
  if (n < 3) { R.skip(nm("ratio"), c.stratum); return; }  // fewer than two ratios: nothing to compare
  // element lengths (exact in long double) and ratios
  static std::vector<L> hh, q;
  hh.assign(static_cast<size_t>(n), 0); q.assign(static_cast<size_t>(n - 1), 0);
  for (long i = 0; i < n; ++i) hh[size_t(i)] = (L(v[size_t(i + 1)]) - L(v[size_t(i)])) * dir;
  for (long i = 0; i + 1 < n; ++i) q[size_t(i)] = hh[size_t(i + 1)] / hh[size_t(i)];
  // the constant: the observed ratio of the interior pair with the largest elements, i.e. the
  // one least affected by the rounding of the node coordinates; its own uncertainty (ref_unc)
  // is added to every tolerance.  (A median would inherit the noise of the small elements.)
  long ia = 0;
  for (long i = 0; i + 2 < n; ++i)
    if (std::min(hh[size_t(i)], hh[size_t(i + 1)]) > std::min(hh[size_t(ia)], hh[size_t(ia + 1)])) ia = i;
  const L cst = q[size_t(ia)];
  const L al = std::fabs(L(xe) - L(xb));
  const L scale = std::fabs(L(xb)) + std::fabs(L(xe)) + al;
  const L ref_unc = 4 + 3 * scale * (1 / hh[size_t(ia)] + 1 / hh[size_t(ia + 1)]);
  // interior ratios: h_i is one term f*r^i (one rounding in the power recurrence, one in the
  // product) plus the roundings of the two node additions, each bounded by eps*scale:
  //   |dq/q| <= 4 eps + 3 eps scale (1/h_i + 1/h_{i+1})
  const L K = 32;
  L worst = 0, worst_tol = 1; long wi = -1;
  for (long i = 0; i + 2 < n; ++i) {
    const L tol = K * eps * (ref_unc + 4 + 3 * scale * (1 / hh[size_t(i)] + 1 / hh[size_t(i + 1)]));
    const L err = std::fabs(q[size_t(i)] / cst - 1);
    if (wi < 0 || err / tol > worst / worst_tol) { worst = err; worst_tol = tol; wi = i; }
  }
  auto dumpr = [&](long i) {
    return [&, i] {
      vf::J j; j.s("T", tname).f("xb", xb).f("xe", xe).f("db", db).f("de", de).i("n", n).i("ratio_index", i)
          .f("reference_ratio", cst).i("reference_index", ia).f("ratio", q[size_t(i)]).d("ratio_over_reference_minus_1", q[size_t(i)] / cst - 1)
          .d("ideal_r_minus_1", ideal_ratio(c.xb, c.xe, c.db, c.de) - 1);
      return j.str();
    };
  };
  if (wi >= 0) R.check(nm("ratio-interior"), c.stratum, idx, h, worst, worst_tol, dumpr(wi));
  // last ratio: the last element absorbs (i) the accumulated rounding of n additions,
  // <= n eps |l|, and (ii) the rounding of the first element f = l (1-r)/(1-r^n) whose
  // denominator cancels when r^n is close to 1: relative error eps max(1,r^n)/|1-r^n|.
  // G = r^n is estimated from the observed mesh only.
  {
    const L G = std::pow(cst, L(n));
    const L cancel = std::max<L>(1, G) / std::max<L>(std::fabs(1 - G), 1e-300L);
    const long i = n - 2;
    const L tol = K * eps * (ref_unc + 4 + 3 * scale * (1 / hh[size_t(i)] + 1 / hh[size_t(i + 1)]) +
                             (al / hh[size_t(n - 1)]) * (L(n) + 2 * cancel + 4));
    const L err = std::fabs(q[size_t(i)] / cst - 1);
    R.check(nm("ratio-last"), c.stratum, idx, h, err, tol, dumpr(i),
            "ratio between the last two elements vs the constant ratio of the others");
  }
}

int main(int argc, char** argv) {
  vf::Args a(argc, argv);
  R.viol_cap = 3;
  for (long i = 0; i < a.cases; ++i) {
    const uint64_t idx = a.only >= 0 ? uint64_t(a.only) : a.gidx(i);
    switch ((idx / 4) % 4) {
      case 0: case 1: one<double, std::vector<double>>(a, idx, "std::vector<double>"); break;
      case 2: one<double, tfel::math::vector<double>>(a, idx, "tfel::math::vector<double>"); break;
      default: one<float, std::vector<float>>(a, idx, "std::vector<float>");
    }
    if (a.only >= 0) break;
  }
  R.finish();
  return 0;
}
