// c17_support.hxx — fixed part of the generated C17 harnesses (DESIGN.md §4.1 C17).
// The translation units themselves are emitted by lib/etgen.py; they contain *programs*
// (one TFEL statement over arrays / views each).  Everything judged here is independent of
// TFEL: operands live in "stores" (a raw run of T cells: a heap buffer with ASan red zones,
// or the documented contiguous storage of a TFEL object), the generator supplies for every
// operand the table logical-element -> cell computed from the *documented* index mapping,
// and the reference value of every destination element is a plain scalar C++ expression on
// snapshots of the stores taken BEFORE the statement is executed (so aliasing is covered).
// After the statement every store is compared *cell by cell* with its expected image:
// cells that no operand maps hold NaN-boxed sentinels carrying a counter, so a read through
// a wrong index yields a NaN in the destination and a write through a wrong index destroys
// a sentinel, even when it stays inside the allocation.
#ifndef VERIF_C17_SUPPORT_HXX
#define VERIF_C17_SUPPORT_HXX
#include <array>
#include <cstring>
#include <initializer_list>
#include <memory>
#include <vector>
#include "vfh.hxx"

namespace c17 {

template <typename T> struct FP;
template <> struct FP<float> { static constexpr const char* name = "float"; static constexpr int nbytes = 4; };
template <> struct FP<double> { static constexpr const char* name = "double"; static constexpr int nbytes = 8; };
template <> struct FP<long double> { static constexpr const char* name = "long double"; static constexpr int nbytes = 10; };

// quiet NaN whose payload is 0x5EA00000 + k (k < 2^20): never produced by arithmetic on the
// operand values, recognisable in a dump
inline float sentinel_f(unsigned k) { uint32_t b = 0x7fc00000u | 0x00200000u | (k & 0xfffffu); float f; std::memcpy(&f, &b, 4); return f; }
inline double sentinel_d(unsigned k) { uint64_t b = 0x7ff8000000000000ull | (0x5EA00000ull + (k & 0xfffffu)); double d; std::memcpy(&d, &b, 8); return d; }
inline long double sentinel_l(unsigned k) {
  long double l = 0; unsigned char raw[sizeof(long double)]; std::memset(raw, 0, sizeof raw);
  uint64_t m = 0xC000000000000000ull | (0x5EA00000ull + (k & 0xfffffu)); uint16_t se = 0x7fff;
  std::memcpy(raw, &m, 8); std::memcpy(raw + 8, &se, 2); std::memcpy(&l, raw, sizeof raw); return l;
}
template <typename T> inline T sentinel(unsigned k);
template <> inline float sentinel<float>(unsigned k) { return sentinel_f(k); }
template <> inline double sentinel<double>(unsigned k) { return sentinel_d(k); }
template <> inline long double sentinel<long double>(unsigned k) { return sentinel_l(k); }

template <typename T> inline bool same_bits(const T& a, const T& b) { return std::memcmp(&a, &b, FP<T>::nbytes) == 0; }

// operand values: exactly representable in T, magnitudes for which + - * / neither overflow nor
// underflow in the small programs generated (|v| in [1e-3,1e3] or 0)
template <typename T> inline T draw(vf::Rng& g) {
  const int k = g.irange(0, 19);
  double v;
  if (k < 13) v = g.uni(-2, 2);
  else if (k < 16) v = g.sign() * g.logmag(-3, 3);
  else if (k < 19) v = g.irange(-3, 3);
  else v = 0;
  return static_cast<T>(v);
}
// scalar factors / divisors: never zero
template <typename T> inline T scalar(vf::Rng& g) {
  const int k = g.irange(0, 9);
  double v;
  if (k < 6) v = g.sign() * g.uni(0.25, 4);
  else if (k < 8) v = g.sign() * g.irange(1, 3);
  else if (k < 9) v = g.sign() * 0.5;
  else v = g.sign() * g.logmag(-2, 2);
  return static_cast<T>(v);
}

template <typename T>
struct Store {
  const char* name;
  T* p;
  int n;
  std::unique_ptr<T[]> own;
  std::vector<T> before, expect;
  std::vector<unsigned char> dst;  // 1 = cell written by the statement (destination element)
  // heap buffer of exactly n cells: ASan poisons both ends
  Store(const char* nm, int n_) : name(nm), p(nullptr), n(n_), own(new T[size_t(n_)]) { p = own.get(); }
  // the documented contiguous storage of a TFEL object
  Store(const char* nm, T* ext, int n_) : name(nm), p(ext), n(n_) {}
  void guard(unsigned& counter) { for (int i = 0; i < n; ++i) p[i] = sentinel<T>(counter++); }
  void put(const int* cells, int ne, vf::Rng& g) { for (int e = 0; e < ne; ++e) p[cells[e]] = draw<T>(g); }
  void snapshot() { before.assign(p, p + n); expect = before; dst.assign(size_t(n), 0); }
};

template <typename T> inline long double ulp_tol(T ref) {
  const long double eps = std::numeric_limits<T>::epsilon();
  return 64 * eps * std::fabs(static_cast<long double>(ref)) + 4 * static_cast<long double>(std::numeric_limits<T>::denorm_min());
}

struct Outcome { long nbad = 0; long double maxratio = 0; std::string first; };

// counters of the recorded-only programs (printed once at the end, see flush_notes)
inline std::map<std::string, long>& notes() { static std::map<std::string, long> m; return m; }
inline void flush_notes() {
  for (auto& kv : notes()) std::printf("@@VF {\"ev\":\"note\",\"what\":\"%s\",\"n\":%ld}\n", kv.first.c_str(), kv.second);
  std::fflush(stdout);
}

// compare every store with its expected image.  ulp: destination cells are allowed the few-ulp
// tolerance (statement "/= s", implemented as a multiplication by 1/s), every other cell is bitwise.
template <typename T>
inline Outcome diff(std::initializer_list<Store<T>*> stores, bool ulp) {
  Outcome o;
  for (Store<T>* s : stores) {
    for (int k = 0; k < s->n; ++k) {
      const T got = s->p[k], exp = s->expect[size_t(k)];
      bool ok = same_bits(got, exp);
      if (!ok && ulp && s->dst[size_t(k)] && std::isfinite(static_cast<long double>(exp))) {
        const long double d = std::fabs(static_cast<long double>(got) - static_cast<long double>(exp));
        const long double r = d / ulp_tol(exp);
        if (r <= 1) { ok = true; if (r > o.maxratio) o.maxratio = r; }
      }
      if (!ok) {
        if (o.nbad == 0) {
          char b[256];
          std::snprintf(b, sizeof b, "%s[%d]%s got=%La expected=%La before=%La", s->name, k, s->dst[size_t(k)] ? "(dst)" : "(not a destination cell)",
                        static_cast<long double>(got), static_cast<long double>(exp), static_cast<long double>(s->before[size_t(k)]));
          o.first = b;
        }
        o.nbad++;
      }
    }
  }
  return o;
}

template <typename T>
inline uint64_t hash_stores(std::initializer_list<Store<T>*> stores, uint64_t h) {
  for (Store<T>* s : stores) for (int k = 0; k < s->n; ++k) h = vf::hash_bytes(&s->before[size_t(k)], size_t(FP<T>::nbytes), h);
  return h;
}

template <typename T>
inline std::string dump(const char* prog, int pid, std::initializer_list<Store<T>*> stores, const Outcome& o, const T* sc, int nsc) {
  vf::J j;
  j.s("program", prog).i("prog_id", pid).s("T", FP<T>::name).i("bad_cells", o.nbad).s("first_bad", o.first);
  j.arr("scalars", sc, sc + nsc);
  for (Store<T>* s : stores) {
    std::string k = std::string("before:") + s->name;
    j.arr(k.c_str(), s->before.begin(), s->before.end());
    std::string k2 = std::string("after:") + s->name;
    j.arr(k2.c_str(), s->p, s->p + s->n);
  }
  return j.str();
}

// mode: 0 judged exactly, 1 judged with the ulp tolerance on destination cells,
//       2 recorded only (overlapping-but-different views: no documented semantics)
template <typename T, typename Ref>
inline void judge(vf::Reporter& R, const char* api, const char* st, uint64_t idx, const char* prog, int pid,
                  std::initializer_list<Store<T>*> stores, Store<T>& D, const int* dcells, int ne, Ref&& ref, int mode,
                  const T* sc, int nsc) {
  std::vector<T> r(static_cast<size_t>(ne));
  for (int e = 0; e < ne; ++e) r[size_t(e)] = ref(e);  // from the snapshots only
  for (int e = 0; e < ne; ++e) { D.expect[size_t(dcells[e])] = r[size_t(e)]; D.dst[size_t(dcells[e])] = 1; }
  const Outcome o = diff<T>(stores, mode == 1);
  if (mode == 2) {
    notes()[std::string("overlap:") + api + ":" + st + (o.nbad ? ":differs-from-snapshot-semantics" : ":equals-snapshot-semantics")]++;
    return;
  }
  const uint64_t h = hash_stores<T>(stores, vf::hash_bytes(sc, size_t(nsc) * sizeof(T), 0xcbf29ce484222325ull + uint64_t(pid)));
  const long double err = o.nbad ? static_cast<long double>(INFINITY) : o.maxratio;
  R.check(api, st, idx, h, err, 1.0L, [&] { return dump<T>(prog, pid, stores, o, sc, nsc); }, "");
}

}  // namespace c17
#endif
