// C08 — TinyPowellDogLegNewtonRaphsonSolver: one solver class per translation unit (see c08_common.hxx and DESIGN.md §4.1 C08, §6)
#define VFH_MAIN
#include "vfh.hxx"
#include "TFEL/Math/TinyPowellDogLegNewtonRaphsonSolver.hxx"
#define C08_NAME "TinyPowellDogLegNewtonRaphsonSolver"
#define C08_KIND K_PDL_NEWTON
template <unsigned short N, typename T, typename C>
using C08Base = tfel::math::TinyPowellDogLegNewtonRaphsonSolver<N, T, C>;
#include "c08_common.hxx"
int main(int argc, char** argv) { return c08::run(argc, argv); }
