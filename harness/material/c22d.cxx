// C22 (part d) — porous criteria: Gurson-Tvergaard-Needleman 1982, Rousselier-Tanguy-Besson 2002,
// Michel & Suquet 1992 (hollow sphere).  See c22_common.hxx for the driver.
#define VFH_MAIN
#include "c22_common.hxx"
#include "TFEL/Material/GursonTvergaardNeedleman1982StressCriterion.hxx"
#include "TFEL/Material/RousselierTanguyBesson2002StressCriterion.hxx"
#include "TFEL/Material/MichelAndSuquet1992HollowSphereStressCriterion.hxx"

namespace c22 { vf::Reporter R; }
using namespace c22;
namespace tmat = tfel::material;

// f = 0 gives von Mises for the three criteria (documented reductions of the porous criteria)
template <class C, unsigned short N, typename PP, typename D>
static void porous_extra(vf::Reporter& R, char* api, size_t na, const char* S, uint64_t idx, uint64_t h, const tfm::stensor<N, double>& sd, const PP& p,
                         double v0, const Tol& K, D&& dump) {
  if (p.f != 0) return;
  const L eps = std::numeric_limits<double>::epsilon();
  const M3 A = from_st(sd, N);
  std::snprintf(api, na, "%s<%d>:%s", C::name, int(N), "f=0:value=sigmaeq");
  R.check(api, S, idx, h, std::fabs(L(v0) - mises_of(A)), K.invariance * eps * norm(A) + C::abs_tol(A, p), dump);
}

// ----------------------------------------------------------------------------------------- GTN
struct GTN : NoClass {
  // Newton iterations stop at |d s*| < seps/10: a tighter seps than for the explicit criteria
  static constexpr long double seps_rel = 1e-12L, fd_seps_rel = 1e-14L;
  static constexpr const char* name = "GursonTvergaardNeedleman1982";
  static constexpr int id = 8;
  static constexpr bool isotropic = true, homogeneous = true, eigen = false, porous = true, has_ref = true;
  static constexpr double smin = -6, smax = 9;
  struct P {
    L f = 0, f_c = 0, f_r = 0, q1 = 0, q2 = 0, q3 = 0;
    void gen(vf::Rng& g, int) {
      // q3 <= q1^2 (documented restriction); q3 = q1^2 only with exactly representable squares
      static const double Q1[] = {1, 1.25, 1.5, 2};
      q2 = L(double(g.uni(0.8, 1.2)));
      if (g.coin()) { q1 = L(Q1[g.irange(0, 3)]); q3 = q1 * q1; }
      else { q1 = L(double(g.uni(1, 2))); q3 = L(double(g.uni(1, 0.99 * double(q1 * q1)))); }
      f_c = L(double(g.uni(0.01, 0.1))); f_r = L(double(g.uni(0.2, 0.4)));
      switch (g.irange(0, 5)) {
        case 0: f = 0; break;
        case 1: f = L(double(g.logmag(-6, -2))); break;
        default: f = L(double(g.uni(0, 0.9 * double(f_r))));
      }
    }
    void dump(vf::J& j) const { j.f("f", f).f("f_c", f_c).f("f_r", f_r).f("q1", q1).f("q2", q2).f("q3", q3); }
    uint64_t hash() const { double d[6] = {double(f), double(f_c), double(f_r), double(q1), double(q2), double(q3)}; return vf::hash_arr(d, 6); }
    L get_f() const { return f; }
    void set_f(L x) { f = x; }
    L f_step() const { return 1e-4L * std::min(f, std::min(std::fabs(f - f_c), f_r - f)); }
    bool fd_in_f() const { return f > 1e-5L && std::fabs(f - f_c) > 1e-3L * f_c && f < 0.95L * f_r; }
  };
  template <unsigned short N, typename T>
  static auto mk_p(const P& p) {
    tmat::GursonTvergaardNeedleman1982StressCriterionParameters<tfm::stensor<N, T>> r;
    r.f_c = T(p.f_c); r.f_r = T(p.f_r); r.q_1 = T(p.q1); r.q_2 = T(p.q2); r.q_3 = T(p.q3);
    if (sizeof(T) > 8) r.eps = std::numeric_limits<T>::epsilon() * 64;  // FD engine; double keeps the default 1e-14
    return r;
  }
  template <unsigned short N, typename T>
  static T value(const tfm::stensor<N, T>& s, const P& p, T seps) { return tmat::computeGursonTvergaardNeedleman1982Stress(s, T(p.f), mk_p<N, T>(p), seps); }
  template <unsigned short N, typename T>
  static void normal(const tfm::stensor<N, T>& s, const P& p, T seps, Out& o) {
    auto [v, n, dv] = tmat::computeGursonTvergaardNeedleman1982StressNormal(s, T(p.f), mk_p<N, T>(p), seps);
    o.v = v; put_n<N, T>(o, n); o.dvdf = dv;
  }
  template <unsigned short N, typename T>
  static void second(const tfm::stensor<N, T>& s, const P& p, T seps, Out& o) {
    auto [v, n, dv, dn, dnf] = tmat::computeGursonTvergaardNeedleman1982StressSecondDerivative(s, T(p.f), mk_p<N, T>(p), seps);
    o.v = v; put_n<N, T>(o, n); o.dvdf = dv; put_dn<N, T>(o, dn); put_dndf<N, T>(o, dnf);
  }
  static L fstar(const P& p) {
    if (p.f < p.f_c) return p.f;
    const L fu = (p.q1 - std::sqrt(p.q1 * p.q1 - p.q3)) / p.q3;  // root of 2 q1 f - 1 - q3 f^2
    return p.f_c + (fu - p.f_c) / (p.f_r - p.f_c) * (p.f - p.f_c);
  }
  static constexpr bool residual_ref = true;
  // defining identity (documentation): S(s*) = (svM/s*)^2 + 2 q1 f* cosh(3 q2 sm/(2 s*)) - 1 - q3 f*^2 = 0
  static L residual(const M3& A, const P& p, L ss) {
    const L fs = fstar(p);
    return std::pow(mises_of(A) / ss, 2) + 2 * p.q1 * fs * std::cosh(1.5L * p.q2 * trace(A) / 3 / ss) - 1 - p.q3 * fs * fs;
  }
  static L ref(const M3&, const P&) { return NAN; }
  static L value_cond(const M3&, const P&) { return 8; }
  static L abs_tol(const M3& A, const P&) { return 4e-12L * norm(A); }  // Newton stops at |d s*| < seps/10, seps = 1e-12 scale
  static L gaprel(const M3&, int, const P&) { return 1; }
  static bool differentiable(const M3&, const P&) { return true; }
  template <unsigned short N, typename D>
  static void extra(vf::Reporter& R, char* api, size_t na, const char* S, uint64_t idx, uint64_t h, const tfm::stensor<N, double>& sd, const P& p, double,
                    double v0, const Out&, const Out&, const Tol& K, D&& dump) {
    porous_extra<GTN, N>(R, api, na, S, idx, h, sd, p, v0, K, dump);
    const M3 A = from_st(sd, N);
    if (v0 > 0) {
      std::snprintf(api, na, "%s<%d>:%s", name, int(N), "residual S(value)=0");
      // dS/ds* ~ -2/s*: an error of 1e-11 s* on the root leaves |S| ~ 2e-11
      R.check(api, S, idx, h, std::fabs(residual(A, p, v0)), 1e-7L, dump);
    }
  }
};

// ----------------------------------------------------------------------------------------- RTB
struct RTB : NoClass {
  // Newton iterations stop at |d s*| < seps/10: a tighter seps than for the explicit criteria
  static constexpr long double seps_rel = 1e-12L, fd_seps_rel = 1e-14L;
  static constexpr const char* name = "RousselierTanguyBesson2002";
  static constexpr int id = 9;
  static constexpr bool isotropic = true, homogeneous = true, eigen = false, porous = true, has_ref = true;
  static constexpr double smin = -6, smax = 9;
  struct P {
    L f = 0, DR = 0, qR = 0;
    void gen(vf::Rng& g, int) {
      DR = L(double(g.uni(1, 3))); qR = L(double(g.uni(0.5, 1.5)));
      switch (g.irange(0, 5)) {
        case 0: f = 0; break;
        case 1: f = L(double(g.logmag(-6, -2))); break;
        default: f = L(double(g.uni(0, 0.3)));
      }
    }
    void dump(vf::J& j) const { j.f("f", f).f("DR", DR).f("qR", qR); }
    uint64_t hash() const { double d[3] = {double(f), double(DR), double(qR)}; return vf::hash_arr(d, 3); }
    L get_f() const { return f; }
    void set_f(L x) { f = x; }
    L f_step() const { return 1e-4L * f; }
    bool fd_in_f() const { return f > 1e-5L; }
  };
  template <unsigned short N, typename T>
  static auto mk_p(const P& p) {
    tmat::RousselierTanguyBesson2002StressCriterionParameters<tfm::stensor<N, T>> r;
    r.DR = T(p.DR); r.qR = T(p.qR);
    return r;
  }
  template <unsigned short N, typename T>
  static T value(const tfm::stensor<N, T>& s, const P& p, T seps) { return tmat::computeRousselierTanguyBesson2002Stress(s, T(p.f), mk_p<N, T>(p), seps); }
  template <unsigned short N, typename T>
  static void normal(const tfm::stensor<N, T>& s, const P& p, T seps, Out& o) {
    auto [v, n, dv] = tmat::computeRousselierTanguyBesson2002StressNormal(s, T(p.f), mk_p<N, T>(p), seps);
    o.v = v; put_n<N, T>(o, n); o.dvdf = dv;
  }
  template <unsigned short N, typename T>
  static void second(const tfm::stensor<N, T>& s, const P& p, T seps, Out& o) {
    auto [v, n, dv, dn, dnf] = tmat::computeRousselierTanguyBesson2002StressSecondDerivative(s, T(p.f), mk_p<N, T>(p), seps);
    o.v = v; put_n<N, T>(o, n); o.dvdf = dv; put_dn<N, T>(o, dn); put_dndf<N, T>(o, dnf);
  }
  // documentation: S = svM/((1-f) s*) + 2/3 f DR exp(3 qR sm/(2 (1-f) s*)) - 1 = 0
  static L residual(const M3& A, const P& p, L ss) {
    return mises_of(A) / ((1 - p.f) * ss) + 2 * p.f * p.DR / 3 * std::exp(1.5L * p.qR * trace(A) / 3 / ((1 - p.f) * ss)) - 1;
  }
  static L ref(const M3&, const P&) { return NAN; }
  static L value_cond(const M3&, const P&) { return 8; }
  static L abs_tol(const M3& A, const P&) { return 4e-12L * norm(A); }
  static L gaprel(const M3&, int, const P&) { return 1; }
  static bool differentiable(const M3&, const P&) { return true; }
  template <unsigned short N, typename D>
  static void extra(vf::Reporter& R, char* api, size_t na, const char* S, uint64_t idx, uint64_t h, const tfm::stensor<N, double>& sd, const P& p, double,
                    double v0, const Out&, const Out&, const Tol& K, D&& dump) {
    porous_extra<RTB, N>(R, api, na, S, idx, h, sd, p, v0, K, dump);
    const M3 A = from_st(sd, N);
    if (v0 > 0) {
      std::snprintf(api, na, "%s<%d>:%s", name, int(N), "residual S(value)=0");
      R.check(api, S, idx, h, std::fabs(residual(A, p, v0)), 1e-7L, dump);
    }
  }
};

// ------------------------------------------------------------------------------ Michel & Suquet
struct MS92 : NoClass {
  // Newton iterations stop at |d s*| < seps/10: a tighter seps than for the explicit criteria
  static constexpr long double seps_rel = 1e-12L, fd_seps_rel = 1e-14L;
  static constexpr const char* name = "MichelAndSuquet1992HollowSphere";
  static constexpr int id = 10;
  static constexpr bool isotropic = true, homogeneous = true, eigen = false, porous = true, has_ref = false;
  static constexpr double smin = -6, smax = 9;
  struct P {
    L f = 0, n = 1;
    void gen(vf::Rng& g, int) {
      n = g.coin() ? L(double(g.irange(1, 10))) : L(double(g.uni(1, 10)));
      switch (g.irange(0, 5)) {
        case 0: f = 0; break;
        case 1: f = L(double(g.logmag(-6, -2))); break;
        default: f = L(double(g.uni(0, 0.5)));
      }
    }
    void dump(vf::J& j) const { j.f("f", f).f("n", n); }
    uint64_t hash() const { double d[2] = {double(f), double(n)}; return vf::hash_arr(d, 2); }
    L get_f() const { return f; }
    void set_f(L x) { f = x; }
    L f_step() const { return 1e-4L * f; }
    bool fd_in_f() const { return f > 1e-5L; }
  };
  template <unsigned short N, typename T>
  static auto mk_p(const P& p) {
    tmat::MichelAndSuquet1992HollowSphereStressCriterionParameters<tfm::stensor<N, T>> r;
    r.n = T(p.n);
    return r;
  }
  template <unsigned short N, typename T>
  static T value(const tfm::stensor<N, T>& s, const P& p, T seps) { return tmat::computeMichelAndSuquet1992HollowSphereStress(s, T(p.f), mk_p<N, T>(p), seps); }
  template <unsigned short N, typename T>
  static void normal(const tfm::stensor<N, T>& s, const P& p, T seps, Out& o) {
    auto [v, n, dv] = tmat::computeMichelAndSuquet1992HollowSphereStressNormal(s, T(p.f), mk_p<N, T>(p), seps);
    o.v = v; put_n<N, T>(o, n); o.dvdf = dv;
  }
  template <unsigned short N, typename T>
  static void second(const tfm::stensor<N, T>& s, const P& p, T seps, Out& o) {
    auto [v, n, dv, dn, dnf] = tmat::computeMichelAndSuquet1992HollowSphereStressSecondDerivative(s, T(p.f), mk_p<N, T>(p), seps);
    o.v = v; put_n<N, T>(o, n); o.dvdf = dv; put_dn<N, T>(o, dn); put_dndf<N, T>(o, dnf);
  }
  static L ref(const M3&, const P&) { return NAN; }
  static L value_cond(const M3&, const P&) { return 8; }
  static L abs_tol(const M3&, const P&) { return 0; }
  static L gaprel(const M3&, int, const P&) { return 1; }
  static bool differentiable(const M3&, const P&) { return true; }
  template <unsigned short N, typename D>
  static void extra(vf::Reporter& R, char* api, size_t na, const char* S, uint64_t idx, uint64_t h, const tfm::stensor<N, double>& sd, const P& p, double,
                    double v0, const Out&, const Out&, const Tol& K, D&& dump) {
    porous_extra<MS92, N>(R, api, na, S, idx, h, sd, p, v0, K, dump);
  }
};

int main(int argc, char** argv) {
  vf::Args a(argc, argv);
  Tol K;
  for (long i = 0; i < a.cases; ++i) {
    const uint64_t idx = a.only >= 0 ? uint64_t(a.only) : a.gidx(i);
    const uint64_t sub = idx / 3;
    switch (idx % 3) {
      case 0: run_all_dims<GTN>(a, sub, K); break;
      case 1: run_all_dims<RTB>(a, sub, K); break;
      default: run_all_dims<MS92>(a, sub, K);
    }
    if (a.only >= 0) break;
  }
  R.finish();
  return 0;
}
