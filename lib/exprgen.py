"""exprgen — random expression trees over the formula language of tfel::math::Evaluator.

A tree is a nested tuple:
  ('num', text, value)          numeric literal, printed verbatim
  ('var', name)                 variable
  ('par', name)                 parameter (external function without argument); valued through env like a variable
  ('cst', name)                 physical constant, name without the 'Cste::' prefix
  ('neg', a)  ('+', a, b)  ('-', a, b)  ('*', a, b)  ('/', a, b)  ('**', a, b)
  ('f1', name, a)  ('f2', name, a, b)  ('ipow', n, a)            power<n>(a)
  ('cond', c, a, b)             c ? a : b     with c a logical tree:
  ('cmp', op, a, b)  ('and', c, d)  ('or', c, d)  ('not', c)

Public API (all pure functions of the tree, plus one generator class):
  ExprGen(rng, variables, ...).tree(depth)  -> tree whose every operation is inside its domain for *all* values of
                                               the variables in their boxes (interval propagation)
  to_formula(tree, rng=None, redundant=0.0, spaces=0.0, bare_neg=False) -> text for tfel::math::Evaluator
  to_cxx(tree, names=None)                  -> C++ expression (double arithmetic, <cmath>)
  evaluate(tree, env, constants)            -> (value, running error bound in units of 2^-53, kink distance)
                                               computed with the C library's own functions (ctypes -> libm)
  variables(tree), functions(tree), depth(tree), size(tree)
"""
import ctypes
import ctypes.util
import math

_libm = ctypes.CDLL(ctypes.util.find_library("m") or "libm.so.6", use_errno=True)


def _c1(name):
    f = getattr(_libm, name)
    f.restype = ctypes.c_double
    f.argtypes = [ctypes.c_double]
    return f


def _c2(name):
    f = getattr(_libm, name)
    f.restype = ctypes.c_double
    f.argtypes = [ctypes.c_double, ctypes.c_double]
    return f


class DomainError(Exception):
    pass


_POW = _c2("pow")
_INF = float("inf")

# name -> (libm function, derivative as python callable(x, f(x)), C++ spelling)
F1 = {
    "exp": (_c1("exp"), lambda x, y: y, "std::exp"),
    "exp2": (_c1("exp2"), lambda x, y: y * math.log(2), "std::exp2"),
    "expm1": (_c1("expm1"), lambda x, y: y + 1, "std::expm1"),
    "sqrt": (_c1("sqrt"), lambda x, y: 0.5 / y if y else _INF, "std::sqrt"),
    "cbrt": (_c1("cbrt"), lambda x, y: y / (3 * x) if x else _INF, "std::cbrt"),
    "ln": (_c1("log"), lambda x, y: 1 / x, "std::log"),
    "log": (_c1("log"), lambda x, y: 1 / x, "std::log"),
    "log10": (_c1("log10"), lambda x, y: 1 / (x * math.log(10)), "std::log10"),
    "log2": (_c1("log2"), lambda x, y: 1 / (x * math.log(2)), "std::log2"),
    "log1p": (_c1("log1p"), lambda x, y: 1 / (1 + x), "std::log1p"),
    "cosh": (_c1("cosh"), lambda x, y: math.sinh(x), "std::cosh"),
    "sinh": (_c1("sinh"), lambda x, y: math.cosh(x), "std::sinh"),
    "tanh": (_c1("tanh"), lambda x, y: 1 - y * y, "std::tanh"),
    "acosh": (_c1("acosh"), lambda x, y: 1 / math.sqrt(x * x - 1) if x > 1 else _INF, "std::acosh"),
    "asinh": (_c1("asinh"), lambda x, y: 1 / math.sqrt(x * x + 1), "std::asinh"),
    "atanh": (_c1("atanh"), lambda x, y: 1 / (1 - x * x), "std::atanh"),
    "abs": (_c1("fabs"), lambda x, y: 1.0 if x >= 0 else -1.0, "std::fabs"),
    "cos": (_c1("cos"), lambda x, y: -math.sin(x), "std::cos"),
    "sin": (_c1("sin"), lambda x, y: math.cos(x), "std::sin"),
    "tan": (_c1("tan"), lambda x, y: 1 + y * y, "std::tan"),
    "acos": (_c1("acos"), lambda x, y: -1 / math.sqrt(1 - x * x) if abs(x) < 1 else _INF, "std::acos"),
    "asin": (_c1("asin"), lambda x, y: 1 / math.sqrt(1 - x * x) if abs(x) < 1 else _INF, "std::asin"),
    "atan": (_c1("atan"), lambda x, y: 1 / (1 + x * x), "std::atan"),
    "erf": (_c1("erf"), lambda x, y: 2 / math.sqrt(math.pi) * math.exp(-x * x), "std::erf"),
    "erfc": (_c1("erfc"), lambda x, y: -2 / math.sqrt(math.pi) * math.exp(-x * x), "std::erfc"),
    "tgamma": (_c1("tgamma"), None, "std::tgamma"),
    "lgamma": (_c1("lgamma"), None, "std::lgamma"),
    "H": (None, lambda x, y: 0.0, None),
}
F2 = {
    "max": (None, "std::max"), "min": (None, "std::min"),
    "hypot": (_c2("hypot"), "std::hypot"), "atan2": (_c2("atan2"), "std::atan2"),
}
# functions for which Function.cxx provides a chain rule (everything else must throw on differentiate)
DIFFERENTIABLE_F1 = ("exp", "sin", "cos", "tan", "sqrt", "ln", "log", "log10", "asin", "acos", "atan", "sinh", "cosh", "tanh")
KINK_F1 = ("abs", "H")


def _digamma(x):
    if x < -64 or x != x:
        return _INF         # only used for an error bound: far on the negative axis the bound is simply given up
    r = 0.0
    while x < 6:
        if x == 0:
            return _INF
        r -= 1 / x
        x += 1
    f = 1 / (x * x)
    return r + math.log(x) - 0.5 / x - f * (1 / 12 - f * (1 / 120 - f / 252))


def _call1(name, x):
    if name == "H":
        return 0.0 if x < 0 else 1.0
    ctypes.set_errno(0)
    y = F1[name][0](x)
    if ctypes.get_errno() != 0 or y != y or y in (_INF, -_INF):
        raise DomainError("%s(%r)" % (name, x))
    return y


def _deriv1(name, x, y):
    if name == "tgamma":
        return y * _digamma(x)
    if name == "lgamma":
        return _digamma(x)
    return F1[name][1](x, y)


# ------------------------------------------------------------------------------------ evaluation
def evaluate(t, env, constants=None):
    """value of the tree computed with libm, a running bound of the rounding error (absolute, in units of
    u = 2^-53, a few units per operation, first-order propagation) and a decision margin: 0.0 when the outcome
    of a comparison or of H() depends on rounding (the case is ill-conditioned), a positive number otherwise.
    Raises DomainError when an operation leaves its domain or a result is not finite."""
    k = t[0]
    if k == "num":
        return t[2], 0.0, _INF
    if k in ("var", "par"):
        return float(env[t[1]]), 0.0, _INF
    if k == "cst":
        v = constants[t[1]]
        return v, 8 * abs(v), _INF      # printed with 15 digits by getCxxFormula
    if k == "neg":
        v, e, d = evaluate(t[1], env, constants)
        return -v, e, d
    if k in ("+", "-", "*", "/", "**"):
        a, ea, da = evaluate(t[1], env, constants)
        b, eb, db = evaluate(t[2], env, constants)
        d = min(da, db)
        # sums: the bound uses the magnitudes of the operands, not of the result, so that it holds for every
        # association order of a chain a+b-c (the Evaluator reduces '-' before '+': a+b-c is a+(b-c))
        if k == "+":
            v = a + b
            return _fin(v), ea + eb + abs(a) + abs(b), d
        if k == "-":
            v = a - b
            return _fin(v), ea + eb + abs(a) + abs(b), d
        if k == "*":
            v = a * b
            return _fin(v), abs(b) * ea + abs(a) * eb + abs(v), d
        if k == "/":
            if abs(b) < 2.3e-308:
                raise DomainError("division by %r" % b)
            v = a / b
            return _fin(v), ea / abs(b) + abs(v / b) * eb + abs(v), d
        ctypes.set_errno(0)
        v = _POW(a, b)
        if ctypes.get_errno() != 0 or v != v or abs(v) == _INF:
            raise DomainError("pow(%r,%r)" % (a, b))
        e = 4 * abs(v)
        if ea:
            e += abs(b * v / a) * ea if a else _INF
        if eb:
            e += abs(v * math.log(a)) * eb if a > 0 else _INF
        return v, e, d
    if k == "ipow":
        a, ea, d = evaluate(t[2], env, constants)
        n = t[1]
        if n < 0 and a == 0:
            raise DomainError("power<%d>(0)" % n)
        ctypes.set_errno(0)
        v = _POW(a, float(n))
        if ctypes.get_errno() != 0 or v != v or abs(v) == _INF:
            raise DomainError("power<%d>(%r)" % (n, a))
        return v, (abs(n * v / a) * ea if a else 0.0) + (abs(n) + 2) * abs(v), d
    if k == "f1":
        a, ea, d = evaluate(t[2], env, constants)
        v = _call1(t[1], a)
        if t[1] == "H":     # decided only if the sign of the argument is beyond its rounding error
            if ea and abs(a) <= 1e3 * ea * 2.0 ** -53:
                d = 0.0
            return v, 0.0, d
        g = _deriv1(t[1], a, v)
        return v, (abs(g) * ea if ea else 0.0) + 4 * abs(v) + (4.0 if t[1] in ("lgamma", "tgamma") else 0.0), d
    if k == "f2":
        a, ea, da = evaluate(t[2], env, constants)
        b, eb, db = evaluate(t[3], env, constants)
        d = min(da, db)
        n = t[1]
        if n in ("max", "min"):
            return (max(a, b) if n == "max" else min(a, b)), max(ea, eb), d
        ctypes.set_errno(0)
        v = F2[n][0](a, b)
        if ctypes.get_errno() != 0 or v != v or abs(v) == _INF:
            raise DomainError("%s(%r,%r)" % (n, a, b))
        if n == "hypot":
            e = ((abs(a) * ea + abs(b) * eb) / v if v else ea + eb) + 2 * abs(v)
        else:  # atan2(a, b): d/da = b/(a²+b²), d/db = -a/(a²+b²)
            r2 = a * a + b * b
            e = ((abs(b) * ea + abs(a) * eb) / r2 if r2 else _INF) + 2 * abs(v)
        return v, e, d
    if k == "cond":
        c, dc = _logical(t[1], env, constants)
        v, e, d = evaluate(t[2] if c else t[3], env, constants)
        # the branch not taken must be evaluable too (getCxxFormula and differentiate build both)
        evaluate(t[3] if c else t[2], env, constants)
        return v, e, min(d, dc)
    raise ValueError("unknown node %r" % (k,))


def _fin(v):
    if v != v or v in (_INF, -_INF):
        raise DomainError("non finite")
    return v


def _logical(t, env, constants):
    """(truth value, distance to the switching point relative to the operands)"""
    k = t[0]
    if k == "cmp":
        a, ea, da = evaluate(t[2], env, constants)
        b, eb, db = evaluate(t[3], env, constants)
        op = t[1]
        r = {"<": a < b, "<=": a <= b, ">": a > b, ">=": a >= b, "==": a == b}[op]
        gap = abs(a - b)
        unc = (ea + eb) * 2.0 ** -53
        if gap == 0 and unc == 0:
            d = _INF if op in ("==", "<=", ">=") else 0.0   # exact tie of exact operands: decided for ==, <=, >=
            if op in ("<", ">"):
                d = _INF                                     # a<a is exactly false as well
        elif gap <= 1e3 * unc:
            d = 0.0
        else:
            d = gap / max(abs(a), abs(b), 1e-300)
        return r, min(d, da, db)
    if k == "not":
        r, d = _logical(t[1], env, constants)
        return (not r), d
    a, da = _logical(t[1], env, constants)
    b, db = _logical(t[2], env, constants)
    return ((a and b) if k == "and" else (a or b)), min(da, db)


# ------------------------------------------------------------------------------------ inspection
def walk(t):
    yield t
    for c in t[1:]:
        if isinstance(c, tuple):
            yield from walk(c)


def variables(t):
    return sorted({n[1] for n in walk(t) if n[0] == "var"})


def parameters(t):
    return sorted({n[1] for n in walk(t) if n[0] == "par"})


def functions(t):
    r = set()
    for n in walk(t):
        if n[0] in ("f1", "f2"):
            r.add(n[1])
        elif n[0] == "ipow":
            r.add("power")
        elif n[0] == "cond":
            r.add("?:")
    return r


def size(t):
    return sum(1 for _ in walk(t))


def depth(t):
    return 1 + max((depth(c) for c in t[1:] if isinstance(c, tuple)), default=0)


# ------------------------------------------------------------------------------------ printers
_PREC = {"cond": 0, "+": 1, "-": 1, "*": 2, "/": 2, "neg": 3, "**": 4}


def _prec(t):
    return _PREC.get(t[0], 5)


class _Printer:
    def __init__(self, rng, redundant, spaces, bare_neg, cmp_guard=True):
        self.rng, self.redundant, self.spaces, self.bare_neg, self.cmp_guard = rng, redundant, spaces, bare_neg, cmp_guard

    def right(self, s):
        """a right operand (or the operand of a unary minus) never starts with '-' unless bare_neg"""
        if s.lstrip().startswith("-") and not self.bare_neg:
            return self.paren(s)
        return s

    def sp(self):
        if self.rng is not None and self.spaces and self.rng.random() < self.spaces:
            return " " * self.rng.randint(1, 3)
        return ""

    def join(self, *parts):
        out = []
        for i, p in enumerate(parts):
            if i:
                out.append(self.sp())
            out.append(p)
        return "".join(out)

    def paren(self, s):
        return self.join("(", s, ")")

    def maybe(self, s):
        if self.rng is not None and self.redundant and self.rng.random() < self.redundant:
            return self.paren(s)
        return s

    def p(self, t, minprec):
        s = self.raw(t)
        if _prec(t) < minprec:
            return self.paren(s)
        # redundant parentheses never go around a bare conditional's own text (handled by its caller)
        return self.maybe(s) if minprec > 0 or t[0] != "cond" else s

    def raw(self, t):
        k = t[0]
        if k == "num":
            return t[1]
        if k in ("var", "par"):
            return t[1]
        if k == "cst":
            return "Cste::" + t[1]
        if k == "neg":
            c = self.p(t[1], 2)                              # -(a+b) ; -a*b ; -a**b
            return self.join("-", self.paren(c) if c.lstrip().startswith("-") else c)
        if k in ("+", "-"):
            r = t[2]
            return self.join(self.p(t[1], 1), k, self.right(self.p(r, 2)))
        if k in ("*", "/"):
            r = t[2]
            return self.join(self.p(t[1], 2), k, self.right(self.p(r, 2 if r[0] == "neg" else 3)))
        if k == "**":
            r = t[2]
            rs = self.join("-", self.p(r[1], 5)) if (r[0] == "neg" and self.bare_neg) else self.p(r, 5)
            return self.join(self.p(t[1], 5), "**", rs)
        if k == "ipow":
            return self.join("power", "<", str(t[1]), ">", "(", self.p(t[2], 0), ")")
        if k == "f1":
            return self.join(t[1], "(", self.p(t[2], 0), ")")
        if k == "f2":
            return self.join(t[1], "(", self.p(t[2], 0), ",", self.p(t[3], 0), ")")
        if k == "cond":
            return self.join(self.logical(t[1], 0), "?", self.p(t[2], 1), ":", self.p(t[3], 1))
        raise ValueError(k)

    def logical(self, t, ctx):
        """ctx 0: top, 1: operand of && or || (mixed operators are always parenthesised), 2: operand of !"""
        k = t[0]
        if k == "cmp":
            ls = self.p(t[2], 1)
            if self.cmp_guard and ls.lstrip().startswith("("):
                ls = self.join("1", "*", ls)     # same value exactly; see to_formula(cmp_guard=...)
            s = self.join(ls, t[1], self.p(t[3], 1))
            return self.paren(s) if ctx == 2 else s
        if k == "not":
            return self.join("!", self.logical(t[1], 2))
        op = "&&" if k == "and" else "||"
        parts = []
        for c in (t[1], t[2]):
            s = self.logical(c, 1)
            if c[0] in ("and", "or") and c[0] != k:
                s = self.paren(s)
            parts.append(s)
        s = self.join(parts[0], op, parts[1])
        return self.paren(s) if ctx == 2 else s


def to_formula(t, rng=None, redundant=0.0, spaces=0.0, bare_neg=False, cmp_guard=True):
    """Evaluator text with minimal parentheses under the standard precedence (+ - < * / < unary minus < **;
    - and / left associative; nested ** and a unary minus on the right of an operator always parenthesised unless
    bare_neg), plus redundant parentheses with probability `redundant` per sub-expression and blanks with
    probability `spaces` per token gap when an rng (random.Random) is given.  cmp_guard: the left operand of a
    comparison never starts with '(' (it is written 1*(...) instead): the Evaluator of the unchanged tree
    rejects '(a+b)<c ? ..' (see findings/C13-conditional-left-parenthesis.md)."""
    pr = _Printer(rng, redundant, spaces, bare_neg, cmp_guard)
    return pr.join("", pr.p(t, 0), "") if spaces else pr.p(t, 0)


def _cxxnum(text):
    return text if any(c in text for c in ".eE") else text + "."


def to_cxx(t, names=None):
    """C++ expression in double arithmetic (needs <cmath> and <algorithm>)"""
    names = names or {}
    k = t[0]
    if k == "num":
        return _cxxnum(t[1])
    if k in ("var", "par"):
        return names.get(t[1], t[1])
    if k == "cst":
        return names.get("Cste::" + t[1], "tfel::PhysicalConstants<double>::" + t[1])
    if k == "neg":
        return "(-(%s))" % to_cxx(t[1], names)
    if k in ("+", "-", "*", "/"):
        return "((%s)%s(%s))" % (to_cxx(t[1], names), k, to_cxx(t[2], names))
    if k == "**":
        return "std::pow(%s,%s)" % (to_cxx(t[1], names), to_cxx(t[2], names))
    if k == "ipow":
        return "std::pow(%s,%d)" % (to_cxx(t[2], names), t[1])
    if k == "f1":
        if t[1] == "H":
            return "(((%s)<0) ? 0. : 1.)" % to_cxx(t[2], names)
        return "%s(%s)" % (F1[t[1]][2], to_cxx(t[2], names))
    if k == "f2":
        return "%s(double(%s),double(%s))" % (F2[t[1]][1], to_cxx(t[2], names), to_cxx(t[3], names))
    if k == "cond":
        return "((%s) ? (%s) : (%s))" % (_cxxlogical(t[1], names), to_cxx(t[2], names), to_cxx(t[3], names))
    raise ValueError(k)


def _cxxlogical(t, names):
    k = t[0]
    if k == "cmp":
        return "((%s)%s(%s))" % (to_cxx(t[2], names), t[1], to_cxx(t[3], names))
    if k == "not":
        return "(!%s)" % _cxxlogical(t[1], names)
    return "(%s%s%s)" % (_cxxlogical(t[1], names), "&&" if k == "and" else "||", _cxxlogical(t[2], names))


# ------------------------------------------------------------------------------------ intervals
def _imul(a, b):
    c = (a[0] * b[0], a[0] * b[1], a[1] * b[0], a[1] * b[1])
    return min(c), max(c)


def _ipowint(a, n):
    lo, hi = a
    if n == 0:
        return 1.0, 1.0
    if n < 0:
        if lo <= 0 <= hi:
            return None
        r = _ipowint(a, -n)
        return (1 / r[1], 1 / r[0]) if r and r[0] * r[1] > 0 else None
    try:
        c = (lo ** n, hi ** n)
    except OverflowError:
        return None
    if n % 2 == 0 and lo < 0 < hi:
        return 0.0, max(c)
    return min(c), max(c)


_GAMMA_MIN_X = 1.4616321449683623


def _mono(f, lo, hi, decreasing=False):
    a, b = f(lo), f(hi)
    return (b, a) if decreasing else (a, b)


# name -> (domain lo, domain hi, interval image function)
_DOM = {
    "exp": (-30, 30, lambda l, h: _mono(math.exp, l, h)),
    "exp2": (-40, 40, lambda l, h: (2.0 ** l, 2.0 ** h)),
    "expm1": (-30, 30, lambda l, h: _mono(math.expm1, l, h)),
    "sqrt": (1e-3, 1e12, lambda l, h: _mono(math.sqrt, l, h)),
    "cbrt": (-1e12, 1e12, lambda l, h: _mono(lambda x: math.copysign(abs(x) ** (1 / 3), x), l, h)),
    "ln": (1e-3, 1e12, lambda l, h: _mono(math.log, l, h)),
    "log": (1e-3, 1e12, lambda l, h: _mono(math.log, l, h)),
    "log10": (1e-3, 1e12, lambda l, h: _mono(math.log10, l, h)),
    "log2": (1e-3, 1e12, lambda l, h: _mono(math.log2, l, h)),
    "log1p": (-0.99, 1e12, lambda l, h: _mono(math.log1p, l, h)),
    "cosh": (-30, 30, lambda l, h: (1.0 if l <= 0 <= h else min(math.cosh(l), math.cosh(h)), max(math.cosh(l), math.cosh(h)))),
    "sinh": (-30, 30, lambda l, h: _mono(math.sinh, l, h)),
    "tanh": (-1e6, 1e6, lambda l, h: _mono(math.tanh, l, h)),
    "acosh": (1.01, 1e12, lambda l, h: _mono(math.acosh, l, h)),
    "asinh": (-1e12, 1e12, lambda l, h: _mono(math.asinh, l, h)),
    "atanh": (-0.99, 0.99, lambda l, h: _mono(math.atanh, l, h)),
    "abs": (-1e12, 1e12, lambda l, h: (0.0 if l <= 0 <= h else min(abs(l), abs(h)), max(abs(l), abs(h)))),
    "cos": (-1e3, 1e3, lambda l, h: (-1.0, 1.0)),
    "sin": (-1e3, 1e3, lambda l, h: (-1.0, 1.0)),
    "tan": (-1.4, 1.4, lambda l, h: _mono(math.tan, l, h)),
    "acos": (-0.99, 0.99, lambda l, h: _mono(math.acos, l, h, True)),
    "asin": (-0.99, 0.99, lambda l, h: _mono(math.asin, l, h)),
    "atan": (-1e12, 1e12, lambda l, h: _mono(math.atan, l, h)),
    "erf": (-1e6, 1e6, lambda l, h: _mono(math.erf, l, h)),
    "erfc": (-1e6, 20, lambda l, h: _mono(math.erfc, l, h, True)),
    "tgamma": (0.1, 20, lambda l, h: (0.88 if l <= _GAMMA_MIN_X <= h else min(math.gamma(l), math.gamma(h)), max(math.gamma(l), math.gamma(h)))),
    "lgamma": (0.1, 1e3, lambda l, h: (-0.13 if l <= _GAMMA_MIN_X <= h else min(math.lgamma(l), math.lgamma(h)), max(math.lgamma(l), math.lgamma(h)))),
    "H": (-1e12, 1e12, lambda l, h: (0.0, 1.0)),
}

CONSTANT_NAMES = ("AtomicMassConstant", "mu", "AvogadroConstant", "Na", "BoltzmannConstant", "kb", "ConductanceQuantum", "G0",
                  "ElectricConstant", "e0", "ElectronMass", "me", "ElectronVolt", "eV", "ElementaryCharge", "e", "FaradayConstant",
                  "F", "FineStructureConstant", "a", "MolarGasConstant", "R", "StefanBoltzmannConstant", "s")


def _sig(x, n=3):
    """x rounded to n significant digits (so that it prints as a short literal)"""
    return float("%.*g" % (n, x))


class ExprGen:
    """Random trees valid over a whole box of variable values.

    rng        random.Random
    variables  {name: (lo, hi)}
    parameters {name: value}                   leaves of kind 'par' (C13: external functions without argument)
    constants  {name: value}                   Cste::name leaves (only those whose magnitude fits are used)
    functions1 / functions2  names to draw from; conditional / logical toggles; number_forms: 'all' or 'float'
    max_abs    every sub-expression is bounded by max_abs over the box
    margin     multiplies the distance kept from the singular end of sqrt/log/division domains
    domains    {function: (lo, hi)} tighter argument ranges
    """

    def __init__(self, rng, variables, parameters=None, constants=None, functions1=None, functions2=None,
                 conditional=True, ipow=True, number_forms="all", max_abs=1e8, pow_general=True, margin=1.0, domains=None, pow_zero=True):
        self.rng = rng
        self.vars = dict(variables)
        self.pars = dict(parameters or {})
        self.csts = dict(constants or {})
        self.f1 = list(functions1 if functions1 is not None else [f for f in F1])
        self.f2 = list(functions2 if functions2 is not None else [f for f in F2])
        self.conditional, self.ipow, self.number_forms = conditional, ipow, number_forms
        self.max_abs, self.pow_general, self.margin = max_abs, pow_general, margin
        self.pow_zero = pow_zero                # allow x**0 (the Evaluator folds it into the literal 1)
        self.domains = dict(domains or {})     # {function name: (lo, hi)} tighter argument ranges than the default ones

    # -- leaves
    def number(self, lo=None, hi=None, integer=False):
        r = self.rng
        if lo is None:
            mag = r.choice((1, 1, 1, 10, 100, 0.1, 0.01, 1000))
            v = r.uniform(0.05, 9.99) * mag
        else:
            v = r.uniform(lo, hi)
        if integer or (self.number_forms == "all" and r.random() < 0.25):
            v = float(max(1, round(v))) if lo is None else float(round(v))
            text = str(int(v))
            form = r.randint(0, 3) if self.number_forms == "all" else r.randint(1, 3)
            if form == 1:
                text += "."
            elif form == 2:
                text += ".0"
            elif form == 3 and v != 0 and int(v) % 10 == 0:
                s = str(int(v)).rstrip("0")
                text = "%se%d" % (s, len(str(int(v))) - len(s))
            if lo is not None and not (lo <= float(text) <= hi):
                text = repr(_sig(r.uniform(lo, hi)))
            return ("num", text, float(text))
        v = _sig(v, r.randint(1, 6))
        if v == 0:
            v = 0.5
        form = r.randint(0, 5)
        if form == 0:
            text = repr(v)
        elif form == 1:
            text = "%.6e" % v
            m, e = text.split("e")
            text = m.rstrip("0").rstrip(".") + ("e" if r.random() < 0.5 else "E") + str(int(e))
            if "." not in text and self.number_forms != "all":
                text = text.replace("e", ".e").replace("E", ".E")
        elif form == 2:
            text = ("%.6E" % v)
            m, e = text.split("E")
            text = m.rstrip("0") + "E" + ("+" if int(e) >= 0 else "-") + "%02d" % abs(int(e))
        elif form == 3 and abs(v) < 1 and repr(v).startswith("0."):
            text = repr(v)[1:]                        # .5
        elif form == 4 and v == int(v) and abs(v) < 1e15:
            text = "%d." % int(v)                     # 5.
        else:
            text = repr(v)
        if "inf" in text or "nan" in text:
            text = "1.5"
        val = float(text)
        if lo is not None and not (lo <= val <= hi):
            val = _sig(min(max(val, lo), hi), 6)
            if not (lo <= val <= hi):
                val = (lo + hi) / 2
            text = repr(val)
        return ("num", text, float(text))

    def leaf(self):
        r = self.rng
        u = r.random()
        if self.vars and u < 0.6:
            n = r.choice(sorted(self.vars))
            return ("var", n), self.vars[n]
        if self.pars and u < 0.68:
            n = r.choice(sorted(self.pars))
            return ("par", n), (self.pars[n], self.pars[n])
        if self.csts and u < 0.74:
            n = r.choice(sorted(self.csts))
            return ("cst", n), (self.csts[n], self.csts[n])
        t = self.number()
        return t, (t[2], t[2])

    # -- domain adapters
    def fit(self, t, iv, tlo, thi):
        """affine change of t (by literal numbers) so that its interval lies in [tlo, thi]"""
        lo, hi = iv
        if tlo <= lo and hi <= thi:
            return t, iv
        w, tw = hi - lo, thi - tlo
        if w > 0.9 * tw:
            c = _sig(w / (0.8 * tw) * self.rng.uniform(1.0, 1.5), 2)
            c = max(c, 1.0)
            cn = ("num", repr(c), c)
            t, (lo, hi) = ("/", t, cn), (lo / c, hi / c)
        if lo < tlo:
            s = _sig((tlo - lo) * self.rng.uniform(1.05, 1.5) + 0.01 * abs(tlo) + 1e-3 * (hi - lo), 3)
            s = max(s, _sig(tlo - lo, 3) + abs(_sig(tlo - lo, 3)) * 0.01 + 1e-3)
            sn = ("num", repr(s), s)
            t, (lo, hi) = ("+", t, sn), (lo + s, hi + s)
        elif hi > thi:
            s = _sig((hi - thi) * self.rng.uniform(1.05, 1.5) + 0.01 * abs(thi) + 1e-3 * (hi - lo), 3)
            s = max(s, _sig(hi - thi, 3) + abs(_sig(hi - thi, 3)) * 0.01 + 1e-3)
            sn = ("num", repr(s), s)
            t, (lo, hi) = ("-", t, sn), (lo - s, hi - s)
        if not (tlo <= lo and hi <= thi):
            return None, None
        return t, (lo, hi)

    def ok(self, iv):
        return iv is not None and all(math.isfinite(x) for x in iv) and max(abs(iv[0]), abs(iv[1])) <= self.max_abs

    # -- trees
    def tree(self, depth):
        """-> (tree, (lo, hi))"""
        for _ in range(20):
            t, iv = self._gen(depth, top=True)
            if t is not None and self.ok(iv):
                return t, iv
        return self.leaf()

    def arith(self, depth):
        """a tree without conditional -> (tree, interval)"""
        for _ in range(20):
            t, iv = self._gen(depth, top=False)
            if t is not None and self.ok(iv):
                return t, iv
        return self.leaf()

    def _gen(self, depth, top=False):
        r = self.rng
        if depth <= 1 or r.random() < 0.12:
            return self.leaf()
        u = r.random()
        if top and self.conditional and u < 0.12:
            return self._cond(depth)
        if u < 0.45:
            op = r.choice("++--**//")
            a, ia = self.arith(depth - 1)
            b, ib = self.arith(r.randint(1, depth - 1))
            if r.random() < 0.5:
                a, ia, b, ib = b, ib, a, ia
            if op == "+":
                return ("+", a, b), (ia[0] + ib[0], ia[1] + ib[1])
            if op == "-":
                return ("-", a, b), (ia[0] - ib[1], ia[1] - ib[0])
            if op == "*":
                return ("*", a, b), _imul(ia, ib)
            if ib[0] <= 0 <= ib[1] or min(abs(ib[0]), abs(ib[1])) < 1e-3:
                b, ib = self.fit(b, ib, 1e-2 * self.margin, self.max_abs)
                if b is None:
                    return None, None
            return ("/", a, b), _imul(ia, (1 / ib[1], 1 / ib[0]))
        if u < 0.52:
            a, ia = self.arith(depth - 1)
            return ("neg", a), (-ia[1], -ia[0])
        if u < 0.62:
            return self._pow(depth)
        if u < 0.68 and self.ipow:
            a, ia = self.arith(depth - 1)
            for _ in range(6):
                n = r.randint(1, 16)
                iv = _ipowint(ia, n)
                if self.ok(iv):
                    return ("ipow", n, a), iv
            return a, ia
        if u < 0.92 and self.f1:
            name = r.choice(self.f1)
            dlo, dhi, img = _DOM[name]
            if self.margin != 1.0 and name in ("sqrt", "ln", "log", "log10", "log2"):
                dlo = 1e-2 * self.margin
            if name in self.domains:
                dlo, dhi = max(dlo, self.domains[name][0]), min(dhi, self.domains[name][1])
            a, ia = self.arith(depth - 1)
            a, ia = self.fit(a, ia, dlo, dhi)
            if a is None:
                return None, None
            try:
                iv = img(ia[0], ia[1])
            except (OverflowError, ValueError):
                return None, None
            return ("f1", name, a), iv
        if self.f2:
            name = r.choice(self.f2)
            a, ia = self.arith(depth - 1)
            b, ib = self.arith(r.randint(1, depth - 1))
            if name == "max":
                return ("f2", name, a, b), (max(ia[0], ib[0]), max(ia[1], ib[1]))
            if name == "min":
                return ("f2", name, a, b), (min(ia[0], ib[0]), min(ia[1], ib[1]))
            if name == "hypot":
                m = math.hypot(max(abs(ia[0]), abs(ia[1])), max(abs(ib[0]), abs(ib[1])))
                return ("f2", name, a, b), (0.0, m)
            if (ia[0] <= 0 <= ia[1]) and (ib[0] <= 0 <= ib[1]):   # keep away from atan2(0,0)
                b, ib = self.fit(b, ib, 1e-2, self.max_abs)
                if b is None:
                    return None, None
            return ("f2", name, a, b), (-math.pi, math.pi)
        return self.leaf()

    def _pow(self, depth):
        r = self.rng
        a, ia = self.arith(depth - 1)
        if a[0] == "**":
            a = ("+", a, ("num", "0", 0.0)) if False else a   # nested ** is printed with parentheses anyway
        if r.random() < 0.5 or not self.pow_general:
            # integer literal exponent: any base sign; the Evaluator turns it into power<N> for |N| <= 16
            for _ in range(6):
                n = r.choice((2, 2, 3, 3, 4, 5, 6, 8, 16, 17, 20, -1, -2, -3, 0, 1))
                if n == 0 and not self.pow_zero:
                    n = 2
                iv = _ipowint(ia, n) if not (n < 0 and min(abs(ia[0]), abs(ia[1])) < 1e-3) else None
                if self.ok(iv):
                    e = ("num", str(abs(n)) + r.choice(("", "", ".", ".0")), float(abs(n)))
                    if n < 0:
                        e = ("neg", e)
                    return ("**", a, e), iv
            return a, ia
        a, ia = self.fit(a, ia, 1e-2 * max(1.0, self.margin), 1e4)
        if a is None:
            return None, None
        b, ib = self.arith(r.randint(1, max(1, depth - 2)))
        b, ib = self.fit(b, ib, -6.0, 6.0)
        if b is None:
            return None, None
        la = (math.log(ia[0]), math.log(ia[1]))
        lo, hi = _imul(la, ib)
        if hi > 40 or lo < -40:
            return None, None
        return ("**", a, b), (math.exp(lo), math.exp(hi))

    def comparison(self, depth):
        r = self.rng
        a, ia = self.arith(depth)
        if r.random() < 0.6:
            # compare with a literal inside the range so that both outcomes occur
            lo, hi = ia
            if hi > lo:
                b = self.number(lo, hi)
            else:
                b = self.number()
            ib = (b[2], b[2])
        else:
            b, ib = self.arith(r.randint(1, depth))
        op = r.choice(("<", "<=", ">", ">=", "<", ">", "=="))
        return ("cmp", op, a, b)

    def logical(self, depth, width=2):
        r = self.rng
        u = r.random()
        if width <= 0 or u < 0.55:
            return self.comparison(depth)
        if u < 0.7:
            return ("not", self.logical(depth, width - 1))
        return (r.choice(("and", "or")), self.logical(depth, width - 1), self.logical(depth, width - 1))

    def _cond(self, depth):
        c = self.logical(max(1, min(3, depth - 2)))
        a, ia = self.arith(depth - 1)
        b, ib = self.arith(depth - 1)
        return ("cond", c, a, b), (min(ia[0], ib[0]), max(ia[1], ib[1]))

    def point(self, nice=0.15):
        """values of the variables inside their boxes (uniform, log-uniform for wide positive boxes, sometimes a short decimal)"""
        r = self.rng
        env = {}
        for n, (lo, hi) in self.vars.items():
            if lo > 0 and hi / lo > 50:
                v = math.exp(r.uniform(math.log(lo), math.log(hi)))
            else:
                v = r.uniform(lo, hi)
            if r.random() < nice:
                w = _sig(v, 2)
                if lo <= w <= hi:
                    v = w
            env[n] = min(max(v, lo), hi)
        env.update(self.pars)
        return env
