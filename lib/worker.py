"""worker.py — run a monitor function in a child python process (so that a crash of the
generated/loaded native code becomes an observed event of the check, not the death of the
check):   python3 lib/worker.py <module> <function> <json-args-file>  ->  JSON on the last line"""
import importlib
import json
import sys
from pathlib import Path

sys.path.insert(0, str(Path(__file__).resolve().parent))
sys.path.insert(0, str(Path(__file__).resolve().parent.parent))


def main():
    mod, fn, argf = sys.argv[1:4]
    m = importlib.import_module(mod)
    args = json.loads(Path(argf).read_text())
    res = getattr(m, fn)(**args)
    sys.stdout.write("\n@@RESULT " + json.dumps(res, default=str) + "\n")


if __name__ == "__main__":
    main()
