"""C23 — finite-strain tangent operator and stress conversions are exact."""
import vfcore

META = {
    "engine": "math", "level": "exploration", "design_ref": "DESIGN.md §4.1 C23",
    "technique": "ASan+UBSan+assert harnesses on the real convert<To,From> templates (every specialisation the library declares, found at compile time); results judged against Richardson-extrapolated long-double central differences of closed-form hyperelastic stresses (neo-Hookean, Saint-Venant-Kirchhoff, Hencky), taken for the target stress w.r.t. the target kinematic variable",
    "text": "For N=1,2,3 and deformation gradients F = R.U (rotations up to pi, principal stretches 0.2..5, exactly equal stretches, near-identity), a hyperelastic response with closed-form Cauchy / Kirchhoff / PK1 / PK2 stresses is evaluated in long double; each tangent-operator flag gets an independent finite-difference value from its definition (d sigma/dF, d tau/dF, dS/dF, dPK1/dF, d./d(F1.F0^-1), dS/dC, dS/dE_GL, Lie / Truesdell / Jaumann rate moduli, Abaqus moduli, dT/dE_log). Every conversion the library provides is fed the (double-rounded) source operator and judged against the finite-difference value of its target; convert<A,C> is compared with convert<A,B> o convert<B,C>, convert<A,B> o convert<B,A> with the identity; the Cauchy/PK1/PK2/corotational/push-forward stress conversions are compared with their definitions and round trips. Held on the cases executed; nothing is claimed beyond them.",
    "note": "Trusted: harness/ref.hxx, harness/material/fs_ref.hxx (closed forms, self-checked against each other: tau = F.S.F^T, T = R^T.tau.R), g++, the sanitizer runtimes. Tolerance = 50 x FD error estimate + 256 eps x E x down(To), E the largest spatial-equivalent magnitude of any operator of the case (see c23.cxx); non-converged finite differences are skipped and counted. Compositions whose leg is itself in violation are skipped (counted).",
}

H = vfcore.VERIF / "harness/material"
LIBS = ("TFELMaterial", "TFELMath", "TFELUtilities", "TFELException")
SOURCES = [H / "c23.cxx", H / "c23_p0.cxx", H / "c23_p1.cxx", H / "c23_p2.cxx", H / "c23_p3.cxx"]
# (quick, thorough) cases per dimension
CASES = {1: (3000, 90000), 2: (3000, 90000), 3: (4200, 120000)}
# conversions found in the unchanged tree (To, From): the harness enumerates them itself, this list only makes a
# silent loss of coverage (a conversion no longer detected) inconclusive
EXPECTED = [
    ("DS_DC", "DS_DEGL"), ("DS_DEGL", "DS_DC"), ("SPATIAL_MODULI", "DS_DEGL"), ("DS_DEGL", "SPATIAL_MODULI"),
    ("DSIG_DF", "DS_DEGL"), ("DS_DF", "DS_DC"), ("DS_DF", "DS_DEGL"), ("ABAQUS", "SPATIAL_MODULI"), ("ABAQUS", "DS_DEGL"),
    ("DSIG_DF", "C_TRUESDELL"), ("SPATIAL_MODULI", "ABAQUS"), ("C_TRUESDELL", "SPATIAL_MODULI"), ("C_TRUESDELL", "DS_DEGL"),
    ("SPATIAL_MODULI", "C_TRUESDELL"), ("DSIG_DDF", "DSIG_DF"), ("DSIG_DF", "DSIG_DDF"), ("DTAU_DDF", "DTAU_DF"),
    ("DTAU_DF", "DTAU_DDF"), ("DSIG_DF", "DTAU_DF"), ("DTAU_DF", "DS_DF"), ("SPATIAL_MODULI", "DTAU_DF"),
    ("C_TAU_JAUMANN", "DTAU_DF"), ("C_TRUESDELL", "DTAU_DF"), ("ABAQUS", "C_TAU_JAUMANN"), ("C_TAU_JAUMANN", "ABAQUS"),
    ("C_TAU_JAUMANN", "SPATIAL_MODULI"), ("SPATIAL_MODULI", "C_TAU_JAUMANN"), ("ABAQUS", "DTAU_DF"),
    ("DTAU_DF", "C_TAU_JAUMANN"), ("DTAU_DF", "ABAQUS"), ("DTAU_DF", "SPATIAL_MODULI"), ("DS_DEGL", "DT_DELOG"),
    ("DS_DC", "DT_DELOG"), ("SPATIAL_MODULI", "DT_DELOG"), ("C_TRUESDELL", "DT_DELOG"), ("DSIG_DF", "ABAQUS"),
    ("DPK1_DF", "DSIG_DF"), ("DTAU_DF", "DPK1_DF"), ("DSIG_DF", "DPK1_DF"), ("DPK1_DF", "DS_DEGL"),
]
STRESS_APIS = ["convertCauchyStressToSecondPiolaKirchhoffStress", "convertSecondPiolaKirchhoffStressToCauchyStress",
               "PK2->Cauchy(Cauchy->PK2)", "push_forward(S,F)=F.S.F^T", "convertCauchyStressToFirstPiolaKirchhoffStress",
               "convertFirstPiolaKirchhoffStressToCauchyStress", "PK1->Cauchy(Cauchy->PK1)", "PK2==F^-1.PK1",
               "convertCorotationnalCauchyStressToSecondPiolaKirchhoffStress",
               "convertSecondPiolaKirchhoffStressToCorotationnalCauchyStress", "corotational->PK2->corotational",
               "PK2(corotational,U)==PK2(Cauchy,F)"]
STRATA = ["moderate", "large", "rot-pi", "pure-stretch", "equal-stretches", "near-identity"]


def build(ctx):
    out = vfcore.pmap(lambda n: (n, vfcore.compile_cxx("c23_%d" % n, SOURCES, "asan", libs=LIBS, flags=("-DC23_DIM=%d" % n,))),
                      (1, 2, 3), workers=3)
    return dict(out)


def run(ctx):
    b = build(ctx)
    ctx.cov["rule"] = ("case = (N, stratum, material in {neo-Hookean, SVK, Hencky}, lambda, mu, F0, F1) drawn from (VERIF_SEED, index); "
                       "distinct = hash of the rounded F0, F1 and material constants per (API, stratum); non-trivial = every case "
                       "(det F > 0, stresses and tangents non-zero; in 'near-identity' the stresses are small but the tangents are not)")
    for n in (1, 2, 3):
        req = []
        for to, frm in EXPECTED:
            for st in STRATA:
                req.append(("convert<%s,%s><%d>" % (to, frm, n), st, 20))
        for a in STRESS_APIS:
            req.append(("%s<%d>" % (a, n), None, 100))
        req.append(("reference-selfcheck<%d>" % n, None, 100))
        req.append(("ConvertKirchhoffStressJaumanRateModuliToKirchhoffStressDerivative<%d>" % n, None, 100))
        req.append(("registry:getFlags lists every flag once", None, 1))
        ctx.run_events(b[n], ctx.n(*CASES[n]), require=req, timeout=3600)
    ctx.assumptions += [
        "flag definitions (fs_ref.hxx): DSIG_DF/DTAU_DF/DS_DF/DPK1_DF = d(stress)/dF1; D*_DDF = derivative w.r.t. DF = F1.F0^-1 at fixed F0 (header comment and release notes 4.1: 'spatial increment of the deformation gradient'); DS_DC, DS_DEGL = dS/dC, dS/dE_GL; SPATIAL_MODULI c: Lie derivative of tau = c:d; C_TRUESDELL: Truesdell rate of sigma = C:d; C_TAU_JAUMANN: Jaumann rate of tau = C:d; ABAQUS = C_TAU_JAUMANN/J; DT_DELOG = dT/dE_log with T the dual of the lagrangian Hencky strain (for the isotropic models T = R^T.tau.R)",
        "objective-rate moduli are obtained along velocity gradients l = d + w with a random spin w: for the hyperelastic models used the moduli do not depend on w",
        "DSIG_DDE has no FiniteStrainBehaviourTangentOperatorType specialisation and no converter; DS_DDF has no converter: both are counted as unsupported, not judged",
        "principal stretches are at least 2% apart (or exactly equal, on the axes, in 'equal-stretches'): the nearly-coalescing regime of the DT_DELOG conversions belongs to C24",
        "PK1 round trips use first Piola-Kirchhoff stresses that derive from a symmetric Cauchy stress",
    ]
