// C25 — probe: Hill tensor of an ellipsoid whose axes are the first two columns of a generic
// rotation matrix (angle 0.3 rad about (1,2,3)/sqrt(14)), rounded to double.  The two directions
// are orthogonal to within one rounding error, which is all a caller can provide.
#include <cmath>
#include <cstdio>
#include "TFEL/Math/tvector.hxx"
#include "TFEL/Material/IsotropicEshelbyTensor.hxx"
int main() {
  using namespace tfel::material::homogenization::elasticity;
  const long double t = 0.3L, c = std::cos(t), s = std::sin(t), n = std::sqrt(14.0L);
  const long double u[3] = {1 / n, 2 / n, 3 / n};
  long double Q[3][3];
  for (int i = 0; i < 3; ++i) for (int j = 0; j < 3; ++j) Q[i][j] = (i == j ? c : 0) + (1 - c) * u[i] * u[j];
  Q[0][1] -= s * u[2]; Q[0][2] += s * u[1]; Q[1][0] += s * u[2]; Q[1][2] -= s * u[0]; Q[2][0] -= s * u[1]; Q[2][1] += s * u[0];
  tfel::math::tvector<3u, double> na, nb;
  for (int i = 0; i < 3; ++i) { na[i] = double(Q[i][0]); nb[i] = double(Q[i][1]); }
  std::printf("dot=%.3e\n", na[0] * nb[0] + na[1] * nb[1] + na[2] * nb[2]);
  std::fflush(stdout);
  const auto P = computeHillPolarisationTensor<double>(1e9, 0.3, na, 3., nb, 2., 1.);
  std::printf("accepted P(0,0)=%.6e\n", P(0, 0));
  return 0;
}
