/* C51 — direct driver of tfel::check::AreaComparison::compare (libTFELCheck of the current
 * tree).  The tfel-check binary cannot reach that function on the unchanged tree (it dies
 * before: Test::setColIntegralInterpolated stores the integration column in the wrong member,
 * see findings/C51-area-null-integration-column.md), so the verdict of the comparison itself is
 * observed by giving it the parameters the launcher was meant to give.
 *
 * usage: c51_area <cases file>
 *   one case per line: <idx> <fileA> <fileB> <column name> <abscissa column name> <Linear|Spline|LocalSpline|None> <precision>
 * output: "@@AREA <idx> <1 success | 0 failure>" or "@@AREA <idx> EXC <what>"
 * One Comparison object per case (the launcher shares one per @TestType; not relevant here). */
#include <cstdlib>
#include <fstream>
#include <iostream>
#include <memory>
#include <sstream>
#include <string>
#include "TFEL/Check/AreaComparison.hxx"
#include "TFEL/Check/Column.hxx"
#include "TFEL/Check/LinearInterpolation.hxx"
#include "TFEL/Check/NoInterpolation.hxx"
#include "TFEL/Check/SplineInterpolation.hxx"
#include "TFEL/Check/SplineLocalInterpolation.hxx"

int main(const int argc, const char* const* const argv) {
  using namespace tfel::check;
  if (argc != 2) {
    return 2;
  }
  std::ifstream in(argv[1]);
  std::string line;
  while (std::getline(in, line)) {
    std::istringstream is(line);
    std::string idx, fa, fb, col, tcol, itype, prec;
    if (!(is >> idx >> fa >> fb >> col >> tcol >> itype >> prec)) {
      continue;
    }
    try {
      auto c1 = std::make_shared<Column>(col);
      auto c2 = std::make_shared<Column>(col);
      c1->setFilename(fa);
      c2->setFilename(fb);
      auto ct = std::make_shared<Column>(tcol);
      std::shared_ptr<Interpolation> ii;
      if (itype == "Linear") {
        ii = std::make_shared<LinearInterpolation>();
      } else if (itype == "Spline") {
        ii = std::make_shared<SplineInterpolation>();
      } else if (itype == "LocalSpline") {
        ii = std::make_shared<SplineLocalInterpolation>();
      } else {
        ii = std::make_shared<NoInterpolation>();
      }
      AreaComparison cmp;
      cmp.setParameters(c1, c2, std::strtod(prec.c_str(), nullptr), 0., nullptr, "none", false, ct, ii);
      cmp.compare();
      std::cout << "@@AREA " << idx << " " << (cmp.hasSucceed() ? 1 : 0) << std::endl;
    } catch (std::exception& e) {
      std::string w = e.what();
      for (auto& ch : w) {
        if (ch == '\n') ch = ' ';
      }
      std::cout << "@@AREA " << idx << " EXC " << w << std::endl;
    }
  }
  return 0;
}
