// eshelby_ref.hxx — independent long-double oracles for Hill / Eshelby / localisation tensors.
// The Hill polarisation tensor of an ellipsoid (semi-axes a_i along the frame axes) in a medium
// of stiffness C0 is computed from its integral definition (Willis 1977, Mura 1987):
//   P = 1/(4 pi) \int_{|z|=1} Gamma(xi(z)) dS(z),  xi_i = z_i / a_i,
//   Gamma_ijkl(xi) = sym_(ij),(kl) [ xi_j xi_l (K^-1)_ik ],  K_ik = C0_ijkl xi_j xi_l
// by Gauss-Legendre (cos theta) x trapezoid (phi) quadrature whose order is doubled until two
// successive results agree; nothing is taken from the closed forms used by the library.
#ifndef VERIF_ESHELBY_REF_HXX
#define VERIF_ESHELBY_REF_HXX
#include <vector>
#include "mat_ref.hxx"

namespace esh {
using namespace ref;
using mref::M6;

inline void gauss_legendre(int n, std::vector<L>& x, std::vector<L>& w) {
  x.assign(n, 0); w.assign(n, 0);
  const L pi = 3.14159265358979323846264338327950288L;
  for (int i = 0; i < (n + 1) / 2; ++i) {
    L z = std::cos(pi * (i + 0.75L) / (n + 0.5L)), pp = 0;
    for (int it = 0; it < 100; ++it) {
      L p1 = 1, p2 = 0;
      for (int j = 1; j <= n; ++j) { const L p3 = p2; p2 = p1; p1 = ((2 * j - 1) * z * p2 - (j - 1) * p3) / j; }
      pp = n * (z * p1 - p2) / (z * z - 1);
      const L z1 = z; z = z1 - p1 / pp;
      if (std::fabs(z - z1) < 1e-19L) break;
    }
    x[i] = -z; x[n - 1 - i] = z;
    w[i] = w[n - 1 - i] = 2 / ((1 - z * z) * pp * pp);
  }
}
// accumulate w * Gamma(xi) into acc; only the components with (ij)<=(kl) in Mandel order are
// formed (Gamma has the minor and major symmetries), the others are filled by symmetrise()
static const int MI[6] = {0, 1, 2, 0, 0, 1}, MJ[6] = {0, 1, 2, 1, 2, 2};
inline void add_gamma(T4& acc, const T4& C0, const V3& xi, L w) {
  M3 K = zero();
  for (int i = 0; i < 3; ++i) for (int k = i; k < 3; ++k) { L s = 0; for (int j = 0; j < 3; ++j) for (int l = 0; l < 3; ++l) s += C0.v[i][j][k][l] * xi[j] * xi[l]; K[i][k] = K[k][i] = s; }
  const M3 N = inv(K);
  const L w4 = w * 0.25L;
  for (int p = 0; p < 6; ++p) for (int q = p; q < 6; ++q) {
    const int i = MI[p], j = MJ[p], k = MI[q], l = MJ[q];
    acc.v[i][j][k][l] += w4 * (xi[j] * xi[l] * N[i][k] + xi[i] * xi[l] * N[j][k] + xi[j] * xi[k] * N[i][l] + xi[i] * xi[k] * N[j][l]);
  }
}
inline void symmetrise(T4& t) {
  for (int p = 0; p < 6; ++p) for (int q = p; q < 6; ++q) {
    const int i = MI[p], j = MJ[p], k = MI[q], l = MJ[q];
    const L v = t.v[i][j][k][l];
    t.v[j][i][k][l] = t.v[i][j][l][k] = t.v[j][i][l][k] = v;
    t.v[k][l][i][j] = t.v[l][k][i][j] = t.v[k][l][j][i] = t.v[l][k][j][i] = v;
  }
}
inline T4 hill_quad_n(const T4& C0, const L a[3], int n) {
  std::vector<L> x, w;
  gauss_legendre(n, x, w);
  const L pi = 3.14159265358979323846264338327950288L;
  const int m = 2 * n;
  T4 acc = t4zero();
  for (int i = 0; i < n; ++i) {
    const L ct = x[i], st = std::sqrt(1 - ct * ct);
    for (int j = 0; j < m; ++j) {
      const L ph = 2 * pi * (j + 0.5L) / m;
      const V3 xi = {st * std::cos(ph) / a[0], st * std::sin(ph) / a[1], ct / a[2]};
      add_gamma(acc, C0, xi, w[i] * (2 * pi / m));
    }
  }
  symmetrise(acc);
  L* p = &acc.v[0][0][0][0];
  for (int i = 0; i < 81; ++i) p[i] /= 4 * pi;
  return acc;
}
// returns false when the quadrature did not converge to rtol with n <= nmax
inline bool hill_quad(T4& P, const T4& C0, const L a[3], L rtol = 1e-12L, int nmax = 128) {
  T4 prev = hill_quad_n(C0, a, 16);
  for (int n = 32; n <= nmax; n *= 2) {
    T4 cur = hill_quad_n(C0, a, n);
    if (t4dist(cur, prev) <= rtol * t4norm(cur)) { P = cur; return true; }
    prev = cur;
  }
  return false;
}
// plane strain: elliptic cylinder (semi-axes a, b in the plane, infinite along z)
inline bool hill_quad_2d(T4& P, const T4& C0, L a, L b, L rtol = 1e-14L, int nmax = 4096) {
  const L pi = 3.14159265358979323846264338327950288L;
  auto run = [&](int m) {
    T4 acc = t4zero();
    for (int j = 0; j < m; ++j) { const L ph = 2 * pi * (j + 0.5L) / m; const V3 xi = {std::cos(ph) / a, std::sin(ph) / b, 0}; add_gamma(acc, C0, xi, 1.0L / m); }
    symmetrise(acc);
    return acc;
  };
  T4 prev = run(16);
  for (int m = 32; m <= nmax; m *= 2) {
    T4 cur = run(m);
    if (t4dist(cur, prev) <= rtol * t4norm(cur)) { P = cur; return true; }
    prev = cur;
  }
  return false;
}
// rotate a fourth order tensor given in the local frame whose axes are the columns of Q
inline T4 rotate(const T4& t, const M3& Q) {
  // one index at a time: r_ijkl = Q_ip Q_jq Q_km Q_ln t_pqmn
  T4 a = t4zero(), b = t4zero();
  for (int i = 0; i < 3; ++i) for (int q = 0; q < 3; ++q) for (int m = 0; m < 3; ++m) for (int n = 0; n < 3; ++n) { L s = 0; for (int p = 0; p < 3; ++p) s += Q[i][p] * t.v[p][q][m][n]; a.v[i][q][m][n] = s; }
  for (int i = 0; i < 3; ++i) for (int j = 0; j < 3; ++j) for (int m = 0; m < 3; ++m) for (int n = 0; n < 3; ++n) { L s = 0; for (int q = 0; q < 3; ++q) s += Q[j][q] * a.v[i][q][m][n]; b.v[i][j][m][n] = s; }
  for (int i = 0; i < 3; ++i) for (int j = 0; j < 3; ++j) for (int k = 0; k < 3; ++k) for (int n = 0; n < 3; ++n) { L s = 0; for (int m = 0; m < 3; ++m) s += Q[k][m] * b.v[i][j][m][n]; a.v[i][j][k][n] = s; }
  for (int i = 0; i < 3; ++i) for (int j = 0; j < 3; ++j) for (int k = 0; k < 3; ++k) for (int l = 0; l < 3; ++l) { L s = 0; for (int n = 0; n < 3; ++n) s += Q[l][n] * a.v[i][j][k][n]; b.v[i][j][k][l] = s; }
  return b;
}
inline T4 t4id() {  // symmetric identity
  T4 t = t4zero();
  for (int i = 0; i < 3; ++i) for (int j = 0; j < 3; ++j) for (int k = 0; k < 3; ++k) for (int l = 0; l < 3; ++l)
    t.v[i][j][k][l] = 0.5L * ((i == k) * (j == l) + (i == l) * (j == k));
  return t;
}
inline T4 t4add(const T4& a, const T4& b, L s = 1) {
  T4 r; const L* p = &a.v[0][0][0][0]; const L* q = &b.v[0][0][0][0]; L* o = &r.v[0][0][0][0];
  for (int i = 0; i < 81; ++i) o[i] = p[i] + s * q[i];
  return r;
}
inline T4 t4scal(const T4& a, L s) { T4 r; const L* p = &a.v[0][0][0][0]; L* o = &r.v[0][0][0][0]; for (int i = 0; i < 81; ++i) o[i] = s * p[i]; return r; }
// inverse on the space of symmetric tensors (Mandel 6x6); n = 6 (3D) or in-plane subspace
inline bool t4inv(T4& out, const T4& a) {
  M6 m = mref::to_m6(a), mi;
  if (!mref::inv6(m, mi, 6)) return false;
  out = mref::from_m6(mi);
  return true;
}
// A = [I + P:(Ci - C0)]^-1
inline bool localisation(T4& A, const T4& P, const T4& C0, const T4& Ci) {
  return t4inv(A, t4add(t4id(), ddot(P, t4add(Ci, C0, -1))));
}
// Eshelby (1957) sphere: S_1111 = (7-5nu)/(15(1-nu)), S_1122 = (5nu-1)/(15(1-nu)), S_1212 = (4-5nu)/(15(1-nu))
inline T4 sphere_eshelby(L nu) {
  const L d = 15 * (1 - nu), s1111 = (7 - 5 * nu) / d, s1122 = (5 * nu - 1) / d, s1212 = (4 - 5 * nu) / d;
  T4 t = t4zero();
  for (int i = 0; i < 3; ++i) for (int j = 0; j < 3; ++j) for (int k = 0; k < 3; ++k) for (int l = 0; l < 3; ++l) {
    L v = 0;
    if (i == j && k == l) v = (i == k) ? s1111 : s1122;
    else if ((i == k && j == l) || (i == l && j == k)) v = s1212;
    t.v[i][j][k][l] = v;
  }
  return t;
}
}  // namespace esh
#endif
