// C29 — ThreadPool: exactly-once, futures, wait() completeness, destructor drains the queue.
// One process runs many short seeded histories against the real ThreadPool.cxx (compiled
// into this binary with -DTFEL_VERIF so that the hook points are active); the hook
// (tfel_verif_point, defined here) records the site sequence (interleaving signature) and
// injects seeded yields/sleeps *between* the pool's critical sections.  Every client call is
// logged before/after with a ticket drawn under one mutex (a total order consistent with
// happens-before); the history is then checked offline (unique task ids => O(n log n)).
#define VFH_MAIN
#include "vfh.hxx"
#include <atomic>
#include <chrono>
#include <future>
#include <memory>
#include <mutex>
#include <stdexcept>
#include <thread>
#include <vector>
#include <sched.h>
#include "TFEL/System/ThreadPool.hxx"

using tfel::system::ThreadPool;
using tfel::system::ThreadedTaskResult;

enum Kind { ADD_CALL, ADD_RET, ADD_THROW, START, END, WAIT_CALL, WAIT_RET, DTOR_CALL, DTOR_RET, STOP_SET };
struct Ev { uint64_t t; int kind; long id; };
static std::mutex g_m;
static std::vector<Ev> g_ev;
static uint64_t g_ticket = 0;
static uint64_t g_sig = 1469598103934665603ull;  // interleaving signature of the current history
static long g_hook_events = 0;

static uint64_t logev(int kind, long id) {
  std::lock_guard<std::mutex> l(g_m);
  g_ev.push_back({++g_ticket, kind, id});
  return g_ticket;
}

// ---- hook: schedule perturbation plan of the current history
struct Plan { std::atomic<int> permille[8]; std::atomic<int> usec[8]; std::atomic<uint64_t> seed; };
static Plan g_plan;
static const char* SITES[8] = {"tp.pop", "tp.done", "tp.idle", "tp.wait.enter", "tp.dtor.enter", "tp.dtor.stop", "?", "?"};
static thread_local uint64_t tl_rng = 0;
static thread_local int tl_idx = -1;
static std::atomic<int> g_thread_counter{0};

extern "C" void tfel_verif_point(const char* site, long id) {
  int s = 6;
  for (int i = 0; i < 6; ++i) if (std::strcmp(site, SITES[i]) == 0) { s = i; break; }
  if (tl_idx < 0) tl_idx = g_thread_counter++;
  if (s == 5) logev(STOP_SET, 0);
  {
    std::lock_guard<std::mutex> l(g_m);
    g_sig = (g_sig ^ uint64_t(s * 131 + (id & 0xff))) * 1099511628211ull;
    ++g_hook_events;
  }
  if (tl_rng == 0) tl_rng = g_plan.seed.load() ^ (uint64_t(tl_idx + 1) * 0x9e3779b97f4a7c15ull);
  const int pm = g_plan.permille[s].load();
  if (pm == 0) return;
  uint64_t r = vf::splitmix(tl_rng);
  if (int(r % 1000) >= pm) return;
  const int us = g_plan.usec[s].load();
  if (us <= 0) sched_yield();
  else std::this_thread::sleep_for(std::chrono::microseconds(us));
}

struct TaskError : std::runtime_error {
  long id;
  explicit TaskError(long i) : std::runtime_error("task error"), id(i) {}
};

static long value_of(long id) { return id * 2654435761L + 7; }

struct TaskSpec { long id; int dur; bool throws; int nested; };  // dur: 0 none, -1 yield, >0 spin usec

struct History {
  std::mutex fm;
  std::vector<std::pair<long, std::future<ThreadedTaskResult<long>>>> futs;
  std::vector<TaskSpec> specs;  // indexed by id
  std::atomic<long> next_nested;
};

static void spin(int us) {
  auto t0 = std::chrono::steady_clock::now();
  while (std::chrono::steady_clock::now() - t0 < std::chrono::microseconds(us)) {}
}

static long run_task(ThreadPool* p, History* h, long id) {
  const TaskSpec sp = h->specs[id];
  logev(START, id);
  if (sp.dur == -1) sched_yield();
  else if (sp.dur > 0) spin(sp.dur);
  for (int k = 0; k < sp.nested; ++k) {
    const long nid = h->next_nested++;
    logev(ADD_CALL, nid);
    try {
      auto f = p->addTask([p, h, nid] { return run_task(p, h, nid); });
      logev(ADD_RET, nid);
      std::lock_guard<std::mutex> l(h->fm);
      h->futs.emplace_back(nid, std::move(f));
    } catch (std::runtime_error&) {
      logev(ADD_THROW, nid);
    }
  }
  logev(END, id);
  if (sp.throws) throw TaskError(id);
  return value_of(id);
}

static vf::Reporter R;
static const char* SCEN[] = {"basic", "throwing", "nested", "multi-client-wait", "dtor-immediately", "dtor-nested"};

static void one_history(const vf::Args& a, uint64_t idx) {
  vf::Rng g(a.seed, 29, idx);
  const int scen = int(idx % 6);
  const char* S = SCEN[scen];
  vf::set_case("ThreadPool", S, idx);
  static const int NW[] = {1, 1, 2, 2, 3, 4, 4, 8, 16};
  const int nw = NW[g.irange(0, 8)];
  int nt;
  {
    const int c = g.irange(0, 9);
    nt = c == 0 ? 0 : (c < 4 ? g.irange(1, 4) : (c < 8 ? g.irange(5, 60) : g.irange(61, a.thorough ? 3000 : 400)));
  }
  const int nclients = (scen == 3) ? g.irange(2, 4) : (g.coin() ? 1 : g.irange(1, 3));
  // plan
  for (int s = 0; s < 8; ++s) { g_plan.permille[s] = 0; g_plan.usec[s] = 0; }
  const int nperturbed = g.irange(0, 4);
  for (int k = 0; k < nperturbed; ++k) {
    const int s = g.irange(0, 5);
    g_plan.permille[s] = g.pick(std::vector<int>{50, 200, 500, 1000});
    g_plan.usec[s] = g.pick(std::vector<int>{0, 0, 1, 20, 100});
  }
  g_plan.seed = g.u64() | 1;
  {
    std::lock_guard<std::mutex> l(g_m);
    g_ev.clear(); g_ticket = 0; g_sig = 1469598103934665603ull;
  }
  History h;
  const int maxn = nt * 3 + 8;
  h.specs.resize(size_t(maxn));
  for (long i = 0; i < maxn; ++i) {
    TaskSpec sp{i, 0, false, 0};
    const int d = g.irange(0, 5);
    sp.dur = d < 3 ? 0 : (d == 3 ? -1 : g.irange(1, d == 4 ? 20 : 200));
    if (scen == 1) sp.throws = g.irange(0, 9) < 3;
    if ((scen == 2 || scen == 5) && i < nt) sp.nested = g.irange(0, 2);
    h.specs[size_t(i)] = sp;
  }
  h.next_nested = nt;
  // nested tasks may not exceed the spec table
  {
    long tot = nt;
    for (long i = 0; i < nt; ++i) { if (tot + h.specs[size_t(i)].nested > maxn) h.specs[size_t(i)].nested = 0; tot += h.specs[size_t(i)].nested; }
  }
  auto pool = std::make_unique<ThreadPool>(size_t(nw));
  ThreadPool* p = pool.get();
  long waits = 0;
  std::atomic<long> wid{0};
  {
    std::vector<std::thread> cl;
    std::vector<uint64_t> cseed;
    for (int c = 0; c < nclients; ++c) cseed.push_back(g.u64());
    const bool midwait = (scen == 3) || g.irange(0, 3) == 0;
    for (int c = 0; c < nclients; ++c) {
      cl.emplace_back([&, c] {
        uint64_t s = cseed[size_t(c)];
        for (long id = c; id < nt; id += nclients) {
          logev(ADD_CALL, id);
          auto f = p->addTask([p, &h, id] { return run_task(p, &h, id); });
          logev(ADD_RET, id);
          { std::lock_guard<std::mutex> l(h.fm); h.futs.emplace_back(id, std::move(f)); }
          if (midwait && (vf::splitmix(s) % 16 == 0)) {
            const long w = wid++;
            logev(WAIT_CALL, w);
            p->wait();
            logev(WAIT_RET, w);
          }
        }
      });
    }
    for (auto& t : cl) t.join();
  }
  const bool direct_dtor = (scen == 4 || scen == 5);
  if (!direct_dtor) {
    const long w = wid++;
    logev(WAIT_CALL, w);
    p->wait();
    logev(WAIT_RET, w);
  }
  logev(DTOR_CALL, 0);
  pool.reset();
  const uint64_t t_dtor_ret = logev(DTOR_RET, 0);
  waits = wid.load();
  // ---------------- offline check of the history
  std::vector<Ev> ev;
  uint64_t sig;
  { std::lock_guard<std::mutex> l(g_m); ev = g_ev; sig = g_sig; }
  const long nid = h.next_nested.load();
  std::vector<uint64_t> add_call(size_t(nid), 0), add_ret(size_t(nid), 0), add_throw(size_t(nid), 0), start(size_t(nid), 0), end(size_t(nid), 0);
  std::vector<int> nstart(size_t(nid), 0), nend(size_t(nid), 0);
  std::vector<uint64_t> wcall(size_t(waits), 0), wret(size_t(waits), 0);
  uint64_t t_stop = 0;
  for (const Ev& e : ev) {
    switch (e.kind) {
      case ADD_CALL: add_call[size_t(e.id)] = e.t; break;
      case ADD_RET: add_ret[size_t(e.id)] = e.t; break;
      case ADD_THROW: add_throw[size_t(e.id)] = e.t; break;
      case START: start[size_t(e.id)] = e.t; nstart[size_t(e.id)]++; break;
      case END: end[size_t(e.id)] = e.t; nend[size_t(e.id)]++; break;
      case WAIT_CALL: wcall[size_t(e.id)] = e.t; break;
      case WAIT_RET: wret[size_t(e.id)] = e.t; break;
      case STOP_SET: t_stop = e.t; break;
      default: break;
    }
  }
  const uint64_t hh = sig;  // distinct = distinct interleaving signatures
  long bad_once = -1, bad_wait = -1, bad_dtor = -1, bad_stop = -1, bad_future = -1;
  int maxconc = 0;
  {  // max concurrency actually observed (for the evidence)
    int cur = 0;
    for (const Ev& e : ev) { if (e.kind == START) { ++cur; if (cur > maxconc) maxconc = cur; } else if (e.kind == END) --cur; }
  }
  for (long id = 0; id < nid; ++id) {
    const bool submitted = add_ret[size_t(id)] != 0;
    if (submitted && (nstart[size_t(id)] != 1 || nend[size_t(id)] != 1)) bad_once = id;
    if (!submitted && (nstart[size_t(id)] != 0)) bad_once = id;  // refused or never submitted, yet ran
    if (submitted && !(end[size_t(id)] != 0 && end[size_t(id)] < t_dtor_ret)) bad_dtor = id;
    // enqueue accepted after `stop` was set
    if (submitted && t_stop != 0 && add_call[size_t(id)] > t_stop) bad_stop = id;
    for (long w = 0; w < waits; ++w) {
      if (submitted && add_ret[size_t(id)] < wcall[size_t(w)] && !(end[size_t(id)] != 0 && end[size_t(id)] < wret[size_t(w)])) bad_wait = id;
    }
  }
  // futures
  long nfut = 0;
  for (auto& pf : h.futs) {
    ++nfut;
    const long id = pf.first;
    if (pf.second.wait_for(std::chrono::seconds(0)) != std::future_status::ready) { bad_future = id; continue; }
    ThreadedTaskResult<long> r = pf.second.get();
    if (h.specs[size_t(id)].throws) {
      bool ok = false;
      if (!r) { try { r.rethrow(); } catch (TaskError& e) { ok = (e.id == id); } catch (...) {} }
      if (!ok) bad_future = id;
    } else {
      if (!r || *r != value_of(id)) bad_future = id;
    }
  }
  auto dump = [&] {
    vf::J j;
    j.i("history", (long long)idx).s("scenario", S).i("workers", nw).i("tasks", nt).i("all_ids", nid).i("clients", nclients).i("waits", waits)
        .i("events", (long long)ev.size()).i("max_concurrent_tasks", maxconc).i("bad_once", bad_once).i("bad_wait", bad_wait)
        .i("bad_dtor", bad_dtor).i("bad_stop", bad_stop).i("bad_future", bad_future);
    return j.str();
  };
  R.expect("exactly-once", S, idx, hh, bad_once < 0, dump);
  R.expect("wait-complete", S, idx, hh, bad_wait < 0, dump);
  R.expect("dtor-drains-queue", S, idx, hh, bad_dtor < 0, dump);
  R.expect("no-enqueue-after-stop", S, idx, hh, bad_stop < 0, dump);
  R.expect("future-result", S, idx, hh, bad_future < 0 && nfut == long(h.futs.size()), dump);
  std::printf("@@VF {\"ev\":\"note\",\"what\":\"tasks_run\",\"n\":%ld}\n", nid);
  std::printf("@@VF {\"ev\":\"note\",\"what\":\"max_concurrent_%d\",\"n\":1}\n", maxconc >= 8 ? 8 : (maxconc >= 4 ? 4 : (maxconc >= 2 ? 2 : maxconc)));
}

int main(int argc, char** argv) {
  vf::Args a(argc, argv);
  for (long i = 0; i < a.cases; ++i) {
    const uint64_t idx = a.only >= 0 ? uint64_t(a.only) : a.gidx(i);
    one_history(a, idx);
    if (a.only >= 0) break;
  }
  std::printf("@@VF {\"ev\":\"note\",\"what\":\"hook_events\",\"n\":%ld}\n", g_hook_events);
  R.finish();
  return 0;
}
