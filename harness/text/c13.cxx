// C13 / C14 — tfel::math::Evaluator driven by formulas read on stdin (DESIGN.md §4.2).
// The harness only *observes*: every verdict is computed by checks/c13.py / checks/c14.py from the printed values.
// One case per input line, fields separated by 0x1f:
//   id | mode | formula | variables "name=hexfloat:lo:hi;..." | parameters "name=formula;..." | extra "k=v;..."
// Before a case the line "B <id>" is printed (flushed), so that a dying process names its witness.
//   mode V : Evaluator(variables, formula, manager) ; getValue, getCxxFormula (variables named v[i]),
//            resolveDependencies()->getValue, createFunctionByChangingParametersIntoVariables(cv=..)->getValue
//   mode F : Evaluator(formula) (free variables); listed variables get their value, any other one 1.25
//   mode D : as V, then differentiate(wrt) [-> differentiate(wrt2)] and Richardson central differences of getValue
#define VFH_MAIN
#include "vfh.hxx"
#include <iostream>
#include <memory>
#include <set>
#include "TFEL/Math/Evaluator.hxx"
#include "TFEL/Math/Parser/ExternalFunctionManager.hxx"

using S = std::string;
using namespace tfel::math;
using tfel::math::parser::ExternalFunction;
using tfel::math::parser::ExternalFunctionManager;

static std::vector<S> split(const S& s, char c) {
  std::vector<S> r; S cur;
  for (char x : s) { if (x == c) { r.push_back(cur); cur.clear(); } else cur += x; }
  r.push_back(cur);
  return r;
}
static S hex(const S& s) {
  static const char* d = "0123456789abcdef";
  S r;
  for (unsigned char c : s) { r += d[c >> 4]; r += d[c & 15]; }
  return r.empty() ? S("-") : r;
}
static S hf(double v) { char b[64]; std::snprintf(b, sizeof b, "%a", v); return b; }

struct Var { S name; double v, lo, hi; };

// central differences + Richardson extrapolation of g around x.  Six steps h0/2^k; the derivative is extrapolated
// twice, from the steps 0..3 and from the steps 2..5: the two results must agree, otherwise the table has not
// converged (kink, domain edge, oscillation faster than the step) and the point is not judged.
// returns false if a stencil point fails
template <typename G>
static bool richardson(G&& g, double x, double h0, double ferr, double& d, double& err) {
  const int N = 6, K = 4;
  double D[N];
  double fmax = 0;
  for (int k = 0; k < N; ++k) {
    const double h = h0 / double(1 << k);
    const volatile double xp = x + h, xm = x - h;
    double a, b;
    try { a = g(xp); b = g(xm); } catch (std::exception&) { return false; }
    if (!std::isfinite(a) || !std::isfinite(b)) return false;
    fmax = std::max(fmax, std::max(std::fabs(a), std::fabs(b)));
    D[k] = (a - b) / (xp - xm);
  }
  auto extrapolate = [&](int first, double& spread) {
    double T[K][K];
    for (int k = 0; k < K; ++k) T[0][k] = D[first + k];
    for (int j = 1; j < K; ++j)
      for (int k = 0; k + j < K; ++k) {
        const double q = std::pow(4.0, j);
        T[j][k] = (q * T[j - 1][k + 1] - T[j - 1][k]) / (q - 1);
      }
    spread = std::max(std::fabs(T[K - 1][0] - T[K - 2][0]), std::fabs(T[K - 1][0] - T[K - 2][1]));
    return T[K - 1][0];
  };
  double sa = 0, sb = 0;
  const double A = extrapolate(0, sa), B = extrapolate(2, sb);
  d = B;
  const double hmin = h0 / double(1 << (N - 1));
  const double round = 8 * (ferr + 4 * 1.1e-16 * fmax) / hmin;
  err = std::fabs(A - B) + sb + round;
  // the coarse and the fine tables must tell the same story
  if (!(std::fabs(A - B) <= 1e-5 * std::max(std::fabs(A), std::fabs(B)) + 16 * round)) return false;
  return std::isfinite(d) && std::isfinite(err);
}

int main(int, char**) {
  std::ios::sync_with_stdio(false);
  S line;
  while (std::getline(std::cin, line)) {
    const auto f = split(line, '\x1f');
    if (f.size() < 6) continue;
    const S &id = f[0], &mode = f[1], &formula = f[2];
    std::vector<Var> vars;
    if (!f[3].empty())
      for (const auto& it : split(f[3], ';')) {
        const auto eq = it.find('=');
        const auto p = split(it.substr(eq + 1), ':');
        Var v{it.substr(0, eq), std::strtod(p[0].c_str(), nullptr), -1e300, 1e300};
        if (p.size() >= 3) { v.lo = std::strtod(p[1].c_str(), nullptr); v.hi = std::strtod(p[2].c_str(), nullptr); }
        vars.push_back(v);
      }
    std::vector<std::pair<S, S>> params;
    if (!f[4].empty())
      for (const auto& it : split(f[4], ';')) { const auto eq = it.find('='); params.push_back({it.substr(0, eq), it.substr(eq + 1)}); }
    std::map<S, S> extra;
    if (!f[5].empty())
      for (const auto& it : split(f[5], ';')) { const auto eq = it.find('='); if (eq != S::npos) extra[it.substr(0, eq)] = it.substr(eq + 1); }
    std::printf("B %s\n", id.c_str());
    std::fflush(stdout);
    vf::set_case(mode == "F" ? "Evaluator(free)" : "Evaluator", mode.c_str(), std::strtoull(id.c_str(), nullptr, 10));
    S out = "R " + id + " " + mode + " ";
    if (mode == "F") {
      try {
        Evaluator ev(formula);
        try {
          for (const auto& n : ev.getVariablesNames()) {
            double val = 1.25;
            for (const auto& v : vars) if (v.name == n) val = v.v;
            ev.setVariableValue(n, val);
          }
          const double v = ev.getValue();
          S names;
          for (const auto& n : ev.getVariablesNames()) names += (names.empty() ? "" : ",") + n;
          out += "ok " + hf(v) + " vars=" + hex(names);
        } catch (std::exception& e) { out += S("exc-eval ") + hex(e.what()); }
      } catch (std::exception& e) { out += S("exc-parse ") + hex(e.what()); }
      std::printf("%s\n", out.c_str());
      continue;
    }
    try {
      auto m = std::make_shared<ExternalFunctionManager>();
      std::vector<S> vn;
      for (const auto& v : vars) vn.push_back(v.name);
      for (const auto& p : params) (*m)[p.first] = std::make_shared<Evaluator>(std::vector<S>{}, p.second, m);
      std::unique_ptr<Evaluator> pev;
      if (params.empty() && extra.count("free")) {
        pev.reset(new Evaluator(formula));   // variables discovered by the parser
      } else {
        pev.reset(new Evaluator(vn, formula, m));
      }
      Evaluator& ev = *pev;
      double v = 0;
      try {
        for (const auto& x : vars) {
          bool known = false;
          for (const auto& n : ev.getVariablesNames()) if (n == x.name) known = true;
          if (known) ev.setVariableValue(x.name, x.v);
        }
        v = ev.getValue();
        out += "ok " + hf(v);
      } catch (std::exception& e) {
        out += S("exc-eval ") + hex(e.what());
        std::printf("%s\n", out.c_str());
        continue;
      }
      if (mode == "V") {
        // C++ text, variables renamed v[i] (i = index in the list given on the line)
        if (extra.count("cxx")) {
          try {
            std::map<S, S> ren;
            const auto known = ev.getVariablesNames();
            for (size_t i = 0; i < vars.size(); ++i)
              if (std::find(known.begin(), known.end(), vars[i].name) != known.end()) ren[vars[i].name] = "v[" + std::to_string(i) + "]";
            out += " cxx=" + hex(ev.getCxxFormula(ren));
          } catch (std::exception& e) { out += S(" cxx=EXC:") + hex(e.what()); }
        }
        if (extra.count("rd")) {
          try {
            auto r = ev.resolveDependencies();
            for (size_t i = 0; i < vars.size(); ++i) r->setVariableValue(i, vars[i].v);
            out += " rd=" + hf(r->getValue());
          } catch (std::exception& e) { out += S(" rd=EXC:") + hex(e.what()); }
        }
        if (extra.count("cv")) {
          try {
            std::vector<S> ps, asked;
            if (!extra["cv"].empty()) asked = split(extra["cv"], ',');
            // only the parameters the expression still holds can be turned into variables (x**0 is folded into 1)
            std::set<S> held;
            ev.getParametersNames(held);
            for (const auto& n : asked) if (held.count(n)) ps.push_back(n);
            S pl;
            for (const auto& n : ps) pl += (pl.empty() ? "" : ",") + n;
            out += " cvp=" + hex(pl);
            auto r = ev.createFunctionByChangingParametersIntoVariables(ps);
            for (size_t i = 0; i < vars.size(); ++i) r->setVariableValue(i, vars[i].v);
            for (size_t k = 0; k < ps.size(); ++k) {
              // the value of the parameter, as the manager gives it
              const double pv = m->at(ps[k])->getValue();
              r->setVariableValue(vars.size() + k, pv);
            }
            out += " cv=" + hf(r->getValue());
            out += " cvn=" + std::to_string(r->getNumberOfVariables());
          } catch (std::exception& e) { out += S(" cv=EXC:") + hex(e.what()); }
        }
      } else if (mode == "D") {
        const double ferr = extra.count("ferr") ? std::strtod(extra["ferr"].c_str(), nullptr) : 0.;
        auto pos_of = [&](const S& n) { for (size_t i = 0; i < vars.size(); ++i) if (vars[i].name == n) return i; return size_t(0); };
        const S w1 = extra["wrt"];
        const size_t p1 = pos_of(w1);
        auto step = [&](const Var& x) {
          double h = std::ldexp(std::max(std::fabs(x.v), 0.05 * (x.hi - x.lo)), -5);
          const double room = 0.45 * std::min(x.v - x.lo, x.hi - x.v);
          return std::min(h, room);
        };
        std::shared_ptr<ExternalFunction> d1;
        try {
          d1 = ev.differentiate(w1);
        } catch (std::exception& e) { out += S(" d1=EXC:") + hex(e.what()); d1.reset(); }
        if (d1) {
          try {
            for (size_t i = 0; i < vars.size(); ++i) d1->setVariableValue(i, vars[i].v);
            out += " d1=" + hf(d1->getValue());
          } catch (std::exception& e) { out += S(" d1=EVALEXC:") + hex(e.what()); d1.reset(); }
        }
        {
          double d = 0, err = 0;
          const double h = step(vars[p1]);
          const bool ok = h > 0 && richardson([&](double x) { ev.setVariableValue(p1, x); return ev.getValue(); }, vars[p1].v, h, ferr, d, err);
          ev.setVariableValue(p1, vars[p1].v);
          out += ok ? " fd1=" + hf(d) + " e1=" + hf(err) : S(" fd1=NA e1=NA");
        }
        if (d1 && extra.count("wrt2")) {
          const S w2 = extra["wrt2"];
          const size_t p2 = pos_of(w2);
          std::shared_ptr<ExternalFunction> d2;
          try {
            d2 = d1->differentiate(p2);
          } catch (std::exception& e) { out += S(" d2=EXC:") + hex(e.what()); }
          if (d2) {
            try {
              for (size_t i = 0; i < vars.size(); ++i) d2->setVariableValue(i, vars[i].v);
              out += " d2=" + hf(d2->getValue());
            } catch (std::exception& e) { out += S(" d2=EVALEXC:") + hex(e.what()); }
          }
          double d = 0, err = 0;
          const double h = step(vars[p2]);
          double d1v = 0;
          try { d1v = std::fabs(d1->getValue()); } catch (std::exception&) {}
          const bool ok = h > 0 && richardson([&](double x) { d1->setVariableValue(p2, x); return d1->getValue(); }, vars[p2].v, h,
                                              64 * 1.1e-16 * d1v + 8 * ferr / std::max(h, 1e-300) * 0, d, err);
          out += ok ? " fd2=" + hf(d) + " e2=" + hf(err) : S(" fd2=NA e2=NA");
        }
      }
    } catch (std::exception& e) {
      out += S("exc-parse ") + hex(e.what());
    }
    std::printf("%s\n", out.c_str());
  }
  std::printf("DONE\n");
  return 0;
}
