// C25 (part a) — homogenisation bounds (Voigt, Reuss, Hashin-Shtrikman), Mori-Tanaka = HS for
// well-ordered two-phase composites, plane-strain Eshelby / Hill / localisation tensors.
#define VFH_MAIN
#include "c25_common.hxx"
vf::Reporter R;

// ------------------------------------------------------------------------------------ bounds
static const char* B_STRATA[] = {"interior", "edge-fractions", "high-contrast", "single-phase"};
template <unsigned short d>
static void bounds_case(const vf::Args& a, uint64_t idx) {
  vf::Rng g(a.seed, 2500 + d, idx);
  const int st = int(idx % 4);
  const char* S = B_STRATA[st];
  char api[128];
  auto nm = [&](const char* f) { std::snprintf(api, sizeof api, "%s<%d>", f, int(d)); vf::set_case(api, S, idx); return api; };
  const int n = st == 3 ? g.irange(1, 3) : g.irange(2, 5);
  const L scale = g.logmag(-3, 11);
  const double span = st == 2 ? 2 : 1;
  std::vector<double> f(n), K(n), mu(n);
  L sum = 0;
  for (int i = 0; i < n; ++i) { f[i] = -std::log(1 - g.u01()); sum += f[i]; K[i] = double(scale * g.logmag(-span, span)); mu[i] = double(scale * g.logmag(-span, span)); }
  for (int i = 0; i < n; ++i) f[i] = double(f[i] / sum);
  if (st == 1) { const int z = g.irange(0, n - 1); const double fz = f[z]; f[z] = 0; f[(z + 1) % n] += fz; }
  if (st == 3) { for (int i = 0; i < n; ++i) { f[i] = (i == 0) ? 1.0 : 0.0; } if (g.coin()) for (int i = 1; i < n; ++i) { K[i] = K[0]; mu[i] = mu[0]; } }
  // fractions as rounded: the reference uses them as given (they sum to one up to rounding)
  uint64_t h = vf::hash_arr(f.data(), n, vf::hash_arr(K.data(), n, vf::hash_arr(mu.data(), n)));
  auto dump = [&] { vf::J j; j.i("d", d).arr("f", f.begin(), f.end()).arr("K", K.begin(), K.end()).arr("mu", mu.begin(), mu.end()); return j.str(); };
  L KV = 0, GV = 0, iKR = 0, iGR = 0, Kmax = 0, Gmax = 0;
  for (int i = 0; i < n; ++i) { KV += L(f[i]) * K[i]; GV += L(f[i]) * mu[i]; iKR += L(f[i]) / K[i]; iGR += L(f[i]) / mu[i]; Kmax = dmax(Kmax, K[i]); Gmax = dmax(Gmax, mu[i]); }
  const L KR = 1 / iKR, GR = 1 / iGR;
  // --- Voigt / Reuss on tensors (3D isotropic tensors, restricted to the 2D components for d=2)
  {
    std::vector<tfm::st2tost2<d, double>> C(n);
    for (int i = 0; i < n; ++i) C[i] = mk4<d>(restrict_dim(mref::iso_t4(L(K[i]) - 2 * L(mu[i]) / 3, L(mu[i])), d));
    std::vector<double> ff = f;
    const std::span<double> sf(ff);
    const std::span<tfm::st2tost2<d, double>> sC(C);
    const auto CV = hom::computeVoigtStiffness<d, double>(sf, sC);
    const auto CR = hom::computeReussStiffness<d, double>(sf, sC);
    // reference from the rounded tensors' moduli: the rounded C_i are isotropic up to eps
    const T4 ev = restrict_dim(mref::iso_t4(KV - 2 * GV / 3, GV), d), er = restrict_dim(mref::iso_t4(KR - 2 * GR / 3, GR), d);
    R.check(nm("computeVoigtStiffness"), S, idx, h, t4dist(from_st2tost2(CV, d), ev), KF * EPS * (3 * Kmax + 2 * Gmax), dump);
    // inversion of tensors whose eigenvalues 3K, 2mu differ by the contrast
    L cond = 1; for (int i = 0; i < n; ++i) cond = dmax(cond, dmax(3 * K[i] / (2 * mu[i]), 2 * mu[i] / (3 * K[i])));
    R.check(nm("computeReussStiffness"), S, idx, h, t4dist(from_st2tost2(CR, d), er), KF * EPS * cond * (3 * KR + 2 * GR) * n, dump);
  }
  // --- Hashin-Shtrikman bounds and the ordering Reuss <= HS- <= HS+ <= Voigt
  {
    std::vector<double> ff = f, KK = K, mm = mu;
    const auto b = hom::computeIsotropicHashinShtrikmanBounds<d, double>(std::span<double>(ff), std::span<double>(KK), std::span<double>(mm));
    const L KL = b.first.first, GL = b.first.second, KU = b.second.first, GU = b.second.second;
    // 1/sum f/(K*+K_i) - K*: cancellation of K* (up to ~2 mu_max) against the sum
    const L tK = KF * EPS * (Kmax + 2 * Gmax) * 4, tG = KF * EPS * (Gmax + 2 * dmax(Gmax, Kmax)) * 4;
    auto leq = [&](const char* what, L lo, L hi, L tol) { R.check(nm(what), S, idx, h, dmax(lo - hi, 0), tol, dump); };
    leq("K:Reuss<=HS-", KR, KL, tK); leq("K:HS-<=HS+", KL, KU, tK); leq("K:HS+<=Voigt", KU, KV, tK);
    leq("mu:Reuss<=HS-", GR, GL, tG); leq("mu:HS-<=HS+", GL, GU, tG); leq("mu:HS+<=Voigt", GU, GV, tG);
    if (d == 3 && n == 2 && f[0] > 0 && f[1] > 0 && (K[0] - K[1]) * (mu[0] - mu[1]) > 0) {
      // Hashin & Shtrikman (1963), well-ordered two-phase composite, phase s softer than phase t
      const int s = K[0] < K[1] ? 0 : 1, t = 1 - s;
      const L Ks = K[s], Kt = K[t], Gs = mu[s], Gt = mu[t], fs = f[s], ft = f[t];
      const L rKL = Ks + ft / (1 / (Kt - Ks) + 3 * fs / (3 * Ks + 4 * Gs));
      const L rKU = Kt + fs / (1 / (Ks - Kt) + 3 * ft / (3 * Kt + 4 * Gt));
      const L rGL = Gs + ft / (1 / (Gt - Gs) + 6 * fs * (Ks + 2 * Gs) / (5 * Gs * (3 * Ks + 4 * Gs)));
      const L rGU = Gt + fs / (1 / (Gs - Gt) + 6 * ft * (Kt + 2 * Gt) / (5 * Gt * (3 * Kt + 4 * Gt)));
      R.check(nm("HS-.K=Hashin-Shtrikman1963"), S, idx, h, std::fabs(KL - rKL), tK, dump);
      R.check(nm("HS+.K=Hashin-Shtrikman1963"), S, idx, h, std::fabs(KU - rKU), tK, dump);
      R.check(nm("HS-.mu=Hashin-Shtrikman1963"), S, idx, h, std::fabs(GL - rGL), tG, dump);
      R.check(nm("HS+.mu=Hashin-Shtrikman1963"), S, idx, h, std::fabs(GU - rGU), tG, dump);
      // Mori-Tanaka (spheres) with the softest / stiffest phase as matrix
      // the library goes through (E,nu): 1-2nu loses K/mu digits
      L cmt = 1; for (int i = 0; i < 2; ++i) cmt = dmax(cmt, dmax(K[i] / mu[i], mu[i] / K[i]));
      const L tK0 = tK, tG0 = tG; (void)tK0; (void)tG0;
      const tmat::KGModuli<double> ms(K[s], mu[s]), mt(K[t], mu[t]);
      const auto lo = hom::computeSphereMoriTanakaScheme<double>(ms, f[t], mt);
      const auto up = hom::computeSphereMoriTanakaScheme<double>(mt, f[s], ms);
      R.check(nm("MoriTanaka(softest matrix).K=HS-"), S, idx, h, std::fabs(L(lo.kappa) - KL), tK * cmt, dump);
      R.check(nm("MoriTanaka(softest matrix).mu=HS-"), S, idx, h, std::fabs(L(lo.mu) - GL), tG * cmt, dump);
      R.check(nm("MoriTanaka(stiffest matrix).K=HS+"), S, idx, h, std::fabs(L(up.kappa) - KU), tK * cmt, dump);
      R.check(nm("MoriTanaka(stiffest matrix).mu=HS+"), S, idx, h, std::fabs(L(up.mu) - GU), tG * cmt, dump);
    }
  }
}

// ----------------------------------------------------------------------------- plane strain
static const char* P_STRATA[] = {"disk", "ellipse", "near-disk"};
static void plane_case(const vf::Args& a, uint64_t idx) {
  vf::Rng g(a.seed, 2520, idx);
  const int st = int(idx % 3);
  const char* S = P_STRATA[st];
  char api[128];
  auto nm = [&](const char* f) { std::snprintf(api, sizeof api, "%s", f); vf::set_case(api, S, idx); return api; };
  const L scale = g.logmag(-3, 11);
  const Medium m0 = gen_medium(g, scale, 0), mi = gen_medium(g, scale, 2);
  const double u = g.logmag(-3, 3);
  const double aa = st == 0 ? u : (st == 1 ? u * g.logmag(0.05, 1.5) : u * (1 + g.logmag(-8, -2))), bb = u;
  const double th = g.uni(-3.2, 3.2);
  tfm::tvector<2u, double> na; na[0] = std::cos(th); na[1] = std::sin(th);
  const L nn = std::sqrt(L(na[0]) * na[0] + L(na[1]) * na[1]);
  M3 Q = eye(); Q[0][0] = na[0] / nn; Q[1][0] = na[1] / nn; Q[0][1] = -na[1] / nn; Q[1][1] = na[0] / nn;
  double in[7] = {m0.E, m0.nu, mi.E, mi.nu, aa, bb, th};
  const uint64_t h = vf::hash_arr(in, 7);
  auto dump = [&] { vf::J j; j.f("E0", m0.E).f("nu0", m0.nu).f("Ei", mi.E).f("nui", mi.nu).f("a", aa).f("b", bb).f("theta", th); return j.str(); };
  const tmat::YoungNuModuli<double> IM0(m0.E, m0.nu);
  T4 Ploc;
  if (!esh::hill_quad_2d(Ploc, m0.C, aa, bb)) { R.skip(nm("PlaneStrainHillTensor=integral-definition"), S); return; }
  const T4 Pref = esh::rotate(Ploc, Q);
  const L nP = 1 / (2 * m0.G);
  // only the in-plane components (xx, yy, xy) are compared: the out-of-plane row/column
  // convention of the 2D objects is not documented
  auto inplane = [](const T4& t) { T4 r = t4zero(); for (int i = 0; i < 2; ++i) for (int j = 0; j < 2; ++j) for (int k = 0; k < 2; ++k) for (int l = 0; l < 2; ++l) r.v[i][j][k][l] = t.v[i][j][k][l]; return r; };
  const L de = std::fabs(L(aa) / bb - 1);
  const L tol = st == 2 ? (32 * de + 1e-9L) : KF * EPS * (1 + (st == 1 ? 1 / (de * de) : 0)) + 1e-12L;
  const auto Pl = hom::computePlaneStrainHillTensor<double>(IM0, na, aa, bb);
  R.check(nm("PlaneStrainHillTensor=integral-definition"), S, idx, h, t4dist(inplane(from_st2tost2(Pl, 2)), inplane(Pref)), tol * nP, dump);
  if (st == 0) {
    const auto Pd = hom::computeDiskPlaneStrainHillTensor<double>(IM0);
    R.check(nm("DiskPlaneStrainHillTensor=integral-definition"), S, idx, h, t4dist(inplane(from_st2tost2(Pd, 2)), inplane(Pref)), tol * nP, dump);
    // plane-strain circular inclusion: S_1111=(5-4nu)/(8(1-nu)), S_1122=(4nu-1)/(8(1-nu)), S_1212=(3-4nu)/(8(1-nu))
    const auto Sd = hom::computeDiskPlaneStrainEshelbyTensor(m0.nu);
    const L n = m0.nu, d8 = 8 * (1 - n);
    T4 Sr = t4zero();
    for (int i = 0; i < 2; ++i) for (int j = 0; j < 2; ++j) for (int k = 0; k < 2; ++k) for (int l = 0; l < 2; ++l) {
      L v = 0;
      if (i == j && k == l) v = (i == k) ? (5 - 4 * n) / d8 : (4 * n - 1) / d8; else if ((i == k && j == l) || (i == l && j == k)) v = (3 - 4 * n) / d8;
      Sr.v[i][j][k][l] = v;
    }
    R.check(nm("DiskPlaneStrainEshelbyTensor=closed-form"), S, idx, h, t4dist(inplane(from_st2tost2(Sd, 2)), Sr), KF * EPS, dump);
  } else {
    const auto Se = hom::computePlaneStrainEshelbyTensor(m0.nu, aa / bb);
    // in its own basis (e1 along the long axis a >= b here); S = P:C0, in-plane block
    T4 Pq; const double e = aa / bb;
    if (esh::hill_quad_2d(Pq, m0.C, e, 1)) R.check(nm("PlaneStrainEshelbyTensor=integral-definition"), S, idx, h, t4dist(inplane(from_st2tost2(Se, 2)), inplane(ddot(Pq, m0.C))), tol * 4, dump);
  }
  // localisation: in-plane block of [I + P:(Ci-C0)]^-1 under plane strain (eps_zz = 0 everywhere)
  {
    // restricted to in-plane strains: A2 = [I2 + P2:(dC)2]^-1 on the 3 in-plane Mandel components
    const T4 dC = esh::t4add(mi.C, m0.C, -1);
    mref::M6 m = mref::to_m6(esh::t4add(esh::t4id(), ddot(inplane(Pref), dC)));
    // sub-matrix on (xx, yy, xy) = Mandel indices 0,1,3
    const int id[3] = {0, 1, 3};
    mref::M6 s; for (int i = 0; i < 6; ++i) for (int j = 0; j < 6; ++j) s.a[i][j] = 0;
    for (int i = 0; i < 3; ++i) for (int j = 0; j < 3; ++j) s.a[i][j] = m.a[id[i]][id[j]];
    mref::M6 si;
    if (mref::inv6(s, si, 3)) {
      const auto Ci2 = mk4<2>(restrict_dim(mi.C, 2));
      const auto Al = hom::computePlaneStrainLocalisationTensor<double>(IM0, Ci2, na, aa, bb);
      L e = 0, nA = 0;
      for (int i = 0; i < 3; ++i) for (int j = 0; j < 3; ++j) { e = dmax(e, std::fabs(L(Al(id[i], id[j])) - si.a[i][j])); nA = dmax(nA, std::fabs(si.a[i][j])); }
      const L contrast = dmax(mi.E / m0.E, m0.E / mi.E);
      R.check(nm("PlaneStrainLocalisationTensor=[I+P:(Ci-C0)]^-1(in-plane)"), S, idx, h, e, tol * 16 * contrast * dmax(nA, 1), dump);
      if (st == 0) {
        const auto Ad = hom::computeDiskPlaneStrainLocalisationTensor<double>(IM0, Ci2);
        L e2 = 0; for (int i = 0; i < 3; ++i) for (int j = 0; j < 3; ++j) e2 = dmax(e2, std::fabs(L(Ad(id[i], id[j])) - si.a[i][j]));
        R.check(nm("DiskPlaneStrainLocalisationTensor=[I+P:(Ci-C0)]^-1(in-plane)"), S, idx, h, e2, tol * 16 * contrast * dmax(nA, 1), dump);
      }
    }
  }
}

int main(int argc, char** argv) {
  vf::Args a(argc, argv);
  for (long i = 0; i < a.cases; ++i) {
    const uint64_t idx = a.only >= 0 ? uint64_t(a.only) : a.gidx(i);
    const uint64_t sub = idx / 5;
    switch (idx % 5) {
      case 0: case 1: case 2: bounds_case<3>(a, sub * 3 + idx % 5); break;
      case 3: bounds_case<2>(a, sub); break;
      default: plane_case(a, sub);
    }
    if (a.only >= 0) break;
  }
  R.finish();
  return 0;
}
