// fs_ref.hxx — private helpers of the C23 / C24 harnesses: long-double hyperelastic models with closed-form
// stresses, multi-output Richardson finite differences and the finite-difference *definitions* of every tangent
// operator flag of tfel::material::FiniteStrainBehaviourTangentOperatorBase.  Everything is written from the
// continuum-mechanics definitions (index notation, cyclic Jacobi of ref.hxx), never from the TFEL code paths.
#ifndef VERIF_FS_REF_HXX
#define VERIF_FS_REF_HXX
#include "ref.hxx"
#include "math/ref4.hxx"

namespace fsr {
using ref::L;
using ref::M3;
using ref::T4;

// ---- small algebra -------------------------------------------------------------------------------------------
inline M3 lin(const M3& a, L ca, const M3& b, L cb) {
  M3 r;
  for (int i = 0; i < 3; ++i) for (int j = 0; j < 3; ++j) r[i][j] = ca * a[i][j] + cb * b[i][j];
  return r;
}
inline M3 ident(L s) { return ref::scal(ref::eye(), s); }
inline M3 rcg(const M3& F) { return ref::mul(ref::tr(F), F); }   // C = F^T F
inline M3 lcg(const M3& F) { return ref::mul(F, ref::tr(F)); }   // b = F F^T
inline M3 logm(const M3& a) { return ref::isofun(ref::sym(a), [](L x) { return std::log(x); }); }
inline M3 expm(const M3& a) { return ref::isofun(ref::sym(a), [](L x) { return std::exp(x); }); }
inline M3 sqrtm(const M3& a) { return ref::isofun(ref::sym(a), [](L x) { return std::sqrt(x); }); }
// Hencky strains
inline M3 elog_lagrangian(const M3& F) { return ref::scal(logm(rcg(F)), 0.5L); }
inline M3 elog_eulerian(const M3& F) { return ref::scal(logm(lcg(F)), 0.5L); }
// smallest / largest principal stretch
inline void stretches(const M3& F, L& smin, L& smax) {
  const ref::V3 w = ref::eigvals_sorted(rcg(F));
  smin = std::sqrt(w[0]); smax = std::sqrt(w[2]);
}

// ---- isotropic hyperelastic models with closed-form stresses ---------------------------------------------------
//  NH     : W = mu/2 (I1 - 3) - mu ln J + lam/2 (ln J)^2     tau = mu (b - I) + lam ln J I
//  SVK    : W = lam/2 (tr E)^2 + mu E:E                       S   = lam tr(E) I + 2 mu E
//  HENCKY : W = lam/2 (tr e)^2 + mu e:e, e = 1/2 log C        tau = lam ln J I + mu log b
enum Kind { NH = 0, SVK = 1, HENCKY = 2 };
static const char* const KIND_NAME[] = {"neo-hookean", "svk", "hencky"};
struct Mat { int kind; L lam, mu; };

// second Piola-Kirchhoff stress as a function of the right Cauchy-Green tensor
inline M3 S_of_C(const Mat& m, const M3& C) {
  const M3 I = ref::eye();
  if (m.kind == NH) {
    const M3 iC = ref::inv(C);
    const L lnJ = 0.5L * std::log(ref::det(C));
    return lin(lin(I, m.mu, iC, -m.mu), 1, iC, m.lam * lnJ);
  }
  if (m.kind == SVK) {
    const M3 E = ref::scal(ref::add(C, I, -1), 0.5L);
    return lin(I, m.lam * ref::trace(E), E, 2 * m.mu);
  }
  const M3 iC = ref::inv(C);
  const L lnJ = 0.5L * std::log(ref::det(C));
  // C^{-1} and log C commute
  return lin(iC, m.lam * lnJ, ref::sym(ref::mul(iC, logm(C))), m.mu);
}
// Kirchhoff stress as a function of the deformation gradient (closed forms written independently of S_of_C
// for NH and HENCKY; tau = F.S.F^T for SVK)
inline M3 tau_of_F(const Mat& m, const M3& F) {
  const M3 I = ref::eye();
  if (m.kind == NH) {
    const L lnJ = std::log(ref::det(F));
    return lin(ref::add(lcg(F), I, -1), m.mu, I, m.lam * lnJ);
  }
  if (m.kind == SVK) return ref::sym(ref::mul(ref::mul(F, S_of_C(m, rcg(F))), ref::tr(F)));
  const L lnJ = std::log(ref::det(F));
  return lin(I, m.lam * lnJ, logm(lcg(F)), m.mu);
}
// dual of the lagrangian Hencky strain as a function of that strain (isotropy: T = R^T.tau.R = tau(U), U = exp(E))
inline M3 T_of_Elog(const Mat& m, const M3& E) {
  const M3 I = ref::eye();
  if (m.kind == HENCKY) return lin(I, m.lam * ref::trace(E), E, 2 * m.mu);
  const M3 C = expm(ref::scal(E, 2));
  if (m.kind == NH) return lin(ref::add(C, I, -1), m.mu, I, m.lam * ref::trace(E));
  const M3 C2 = ref::mul(C, C);
  return ref::sym(lin(C, 0.5L * m.lam * (ref::trace(C) - 3), ref::add(C2, C, -1), m.mu));
}
struct Stresses { M3 sig, tau, S, P; };
inline Stresses stresses(const Mat& m, const M3& F) {
  Stresses s;
  const L J = ref::det(F);
  const M3 iF = ref::inv(F);
  s.tau = tau_of_F(m, F);
  s.sig = ref::scal(s.tau, 1 / J);
  s.P = ref::mul(s.tau, ref::tr(iF));              // P = tau.F^{-T} = J sig F^{-T}
  s.S = S_of_C(m, rcg(F));                         // independent closed form (self-checked against F^{-1}.P)
  return s;
}

// ---- multi-output Richardson (same scheme and acceptance rule as harness/math/fd.hxx) ----------------------------
template <int K> struct Multi { M3 v[K]; };
template <int K> struct MEst { M3 d[K]; L est[K]; bool ok[K]; };

template <int K, typename F>
inline MEst<K> richardson(F&& f, const M3& x, const M3& dir, L h) {
  const L epsL = std::numeric_limits<L>::epsilon();
  L fscale[K];
  for (int k = 0; k < K; ++k) fscale[k] = 0;
  Multi<K> D[3];
  L hh = h;
  for (int lev = 0; lev < 3; ++lev, hh /= 2) {
    const Multi<K> fp = f(ref::add(x, dir, hh)), fm = f(ref::add(x, dir, -hh));
    for (int k = 0; k < K; ++k) {
      fscale[k] = std::max(fscale[k], std::max(ref::norm(fp.v[k]), ref::norm(fm.v[k])));
      D[lev].v[k] = lin(fp.v[k], 1 / (2 * hh), fm.v[k], -1 / (2 * hh));
    }
  }
  MEst<K> e;
  for (int k = 0; k < K; ++k) {
    const M3 r1 = lin(D[1].v[k], 4 / 3.0L, D[0].v[k], -1 / 3.0L), r2 = lin(D[2].v[k], 4 / 3.0L, D[1].v[k], -1 / 3.0L);
    e.d[k] = lin(r2, 16 / 15.0L, r1, -1 / 15.0L);
    const L floor_ = 4 * epsL * fscale[k] / (h / 4);
    const L e12 = ref::dist(D[0].v[k], D[1].v[k]), e23 = ref::dist(D[1].v[k], D[2].v[k]);
    e.est[k] = ref::dist(r2, r1) + floor_;
    const L dn = ref::norm(D[2].v[k]) + ref::norm(D[1].v[k]);
    e.ok[k] = std::isfinite(double(e.est[k])) && std::isfinite(double(ref::norm(e.d[k]))) &&
              (e23 <= 0.5L * e12 + floor_ || e23 <= 1e-10L * dn);
  }
  return e;
}

// ---- matrices in the storage conventions of the library ----------------------------------------------------------
// a(p,q): p = storage component of the result (stensor: Mandel; tensor: plain), q = storage component of the argument
struct KM {
  L a[9][9];
  int nr = 0, nc = 0;
  L est = 0;        // Frobenius norm of the finite-difference error estimates of the columns
  bool ok = false;  // every column converged
  L norm() const { L s = 0; for (int i = 0; i < nr; ++i) for (int j = 0; j < nc; ++j) s += a[i][j] * a[i][j]; return std::sqrt(s); }
};
inline KM km_zero(int nr, int nc) { KM k; k.nr = nr; k.nc = nc; k.ok = true; for (auto& r : k.a) for (L& x : r) x = 0; return k; }
inline void set_col_s(KM& k, int q, const M3& d, int N) { const auto s = ref::to_st(d, N); for (int p = 0; p < ref::ssize(N); ++p) k.a[p][q] = s[p]; }
inline void set_col_t(KM& k, int q, const M3& d, int N) { const auto t = ref::to_t(d, N); for (int p = 0; p < ref::tsize(N); ++p) k.a[p][q] = t[p]; }
inline void add_est(KM& k, L est, bool ok) { k.est = std::sqrt(k.est * k.est + est * est); k.ok = k.ok && ok; }
inline L km_dist(const KM& a, const KM& b) {
  L s = 0;
  for (int i = 0; i < a.nr; ++i) for (int j = 0; j < a.nc; ++j) s += (a.a[i][j] - b.a[i][j]) * (a.a[i][j] - b.a[i][j]);
  return std::sqrt(s);
}
// unit directions of the storage bases
inline M3 gen_dir(int k) { M3 d = ref::zero(); d[ref::TI[k]][ref::TJ[k]] = 1; return d; }
inline M3 sym_dir(int k) {
  M3 d = ref::zero();
  if (k < 3) d[k][k] = 1;
  else { d[ref::SI[k]][ref::SJ[k]] = 1 / ref::SQ2; d[ref::SJ[k]][ref::SI[k]] = 1 / ref::SQ2; }
  return d;
}
// random skew tensor representable in dimension N (zero in 1D)
inline M3 random_skew(vf::Rng& g, int N, L amp) {
  M3 w = ref::zero();
  if (N == 1) return w;
  const int np = (N == 2) ? 1 : 3;
  static const int PI_[3] = {0, 0, 1}, PJ_[3] = {1, 2, 2};
  for (int k = 0; k < np; ++k) { const L v = amp * g.uni(-1, 1); w[PI_[k]][PJ_[k]] = v; w[PJ_[k]][PI_[k]] = -v; }
  return w;
}

// ---- finite-difference definitions of the tangent operator flags ----------------------------------------------------
// same order as tfel::material::FiniteStrainBehaviourTangentOperatorBase::Flag (static_assert'ed in the harness)
enum Flag { DSIG_DF, DSIG_DDF, C_TRUESDELL, SPATIAL_MODULI, C_TAU_JAUMANN, ABAQUS, DSIG_DDE, DTAU_DF, DTAU_DDF, DS_DF,
            DS_DDF, DS_DC, DS_DEGL, DT_DELOG, DPK1_DF, NFLAGS };
static const char* const FLAG_NAME[] = {"DSIG_DF", "DSIG_DDF", "C_TRUESDELL", "SPATIAL_MODULI", "C_TAU_JAUMANN", "ABAQUS",
                                        "DSIG_DDE", "DTAU_DF", "DTAU_DDF", "DS_DF", "DS_DDF", "DS_DC", "DS_DEGL",
                                        "DT_DELOG", "DPK1_DF"};
//   DSIG_DF / DTAU_DF / DS_DF / DPK1_DF : d(sigma | tau | S | P)/dF at F1
//   DSIG_DDF / DTAU_DDF / DS_DDF        : d(.)/d(DF) of  DF -> stress(DF.F0)  at DF = F1.F0^{-1}   (header + release notes 4.1)
//   DS_DC, DS_DEGL                      : dS/dC, dS/dE_GL (C = 2E + I)
//   SPATIAL_MODULI  c : Lie derivative of tau      tau' - l.tau - tau.l^T              = c : d      (l = F'.F^{-1}, d = sym l)
//   C_TRUESDELL       : Truesdell rate of sigma    sig' - l.sig - sig.l^T + tr(l) sig  = C : d
//   C_TAU_JAUMANN     : Jaumann rate of tau        tau' - w.tau + tau.w                = C : d      (w = skw l)
//   ABAQUS            : C_TAU_JAUMANN / J
//   DT_DELOG          : dT/dE_log, T dual of the lagrangian Hencky strain
//   DSIG_DDE          : no conversion exists in the library; no reference is built
struct Refs {
  KM k[NFLAGS];
  Stresses s;      // stresses at F1
  M3 T, Elog;      // dual of the Hencky strain and the Hencky strain at F1
  L smin, smax;    // principal stretches of F1
  L selfcheck;     // |F.S.F^T - tau| + |R^T.tau.R - T(E_log)|  (consistency of the closed forms), relative
};

template <int N>
inline Refs build_refs(const Mat& m, const M3& F0, const M3& F1, vf::Rng& g) {
  constexpr int ns = ref::ssize(N), nt = ref::tsize(N);
  Refs r;
  r.s = stresses(m, F1);
  stretches(F1, r.smin, r.smax);
  for (auto& k : r.k) k = km_zero(0, 0);
  const L J = ref::det(F1);
  // --- derivatives with respect to F
  for (int f : {DSIG_DF, DTAU_DF, DS_DF}) r.k[f] = km_zero(ns, nt);
  r.k[DPK1_DF] = km_zero(nt, nt);
  {
    auto fun = [&](const M3& F) { const Stresses s = stresses(m, F); Multi<4> o; o.v[0] = s.sig; o.v[1] = s.tau; o.v[2] = s.S; o.v[3] = s.P; return o; };
    const L h = r.smin / 512;
    for (int q = 0; q < nt; ++q) {
      const MEst<4> e = richardson<4>(fun, F1, gen_dir(q), h);
      set_col_s(r.k[DSIG_DF], q, e.d[0], N); add_est(r.k[DSIG_DF], e.est[0], e.ok[0]);
      set_col_s(r.k[DTAU_DF], q, e.d[1], N); add_est(r.k[DTAU_DF], e.est[1], e.ok[1]);
      set_col_s(r.k[DS_DF], q, e.d[2], N); add_est(r.k[DS_DF], e.est[2], e.ok[2]);
      set_col_t(r.k[DPK1_DF], q, e.d[3], N); add_est(r.k[DPK1_DF], e.est[3], e.ok[3]);
    }
  }
  // --- derivatives with respect to the increment DF = F1.F0^{-1} (F0 fixed)
  for (int f : {DSIG_DDF, DTAU_DDF, DS_DDF}) r.k[f] = km_zero(ns, nt);
  {
    const M3 DF = ref::mul(F1, ref::inv(F0));
    auto fun = [&](const M3& X) { const Stresses s = stresses(m, ref::mul(X, F0)); Multi<3> o; o.v[0] = s.sig; o.v[1] = s.tau; o.v[2] = s.S; return o; };
    const L h = r.smin / (512 * ref::norm(F0));
    for (int q = 0; q < nt; ++q) {
      const MEst<3> e = richardson<3>(fun, DF, gen_dir(q), h);
      set_col_s(r.k[DSIG_DDF], q, e.d[0], N); add_est(r.k[DSIG_DDF], e.est[0], e.ok[0]);
      set_col_s(r.k[DTAU_DDF], q, e.d[1], N); add_est(r.k[DTAU_DDF], e.est[1], e.ok[1]);
      set_col_s(r.k[DS_DDF], q, e.d[2], N); add_est(r.k[DS_DDF], e.est[2], e.ok[2]);
    }
  }
  // --- dS/dC and dS/dE_GL
  r.k[DS_DC] = km_zero(ns, ns);
  r.k[DS_DEGL] = km_zero(ns, ns);
  {
    const M3 C = rcg(F1), I = ref::eye();
    const M3 E = ref::scal(ref::add(C, I, -1), 0.5L);
    auto funC = [&](const M3& X) { Multi<1> o; o.v[0] = S_of_C(m, X); return o; };
    auto funE = [&](const M3& X) { Multi<1> o; o.v[0] = S_of_C(m, ref::add(ref::scal(X, 2), I)); return o; };
    const L h = r.smin * r.smin / 512;
    for (int q = 0; q < ns; ++q) {
      const MEst<1> ec = richardson<1>(funC, C, sym_dir(q), h);
      set_col_s(r.k[DS_DC], q, ec.d[0], N); add_est(r.k[DS_DC], ec.est[0], ec.ok[0]);
      const MEst<1> ee = richardson<1>(funE, E, sym_dir(q), h / 2);
      set_col_s(r.k[DS_DEGL], q, ee.d[0], N); add_est(r.k[DS_DEGL], ee.est[0], ee.ok[0]);
    }
  }
  // --- objective-rate moduli: velocity gradient l = d_q + w (w random skew: the moduli must not depend on it)
  for (int f : {C_TRUESDELL, SPATIAL_MODULI, C_TAU_JAUMANN, ABAQUS}) r.k[f] = km_zero(ns, ns);
  {
    auto fun = [&](const M3& F) { Multi<2> o; o.v[1] = tau_of_F(m, F); o.v[0] = ref::scal(o.v[1], 1 / ref::det(F)); return o; };
    for (int q = 0; q < ns; ++q) {
      const M3 d = sym_dir(q), w = random_skew(g, N, 0.7L);
      const M3 l = ref::add(d, w);
      const MEst<2> e = richardson<2>(fun, F1, ref::mul(l, F1), 1 / (512 * ref::norm(l)));
      const M3& sd = e.d[0];  // sigma'
      const M3& td = e.d[1];  // tau'
      const M3 lt = ref::mul(l, r.s.tau), tlt = ref::mul(r.s.tau, ref::tr(l));
      const M3 ls = ref::mul(l, r.s.sig), slt = ref::mul(r.s.sig, ref::tr(l));
      const M3 lie = ref::add(ref::add(td, lt, -1), tlt, -1);
      const M3 tru = ref::add(ref::add(ref::add(sd, ls, -1), slt, -1), r.s.sig, ref::trace(l));
      const M3 jau = ref::add(ref::add(td, ref::mul(w, r.s.tau), -1), ref::mul(r.s.tau, w));
      // the geometric terms are exact; the error of the column is the one of the stress rate
      set_col_s(r.k[SPATIAL_MODULI], q, ref::sym(lie), N); add_est(r.k[SPATIAL_MODULI], e.est[1], e.ok[1]);
      set_col_s(r.k[C_TRUESDELL], q, ref::sym(tru), N); add_est(r.k[C_TRUESDELL], e.est[0], e.ok[0]);
      set_col_s(r.k[C_TAU_JAUMANN], q, ref::sym(jau), N); add_est(r.k[C_TAU_JAUMANN], e.est[1], e.ok[1]);
      set_col_s(r.k[ABAQUS], q, ref::scal(ref::sym(jau), 1 / J), N); add_est(r.k[ABAQUS], e.est[1] / J, e.ok[1]);
    }
  }
  // --- dT/dE_log
  r.k[DT_DELOG] = km_zero(ns, ns);
  r.Elog = elog_lagrangian(F1);
  r.T = T_of_Elog(m, r.Elog);
  {
    auto fun = [&](const M3& X) { Multi<1> o; o.v[0] = T_of_Elog(m, X); return o; };
    for (int q = 0; q < ns; ++q) {
      const MEst<1> e = richardson<1>(fun, r.Elog, sym_dir(q), 1 / 256.0L);
      set_col_s(r.k[DT_DELOG], q, e.d[0], N); add_est(r.k[DT_DELOG], e.est[0], e.ok[0]);
    }
  }
  r.k[DSIG_DDE].ok = false;
  // --- consistency of the closed forms: tau = F.S.F^T and T = R^T.tau.R
  {
    const M3 fsft = ref::mul(ref::mul(F1, r.s.S), ref::tr(F1));
    const M3 U = sqrtm(rcg(F1));
    const M3 Rr = ref::mul(F1, ref::inv(U));
    const M3 rtr = ref::mul(ref::mul(ref::tr(Rr), r.s.tau), Rr);
    const L sc = ref::norm(r.s.tau) + ref::norm(F1) * ref::norm(F1) * ref::norm(r.s.S) + (m.lam + m.mu) * 1e-3L;
    r.selfcheck = (ref::dist(fsft, r.s.tau) + ref::dist(rtr, r.T)) / sc;
  }
  return r;
}

}  // namespace fsr
#endif
