// ref4.hxx — private helpers of the C02/C06 harnesses: extra long-double index-notation
// operations on 3x3 / 3x3x3x3 arrays and the case generators shared by c02*.cxx, c06*.cxx.
// Everything here is written from the *definitions* (docs/web/tensors.md storage conventions
// and the index formulas quoted in the doxygen comments), never from TFEL code paths.
#ifndef VERIF_REF4_HXX
#define VERIF_REF4_HXX
#include "ref.hxx"

namespace ref {

#define VF_FOR4 for (int i = 0; i < 3; ++i) for (int j = 0; j < 3; ++j) for (int k = 0; k < 3; ++k) for (int l = 0; l < 3; ++l)

inline T4 t4add(const T4& a, const T4& b, L s = 1) { T4 r; VF_FOR4 r.v[i][j][k][l] = a.v[i][j][k][l] + s * b.v[i][j][k][l]; return r; }
inline T4 t4scal(const T4& a, L s) { T4 r; VF_FOR4 r.v[i][j][k][l] = s * a.v[i][j][k][l]; return r; }
// major transposition (A^T)_{ijkl} = A_{klij}
inline T4 t4tr(const T4& a) { T4 r; VF_FOR4 r.v[i][j][k][l] = a.v[k][l][i][j]; return r; }
// identity on general tensors d_ik d_jl ; transposer d_il d_jk ; symmetric identity ; I (x) I
inline T4 t4id() { T4 r = t4zero(); VF_FOR4 r.v[i][j][k][l] = (i == k && j == l) ? 1 : 0; return r; }
inline T4 t4transposer() { T4 r = t4zero(); VF_FOR4 r.v[i][j][k][l] = (i == l && j == k) ? 1 : 0; return r; }
inline T4 t4idsym() { return t4scal(t4add(t4id(), t4transposer()), 0.5L); }
inline T4 t4IxI() { return otimes(eye(), eye()); }
// symmetrisation on the first / second pair
inline T4 t4lsym(const T4& a) { T4 r; VF_FOR4 r.v[i][j][k][l] = 0.5L * (a.v[i][j][k][l] + a.v[j][i][k][l]); return r; }
inline T4 t4rsym(const T4& a) { T4 r; VF_FOR4 r.v[i][j][k][l] = 0.5L * (a.v[i][j][k][l] + a.v[i][j][l][k]); return r; }
// C'_{ijkl} = P_{im} P_{jn} P_{kp} P_{lq} C_{mnpq}   (done one index at a time)
inline T4 t4apply(const T4& c, const M3& P) {
  T4 a = t4zero(), b = t4zero();
  VF_FOR4 for (int m = 0; m < 3; ++m) a.v[i][j][k][l] += P[i][m] * c.v[m][j][k][l];
  VF_FOR4 for (int m = 0; m < 3; ++m) b.v[i][j][k][l] += P[j][m] * a.v[i][m][k][l];
  a = t4zero();
  VF_FOR4 for (int m = 0; m < 3; ++m) a.v[i][j][k][l] += P[k][m] * b.v[i][j][m][l];
  b = t4zero();
  VF_FOR4 for (int m = 0; m < 3; ++m) b.v[i][j][k][l] += P[l][m] * a.v[i][j][k][m];
  return b;
}
// change of basis consistent with the second-order one (a' = r^T a r):  C'_{ijkl} = r_{mi} r_{nj} r_{pk} r_{ql} C_{mnpq}
inline T4 t4rotate(const T4& c, const M3& r) { return t4apply(c, tr(r)); }
// push forward (documented in st2tost2.hxx): Ct_{ijkl} = F_{im} F_{jn} F_{kp} F_{lq} C_{mnpq}
inline T4 t4push(const T4& c, const M3& F) { return t4apply(c, F); }
// sum over all entries of |a_{ijmn}| |b_{mnkl}| style bound is replaced by norms: |A:B| <= |A||B|
inline L t4maxabs(const T4& a) { L s = 0; const L* p = &a.v[0][0][0][0]; for (int i = 0; i < 81; ++i) s = std::max(s, std::fabs(p[i])); return s; }
// d(A.B)/dA (B fixed): D_{ijkl} = d_ik B_lj ;  d(A.B)/dB (A fixed): D_{ijkl} = A_ik d_jl
inline T4 t4_dprod_left(const M3& B) { T4 r; VF_FOR4 r.v[i][j][k][l] = (i == k ? B[l][j] : 0); return r; }
inline T4 t4_dprod_right(const M3& A) { T4 r; VF_FOR4 r.v[i][j][k][l] = (j == l ? A[i][k] : 0); return r; }

// ---- Gauss-Jordan inverse with full pivoting (long double), n <= 9.  Returns false if singular.
inline bool gj_inverse(int n, const L* a, L* inv) {
  L m[9][18];
  for (int i = 0; i < n; ++i) for (int j = 0; j < n; ++j) { m[i][j] = a[i * n + j]; m[i][n + j] = (i == j) ? 1 : 0; }
  int colperm[9];
  for (int i = 0; i < n; ++i) colperm[i] = i;
  for (int c = 0; c < n; ++c) {
    int pi = c, pj = c; L best = 0;
    for (int i = c; i < n; ++i) for (int j = c; j < n; ++j) if (std::fabs(m[i][j]) > best) { best = std::fabs(m[i][j]); pi = i; pj = j; }
    if (best == 0) return false;
    if (pi != c) for (int j = 0; j < 2 * n; ++j) std::swap(m[pi][j], m[c][j]);
    if (pj != c) { for (int i = 0; i < n; ++i) std::swap(m[i][pj], m[i][c]); std::swap(colperm[pj], colperm[c]); }
    L p = m[c][c];
    for (int j = 0; j < 2 * n; ++j) m[c][j] /= p;
    for (int i = 0; i < n; ++i) if (i != c) { L f = m[i][c]; if (f != 0) for (int j = 0; j < 2 * n; ++j) m[i][j] -= f * m[c][j]; }
  }
  // undo the column permutation: row c of the reduced system gives unknown colperm[c]
  for (int c = 0; c < n; ++c) for (int j = 0; j < n; ++j) inv[colperm[c] * n + j] = m[c][n + j];
  return true;
}

// ---- case generators ---------------------------------------------------------------------
// strata shared by the second-order generators
enum { ST_RANDOM = 0, ST_SINGLE = 1, ST_SCALED = 2, ST_MIXED = 3, ST_NSTRATA = 4 };
static const char* const STRATA4[] = {"random", "single", "scaled", "mixedscale"};

// fill n values according to a stratum; kmax = largest decimal exponent of the 'scaled' stratum
inline void gen_values(vf::Rng& g, int st, int n, L* v, double kmax) {
  switch (st) {
    case ST_RANDOM: for (int i = 0; i < n; ++i) v[i] = g.uni(-1, 1); break;
    case ST_SINGLE: { for (int i = 0; i < n; ++i) v[i] = 0; v[g.irange(0, n - 1)] = g.uni(0.25, 2) * g.sign(); break; }
    case ST_SCALED: { L s = g.logmag(-kmax, kmax); for (int i = 0; i < n; ++i) v[i] = s * g.uni(-1, 1); break; }
    default: for (int i = 0; i < n; ++i) v[i] = g.sign() * g.logmag(-3, 3);
  }
}
// general 3x3 matrix representable in dimension N
inline M3 gen_gen(vf::Rng& g, int N, int st, double kmax) {
  L v[9]; gen_values(g, st, tsize(N), v, kmax);
  M3 m = zero();
  for (int k = 0; k < tsize(N); ++k) m[TI[k]][TJ[k]] = v[k];
  return m;
}
inline M3 gen_sym4(vf::Rng& g, int N, int st, double kmax) {
  L v[6]; gen_values(g, st, ssize(N), v, kmax);
  M3 m = zero();
  for (int k = 0; k < ssize(N); ++k) { m[SI[k]][SJ[k]] = v[k]; m[SJ[k]][SI[k]] = v[k]; }
  return m;
}

template <typename T> struct EpsOf { static constexpr L v = std::numeric_limits<T>::epsilon(); };
template <typename T> struct KmaxOf { static constexpr double v = 12; };
template <> struct KmaxOf<float> { static constexpr double v = 5; };

}  // namespace ref
#endif
