"""C06 — closed-form derivative helpers are true derivatives (Richardson finite differences in long double)."""
import vfcore

META = {
    "engine": "math", "level": "exploration", "design_ref": "DESIGN.md §4.1 C06",
    "technique": "ASan+UBSan+assert harnesses calling every listed derivative helper; the result, applied to every basis "
                 "direction and two random ones, is compared with Richardson-extrapolated central differences (h, h/2, h/4) "
                 "of the differentiated function evaluated in long double",
    "text": "For N=1,2,3 and float/double, at random / single-component / scaled / mixed-scale points (deformation gradients "
            "with det>0: mild stretches, identity, rotations by pi, scaled, diagonal, sheared), each helper of the explicit "
            "list below is evaluated and its directional derivatives are judged against a converged long-double finite "
            "difference of the function it claims to differentiate: |analytic - FD| <= 50 x (FD error estimate) + K eps "
            "scale. Helpers that convert a derivative (chain rule) are tested on an explicit affine stress path whose slope "
            "is the tensor handed to them. Directions whose three FD estimates do not converge are skipped and counted. "
            "Held on the cases executed; helpers not in the list are not covered.",
    "note": "Trusted: harness/math/fd.hxx (Richardson differences, long double), the index-notation functions of "
            "harness/ref.hxx / ref4.hxx, g++, sanitizer runtimes. For J2O/J3O the differentiated function is the library's own "
            "computeJ2O/computeJ3O instantiated in long double (their documented closed form carries typos). Eigen-tensor "
            "derivatives receive the spectral decomposition of the reference Jacobi (the eigen-solvers belong to C03) and are "
            "only judged for separated eigenvalues (gap >= 3% of the spread). Violation keys are <helper><N,T>:<stratum>.",
}

H = vfcore.VERIF / "harness/math"
PARTS = {"c06a": (H / "c06a.cxx", ("TFELMath", "TFELException")),
         "c06b": (H / "c06b.cxx", ("TFELMath", "TFELException")),
         "c06c": (H / "c06c.cxx", ("TFELMaterial", "TFELMath", "TFELException"))}

A_APIS = ["computeDeterminantDerivative(stensor)", "computeDeterminantSecondDerivative(stensor)",
          "computeDeterminantDerivative(tensor)", "computeDeterminantSecondDerivative(tensor)",
          "computeDeviatorDeterminantDerivative", "computeDeviatorDeterminantSecondDerivative",
          "st2tost2::dsquare(s)", "st2tost2::dsquare(s,C)", "st2tost2::stpd=d(symmetric_product)/da",
          "st2tost2::stpd=d(a.b+b.a)/da[doxygen]", "symmetric_product_derivative_daba_da",
          "symmetric_product_derivative_daba_db", "t2tot2::tpld(B)", "t2tot2::tprd(A)", "t2tot2::tpld(B,C)", "t2tot2::tprd(A,C)",
          "st2tot2::tpld(b)", "st2tot2::tprd(a)", "st2tot2::tpld(b,C)", "st2tot2::tprd(a,C)", "t2tot2::transpose_derivative",
          "stensor::computeEigenValuesDerivatives:n0", "stensor::computeEigenValuesDerivatives:n1",
          "stensor::computeEigenValuesDerivatives:n2", "stensor::computeEigenTensors",
          "stensor::computeEigenTensorsDerivatives:dn0", "stensor::computeEigenTensorsDerivatives:dn1",
          "stensor::computeEigenTensorsDerivatives:dn2"]
B_APIS = ["t2tost2::dCdF", "t2tost2::dBdF", "convertCauchyStressDerivativeToFirstPiolaKirchoffStressDerivative",
          "convertSecondPiolaKirchhoffStressDerivativeToFirstPiolaKirchoffStressDerivative",
          "convertFirstPiolaKirchoffStressDerivativeToKirchhoffStressDerivative",
          "computeCauchyStressDerivativeFromKirchhoffStressDerivative",
          "computeKirchhoffStressDerivativeFromCauchyStressDerivative", "computePushForwardDerivative(dS_dF,S,F)",
          "computePushForwardDerivativeWithRespectToDeformationGradient", "computePushForwardDerivative(st2tost2&,F)",
          "computeVelocityGradientDerivative", "computeSpinRateDerivative", "computeRateOfDeformationDerivative"]
C_APIS = ["computeJ2ODerivative", "computeJ2OSecondDerivative", "computeJ3ODerivative", "computeJ3OSecondDerivative",
          "computeJ3Derivative", "computeJ3SecondDerivative"]


def build(ctx):
    jobs = [(n, "asan") for n in PARTS]
    if ctx.thorough:
        jobs += [(n, "O2") for n in PARTS]
    out = vfcore.pmap(lambda j: vfcore.compile_cxx(j[0], [PARTS[j[0]][0]], j[1], libs=PARTS[j[0]][1]), jobs, workers=3)
    return {j: b for j, b in zip(jobs, out)}


def req(apis, mn):
    return [("%s<%d,%s>" % (a, n, t), None, mn) for a in apis for n in (1, 2, 3) for t in ("double", "float")]


def run(ctx):
    bins = build(ctx)
    ctx.cov["rule"] = ("case = (N, scalar type, stratum, point and auxiliary tensors rounded to the scalar type) drawn from "
                       "(VERIF_SEED, index); every helper is judged along all basis directions of its argument + 2 random "
                       "ones (one event per helper and case: the worst direction); distinct = distinct hash of the rounded "
                       "inputs per (helper<N,T>, stratum); non-trivial = every case (points are never zero)")
    if ctx.replay:
        return replay(ctx, bins)
    mn = ctx.n(15, 300)
    ctx.run_events(bins[("c06a", "asan")], ctx.n(9600, 480000), timeout=3000, require=req(A_APIS, mn))
    ctx.run_events(bins[("c06b", "asan")], ctx.n(7200, 360000), timeout=3000, require=req(B_APIS, mn))
    ctx.run_events(bins[("c06c", "asan")], ctx.n(4800, 240000), timeout=3000, require=req(C_APIS, mn))
    if ctx.thorough:
        ctx.run_events(bins[("c06a", "O2")], 480000, timeout=3000, require=[])
        ctx.run_events(bins[("c06b", "O2")], 360000, timeout=3000, require=[])
        ctx.run_events(bins[("c06c", "O2")], 240000, timeout=3000, require=[])
    ctx.assumptions += [
        "helpers covered: " + ", ".join(A_APIS + B_APIS + C_APIS),
        "helpers named by DESIGN.md C06 that do not exist in this tree: a dedicated Green-Lagrange strain derivative "
        "(only t2tost2::dCdF exists; dE/dF = dCdF/2), 'TensorProduct{Left,Right}DerivativeExpr' are reached through "
        "t2tot2::tpld/tprd and 'StensorProduct{Left,Right}DerivativeExpr' through st2tot2::tpld/tprd",
        "a helper added to the library later is not covered until it is listed in harness/math/c06*.cxx",
        "st2tost2::stpd: docs/web/tensors.md (derivative of symmetric_product(a,b)=(a.b+b.a)/2 w.r.t. a) is the oracle; the "
        "doxygen reading (derivative of a.b+b.a) is evaluated too, under its own API name, and is informative",
        "computeDeterminantSecondDerivative(tensor) is read as the derivative of computeDeterminantDerivative(tensor), i.e. "
        "of det(a) a^-T (docs/web/tensors.md, 'Second derivatives of the invariants of a tensor')",
        "computeVelocityGradientDerivative / computeSpinRateDerivative / computeRateOfDeformationDerivative are read as the "
        "linear maps dF -> dF.F^-1, its skew and symmetric parts (the latter documented in t2tost2.hxx)",
        "J2O/J3O with unit coefficients are additionally compared with J2/J3 in long double (Cazacu-Barlat reduction), which "
        "ties the library function used by the oracle to an independent definition",
        "isotropic-function derivatives belong to C05, yield-criterion normals to C22-C24; views and scalar-type mixes are not "
        "exercised; long double helpers are not judged (the reference has the same precision)",
    ]


def replay(ctx, bins):
    c = ctx.replay.get("case") or {}
    e = c.get("event") or {}
    name = str(c.get("harness", "c06a")).rsplit("/", 1)[-1]
    b = bins.get((name, "asan"), bins[("c06a", "asan")])
    r = vfcore.run([b, "--seed", ctx.seed, "--only", e.get("case", 0), "--tier", ctx.tier], timeout=300, cwd=ctx.work)
    summ = {}
    ctx.fold_events(r, summ, where="replay", replay_base=c)
    ctx.merge_summary(summ)
