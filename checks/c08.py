"""C08 — fixed-size non-linear solvers never claim false convergence; Newton converges inside its basin."""
import vfcore

META = {
    "engine": "math", "level": "exploration", "design_ref": "DESIGN.md §4.1 C08",
    "technique": "ASan+UBSan harnesses, one solver class per binary, CRTP children whose computeResidual logs every (x, f, status); "
                 "the monitor compares the solver's final state with the log (bitwise) and re-evaluates the convergence criterion in "
                 "long double; Newton is also required to converge from starts deep inside the Kantorovich ball of a system with "
                 "known Lipschitz data",
    "text": "TinyNewtonRaphson, TinyBroyden, TinyBroyden2, TinyPowellDogLegNewtonRaphson, TinyPowellDogLegBroyden and "
            "TinyLevenbergMarquardt solvers, N=1..8, float/double/long double, default and child-defined checkConvergence, on linear, "
            "quadratic, Rosenbrock-chain, exp/trig, singular-jacobian-at-root and root-free systems, with exact / scaled / zero user "
            "jacobians, exact / perturbed / identity initial Broyden matrices, residuals scheduled to return false / NaN / Inf / NaN "
            "jacobian at call k (or false from call k on), iterMax 0..100, epsilon 1e-15..1e-3, starts from 1e-6 to 1e3 away from "
            "the root. After every solve: iter <= iterMax and no runaway; after every success: the last residual call was made at the "
            "returned unknowns (bitwise), reported success, was finite, is what fzeros holds, and satisfies the criterion. Newton "
            "started within 0.02/(beta*gamma) of the root of a smooth system must return true. Held on the cases executed.",
    "note": "Trusted: the harness systems and their Lipschitz data (||J(x*)^-1||<=2, gamma=2*sqrt(sum c_i^2)), g++ and the sanitizer "
            "runtimes. Non-convergence of the other solvers (e.g. Levenberg-Marquardt on Rosenbrock) is recorded, not judged.",
}

SOLVERS = {
    "c08_nr": "TinyNewtonRaphsonSolver", "c08_broyden": "TinyBroydenSolver", "c08_broyden2": "TinyBroyden2Solver",
    "c08_pdl_nr": "TinyPowellDogLegNewtonRaphsonSolver", "c08_pdl_broyden": "TinyPowellDogLegBroydenSolver",
    "c08_lm": "TinyLevenbergMarquardtSolver",
}
FAMS = ["linear", "quadratic", "rosenbrock", "exptrig", "singular-root", "no-root"]
FAILS = ["clean", "fail@k", "nan@k", "inf@k", "nanjac@k", "fail-from-k"]
ENV = {"ASAN_OPTIONS": vfcore.SAN_ENV["ASAN_OPTIONS"] + ":quarantine_size_mb=16"}


def build(ctx):
    def one(name):
        return name, vfcore.compile_cxx(name, [vfcore.VERIF / ("harness/math/%s.cxx" % name)], "asan")
    return dict(vfcore.pmap(one, SOLVERS, workers=6))


def run(ctx):
    b = build(ctx)
    ctx.cov["rule"] = ("case = (solver, N, scalar type, criterion flavour, system family and coefficients, failure schedule, jacobian "
                       "quality, start, epsilon, iterMax) drawn from (VERIF_SEED, index); distinct = distinct hash of those inputs per "
                       "(API, stratum); non-trivial = every solve (iterMax=0 cases only exercise the counter)")
    n = ctx.n(60000, 1500000)
    for name, solver in SOLVERS.items():
        req = [(solver + "/iter", "%s/%s" % (f, m), 20) for f in FAMS for m in FAILS]
        req += [(solver + "/success-sound", "%s/%s" % (f, m), 5) for f in FAMS[:2] for m in FAILS]
        req += [(solver + "/success-sound", "basin-linear/clean", 50), (solver + "/success-sound", "basin-quadratic/clean", 50)]
        if name == "c08_nr":
            req += [(solver + "/newton-basin", "basin-linear/clean", 100), (solver + "/newton-basin", "basin-quadratic/clean", 100)]
        ctx.run_events(b[name], n, require=req, env=ENV)
    cnt = ctx.cov.get("counters", {})
    for solver in SOLVERS.values():
        for what in ("success", "failure"):
            k = "note:%s:%s" % (what, solver)
            ctx.require(cnt.get(k, 0) >= 100, "outcome %s observed %d < 100 times" % (k, cnt.get(k, 0)))
    ctx.assumptions += [
        "the convergence criterion of the default child is norm(fzeros) < epsilon (TinyNonLinearSolverBase::checkConvergence); "
        "children overriding checkConvergence are judged on their own answer",
        "a throwing computeResidual is used only as a runaway guard (more than 2*iterMax+20 evaluations)",
        "bounded progress is demanded of TinyNewtonRaphsonSolver only (exact jacobian, epsilon >= 30x the rounding level of the residual)",
    ]
