// c07_ref.hxx — private helpers of the C07 harnesses: long-double dense reference algebra
// (full-pivot Gauss-Jordan, norms), matrix families, verdict helpers.  Independent of TFEL.
#ifndef VERIF_C07_REF_HXX
#define VERIF_C07_REF_HXX
#include <algorithm>
#include <exception>
#include <numeric>
#include "vfh.hxx"

namespace c07 {
using L = long double;

struct Mat {
  int n = 0, m = 0;
  std::vector<L> a;
  Mat() = default;
  Mat(int n_, int m_) : n(n_), m(m_), a(size_t(n_) * m_, 0.0L) {}
  L& operator()(int i, int j) { return a[size_t(i) * m + j]; }
  L operator()(int i, int j) const { return a[size_t(i) * m + j]; }
};
inline L fro(const Mat& A) { L s = 0; for (L v : A.a) s += v * v; return std::sqrt(s); }
inline Mat mul(const Mat& A, const Mat& B) {
  Mat C(A.n, B.m);
  for (int i = 0; i < A.n; ++i) for (int k = 0; k < A.m; ++k) { const L v = A(i, k); if (v == 0) continue; for (int j = 0; j < B.m; ++j) C(i, j) += v * B(k, j); }
  return C;
}
inline Mat transpose(const Mat& A) { Mat C(A.m, A.n); for (int i = 0; i < A.n; ++i) for (int j = 0; j < A.m; ++j) C(j, i) = A(i, j); return C; }

// Gauss-Jordan elimination with FULL pivoting in long double.  Returns false (and sets
// zero_pivot) when the largest remaining entry is exactly zero; otherwise inv = A^-1.
inline bool invert_fp(const Mat& A, Mat& inv, bool& zero_pivot) {
  const int n = A.n;
  Mat w(n, 2 * n);
  for (int i = 0; i < n; ++i) { for (int j = 0; j < n; ++j) w(i, j) = A(i, j); w(i, n + i) = 1; }
  std::vector<int> colperm(n); std::iota(colperm.begin(), colperm.end(), 0);
  zero_pivot = false;
  for (int k = 0; k < n; ++k) {
    int pi = k, pj = k; L best = -1;
    for (int i = k; i < n; ++i) for (int j = k; j < n; ++j) if (std::fabs(w(i, j)) > best) { best = std::fabs(w(i, j)); pi = i; pj = j; }
    if (!(best > 0)) { zero_pivot = (best == 0); return false; }
    if (pi != k) for (int j = 0; j < 2 * n; ++j) std::swap(w(k, j), w(pi, j));
    if (pj != k) { for (int i = 0; i < n; ++i) std::swap(w(i, k), w(i, pj)); std::swap(colperm[k], colperm[pj]); }
    const L piv = w(k, k);
    for (int j = 0; j < 2 * n; ++j) w(k, j) /= piv;
    w(k, k) = 1;
    for (int i = 0; i < n; ++i) {
      if (i == k) continue;
      const L f = w(i, k);
      if (f == 0) continue;
      for (int j = 0; j < 2 * n; ++j) w(i, j) -= f * w(k, j);
      w(i, k) = 0;
    }
  }
  // columns were permuted: x_perm = w_right, x[colperm[k]] = x_perm[k]
  inv = Mat(n, n);
  for (int k = 0; k < n; ++k) for (int j = 0; j < n; ++j) inv(colperm[k], j) = w(k, n + j);
  return true;
}

// random orthogonal matrix (modified Gram-Schmidt applied twice to a Gaussian matrix)
inline Mat random_orthogonal(vf::Rng& g, int n) {
  Mat Q(n, n);
  for (;;) {
    for (L& v : Q.a) v = g.normal();
    bool ok = true;
    for (int pass = 0; pass < 2 && ok; ++pass)
      for (int j = 0; j < n && ok; ++j) {
        for (int k = 0; k < j; ++k) { L d = 0; for (int i = 0; i < n; ++i) d += Q(i, j) * Q(i, k); for (int i = 0; i < n; ++i) Q(i, j) -= d * Q(i, k); }
        L s = 0; for (int i = 0; i < n; ++i) s += Q(i, j) * Q(i, j);
        s = std::sqrt(s);
        if (!(s > 1e-6L)) { ok = false; break; }
        for (int i = 0; i < n; ++i) Q(i, j) /= s;
      }
    if (ok) return Q;
  }
}

enum Stratum { WELL, GRADED, PIVOT0, PIVOT_THRESH, PERM, TRIANG, SCALED, ROWSCALED, TU_NONSING,
               S_ZERO_ROW, S_ZERO_COL, S_ZERO, S_DUP_TU, S_RANK1, S_INCIDENCE, NSTRATA };
static const char* SNAME[NSTRATA] = {"wellcond", "graded", "pivot-zero", "pivot-threshold", "permutation", "triangular", "scaled",
                                     "rowscaled", "unimodular", "sing-zero-row", "sing-zero-col", "sing-zero-matrix",
                                     "sing-dup-row", "sing-rank1-pow2", "sing-incidence"};
inline bool is_singular(int st) { return st >= S_ZERO_ROW; }

inline L p2(vf::Rng& g, int kmin, int kmax) { return std::ldexp(1.0L, g.irange(kmin, kmax)); }

// rows with consecutive ones (interval matrix): totally unimodular, hence Gaussian elimination in any
// pivot order only meets entries in {-1,0,1} (times the power-of-two scalings applied afterwards)
inline Mat interval_matrix(vf::Rng& g, int n) {
  Mat A(n, n);
  for (int i = 0; i < n; ++i) { int a = g.irange(0, n - 1), b = g.irange(0, n - 1); if (a > b) std::swap(a, b); for (int j = a; j <= b; ++j) A(i, j) = 1; }
  return A;
}
inline void pow2_scale_and_permute(vf::Rng& g, Mat& A) {
  const int n = A.n;
  std::vector<int> cp(n); std::iota(cp.begin(), cp.end(), 0);
  for (int i = n - 1; i > 0; --i) std::swap(cp[i], cp[g.irange(0, i)]);
  Mat B(n, n);
  std::vector<L> rs(n), cs(n);
  for (int i = 0; i < n; ++i) { rs[i] = g.sign() * p2(g, -4, 4); cs[i] = p2(g, -4, 4); }
  for (int i = 0; i < n; ++i) for (int j = 0; j < n; ++j) B(i, j) = rs[i] * cs[j] * A(i, cp[j]);
  A = B;
}

// Generate the matrix of a case (long double values; the caller rounds them to T).
// `must_report`: exactly singular AND elimination on it is exact in floating point.
inline Mat gen(vf::Rng& g, int n, int st, double kscale = 12) {
  Mat A(n, n);
  auto fill_uniform = [&](L s) { for (L& v : A.a) v = s * g.uni(-1, 1); };
  if (n == 1 && is_singular(st)) return A;  // the only singular 1x1 matrix
  switch (st) {
    case WELL: fill_uniform(1); for (int i = 0; i < n; ++i) A(i, i) += g.coin() ? 0 : g.sign() * g.uni(0, 2); break;
    case GRADED: {
      const L k = g.uni(0, 12);
      Mat U = random_orthogonal(g, n), V = random_orthogonal(g, n), D(n, n);
      for (int i = 0; i < n; ++i) D(i, i) = std::pow(10.0L, n == 1 ? 0 : -k * i / (n - 1));
      A = mul(mul(U, D), transpose(V));
      break;
    }
    case PIVOT0: {
      fill_uniform(1);
      A(0, 0) = g.coin() ? 0 : g.sign() * g.logmag(-18, -6);
      if (n > 2 && g.coin()) { for (int i = 0; i < n - 1; ++i) A(i, 0) = 0; }  // only the last row has a leading entry
      if (n > 2 && g.coin()) A(1, 1) = 0;
      break;
    }
    case PIVOT_THRESH: {
      fill_uniform(1);
      L cmax = 0; for (int i = 1; i < n; ++i) cmax = std::max(cmax, std::fabs(A(i, 0)));
      static const L DELTA[] = {0, 1e-16L, -1e-16L, 1e-7L, -1e-7L, 1e-3L, -1e-3L, 0.3L, -0.3L};
      if (n > 1) A(0, 0) = g.sign() * 0.1L * cmax * (1 + DELTA[g.irange(0, 8)]);
      break;
    }
    case PERM: {
      std::vector<int> p(n); std::iota(p.begin(), p.end(), 0);
      for (int i = n - 1; i > 0; --i) std::swap(p[i], p[g.irange(0, i)]);
      for (int i = 0; i < n; ++i) A(i, p[i]) = g.sign() * p2(g, -6, 6);
      break;
    }
    case TRIANG: {
      const bool lower = g.coin();
      for (int i = 0; i < n; ++i) for (int j = 0; j < n; ++j) {
        if (i == j) A(i, j) = g.sign() * g.uni(0.5, 2);
        else if ((i > j) == lower) A(i, j) = g.uni(-1, 1);
      }
      break;
    }
    case SCALED: fill_uniform(g.logmag(-kscale, kscale)); break;
    case ROWSCALED: fill_uniform(1); for (int i = 0; i < n; ++i) { const L s = g.logmag(-4, 4); for (int j = 0; j < n; ++j) A(i, j) *= s; } break;
    case TU_NONSING: {  // unit lower bidiagonal-like interval matrix: rows [i-k, i] => lower triangular with unit diagonal, det = 1
      for (int i = 0; i < n; ++i) { const int a = g.irange(0, i); for (int j = a; j <= i; ++j) A(i, j) = 1; }
      pow2_scale_and_permute(g, A);
      break;
    }
    case S_ZERO_ROW: { fill_uniform(g.coin() ? 1 : g.logmag(-6, 6)); const int r = g.irange(0, n - 1); for (int j = 0; j < n; ++j) A(r, j) = 0; break; }
    case S_ZERO_COL: { fill_uniform(g.coin() ? 1 : g.logmag(-6, 6)); const int c = g.irange(0, n - 1); for (int i = 0; i < n; ++i) A(i, c) = 0; break; }
    case S_ZERO: break;
    case S_DUP_TU: {
      A = interval_matrix(g, n);
      int r1 = g.irange(0, n - 1), r2; do { r2 = g.irange(0, n - 1); } while (r2 == r1);
      for (int j = 0; j < n; ++j) A(r2, j) = A(r1, j);
      pow2_scale_and_permute(g, A);
      break;
    }
    case S_RANK1: {
      std::vector<L> u(n), v(n);
      for (int i = 0; i < n; ++i) { u[i] = g.sign() * p2(g, -5, 5); v[i] = g.sign() * p2(g, -5, 5); }
      for (int i = 0; i < n; ++i) for (int j = 0; j < n; ++j) A(i, j) = u[i] * v[j];
      break;
    }
    default: {  // S_INCIDENCE: every column has one +1 and one -1: the rows sum to zero
      for (int j = 0; j < n; ++j) { int r1 = g.irange(0, n - 1), r2; do { r2 = g.irange(0, n - 1); } while (r2 == r1); A(r1, j) = 1; A(r2, j) = -1; }
      pow2_scale_and_permute(g, A);
    }
  }
  return A;
}

// safety factor of the residual bound  ||A x - b|| <= K(n) eps kappa_F ||A||_F ||x||
// calibrated on 5 seeds of the thorough tier: the worst observed ||Ax-b|| / (eps kappa_F ||A||_F ||x||) is ~20
// (n = 2, 3 in the pivot-threshold stratum: no row exchange with a multiplier close to 10), ~3 elsewhere
inline L Kres(int n) { return 1600.0L + 40.0L * n; }

struct Ref {
  Mat A, Ainv;
  bool invertible = false, exact_zero_pivot = false;
  L nA = 0, kappa = INFINITY;
};
inline Ref analyse(const Mat& A) {
  Ref r; r.A = A; r.nA = fro(A);
  r.invertible = invert_fp(A, r.Ainv, r.exact_zero_pivot);
  if (r.invertible) r.kappa = r.nA * fro(r.Ainv);
  if (!std::isfinite((double)r.kappa)) r.invertible = false;
  return r;
}
// residual norm of A x - b and norm of x (x, b as long double vectors)
inline L residual(const Mat& A, const std::vector<L>& x, const std::vector<L>& b, L& nx) {
  L s = 0; nx = 0;
  for (int i = 0; i < A.n; ++i) { L r = -b[i]; for (int j = 0; j < A.n; ++j) r += A(i, j) * x[j]; s += r * r; }
  for (L v : x) nx += v * v;
  nx = std::sqrt(nx);
  return std::sqrt(s);
}

inline std::string dump_case(const char* tname, int n, const Mat& A, const std::vector<L>& b, const std::vector<L>& x, const char* outcome, L kappa) {
  vf::J j;
  j.s("T", tname).i("n", n).s("outcome", outcome).d("kappa_F", kappa).arr("A_rowmajor", A.a.begin(), A.a.end()).arr("b", b.begin(), b.end()).arr("x", x.begin(), x.end());
  return j.str();
}
// ---------------------------------------------------------------------------------------------
// case construction and verdicts shared by c07_dyn.cxx and c07_tiny.cxx (each is its own binary)
static vf::Reporter R;
static const int NRHS = 3;

template <typename T>
struct Case {
  int n = 0, st = 0;
  const char* S = "";
  const char* tname = "";
  char sbuf[64];
  uint64_t idx = 0, h = 0;
  Mat A;                          // T-rounded values
  std::vector<std::vector<L>> B;  // NRHS right-hand sides, T-rounded
  Ref ref;
  bool must_report = false, judged = false;
  L eps = 0;
};

// case index -> (stratum, scalar type by the caller, n): idx % NSTRATA, (idx / NSTRATA) % 3, (idx / (3 NSTRATA)) % 12
template <typename T>
inline void make_case(Case<T>& c, const vf::Args& a, uint64_t idx, const char* tname) {
  c.idx = idx; c.tname = tname;
  c.st = int(idx % NSTRATA);
  c.n = 1 + int((idx / (3 * NSTRATA)) % 12);
  c.S = SNAME[c.st];
  if (a.get("--byn") == "1") { std::snprintf(c.sbuf, sizeof c.sbuf, "%s/n=%02d", SNAME[c.st], c.n); c.S = c.sbuf; }  // calibration aid
  c.eps = std::numeric_limits<T>::epsilon();
  vf::Rng g(a.seed, 700 + sizeof(T), idx);
  const int n = c.n;
  // float: overall scales 1e+-6 (determinants of the closed forms must stay away from 100*FLT_MIN), else 1e+-12
  Mat A0 = gen(g, n, c.st, sizeof(T) == 4 ? 6 : 12);
  c.A = Mat(n, n);
  std::vector<T> At(size_t(n) * n);
  for (int i = 0; i < n * n; ++i) { At[i] = static_cast<T>(A0.a[i]); c.A.a[i] = L(At[i]); }
  c.h = vf::hash_arr(At.data(), At.size(), uint64_t(n));
  L amax = 0; for (L v : c.A.a) amax = std::max(amax, std::fabs(v));
  if (amax == 0) amax = 1;
  c.B.assign(NRHS, std::vector<L>(n));
  std::vector<L> x0(n); for (L& v : x0) v = g.uni(-1, 1);
  const int ek = g.irange(0, n - 1);
  for (int i = 0; i < n; ++i) {
    L s = 0; for (int j = 0; j < n; ++j) s += c.A(i, j) * x0[j];
    c.B[0][i] = L(static_cast<T>(amax * g.uni(-1, 1)));   // generic
    c.B[1][i] = L(static_cast<T>(s));                      // consistent with a solution of norm O(1)
    c.B[2][i] = L(static_cast<T>((i == ek) ? amax : 0));   // a unit vector
  }
  c.ref = analyse(c.A);
  // conditioning-defined stratum: whatever the generator, a nonsingular matrix with kappa_F >= 500 is filed under
  // "illcond", so that a finding that depends on conditioning has one key (not one per generator that can reach it)
  if (!is_singular(c.st) && c.ref.invertible && c.ref.kappa >= 500.0L) {
    c.S = "illcond";
    if (a.get("--byn") == "1") { std::snprintf(c.sbuf, sizeof c.sbuf, "illcond/n=%02d", c.n); c.S = c.sbuf; }
  }
  c.must_report = is_singular(c.st) && !c.ref.invertible && c.ref.exact_zero_pivot;
  c.judged = !is_singular(c.st) && c.ref.invertible && c.ref.kappa * c.eps <= 1e-2L;
}

// outcome of one solve: either a solution or a report
struct Out { bool reported = false; std::string how; std::vector<L> x; };

template <typename F>
inline Out guarded(F&& f) {
  Out o;
  try { f(o); }
  catch (const std::exception& e) { o.reported = true; o.how = std::string("exception: ") + e.what(); }
  catch (...) { o.reported = true; o.how = "unknown exception"; }
  return o;
}

template <typename T>
inline void judge(const Case<T>& c, const char* api, int rhs, const Out& o, bool exact_for_this_api = true) {
  auto dump = [&] { return dump_case(c.tname, c.n, c.A, c.B[rhs], o.x, o.reported ? o.how.c_str() : "solved", c.ref.kappa); };
  if (is_singular(c.st)) {
    if (c.must_report && exact_for_this_api) R.expect(api, c.S, c.idx, c.h, o.reported, dump, "exactly singular system must be reported (exception or false), not solved");
    else R.skip(api, c.S);
    return;
  }
  if (!c.judged) { R.skip(api, c.S); return; }
  if (o.reported) { R.check(api, c.S, c.idx, c.h, INFINITY, 1, dump, "nonsingular, well-conditioned system reported as singular"); return; }
  L nx; const L r = residual(c.A, o.x, c.B[rhs], nx);
  R.check(api, c.S, c.idx, c.h, r, Kres(c.n) * c.eps * c.ref.kappa * c.ref.nA * nx, dump, "residual ||Ax-b|| vs K eps kappa_F ||A||_F ||x||");
}
}  // namespace c07
#endif
