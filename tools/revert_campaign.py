#!/usr/bin/env python3
"""revert_campaign.py [commit...] — sensitivity run on *real* defects: for every `fixed` entry of known_findings.json the
fix commit is reverse-applied to /repo's working tree (never committed), `./vf check <property>` (quick, seed 0) is run, and
the tree is restored straight afterwards (git -C /repo checkout -- .).  The check must exit 1 with a key of the entry.
Result: seeded/reverted_fixes.json (one record per commit).  Holds build/.repo.lock while /repo is modified (shared with
tools/try_seed.sh).  Not a registered check: it only measures whether the registered checks see these 52 defects."""
import fcntl
import fnmatch
import json
import os
import re
import subprocess
import sys
import time

V = os.path.dirname(os.path.dirname(os.path.abspath(__file__)))
OUT = V + "/seeded/reverted_fixes.json"


# checks whose harness instantiates the header templates itself (the linked libraries only provide exceptions / helpers)
HEADER_ONLY_CHECKS = {"C%02d" % i for i in list(range(1, 13)) + [15, 16, 17, 18, 20, 21, 22, 23, 24, 25, 26, 27, 28]}


def sh(cmd, **kw):
    return subprocess.run(cmd, capture_output=True, text=True, **kw)


def main():
    f = json.load(open(V + "/known_findings.json"))["findings"]
    todo = {}
    for x in f:
        if x["status"] == "fixed":
            todo.setdefault(x["commit"], []).append(x)
    only = sys.argv[1:]
    res = json.load(open(OUT)) if os.path.exists(OUT) else {}
    lock = open(V + "/build/.repo.lock", "w")
    for c, entries in todo.items():
        if only and c not in only:
            continue
        if not only and c in res and res[c].get("rc") is not None:
            continue
        props = sorted({e["property"] for e in entries})
        subj = sh(["git", "-C", "/repo", "log", "-1", "--format=%s", c]).stdout.strip()
        patch = sh(["git", "-C", "/repo", "show", "--format=", c]).stdout
        rec = {"commit": c, "subject": subj, "properties": props, "runs": {}}
        fcntl.flock(lock, fcntl.LOCK_EX)
        try:
            if sh(["git", "-C", "/repo", "status", "--porcelain", "--untracked-files=no"]).stdout.strip():
                print("REPO DIRTY, stopping")
                return 2
            r = subprocess.run(["git", "-C", "/repo", "apply", "-R", "-"], input=patch, capture_output=True, text=True)
            if r.returncode:
                rec["rc"] = None
                rec["note"] = "reverse patch does not apply on HEAD (later commit touches the same lines): " + r.stderr.strip()[:200]
                res[c] = rec
                print(c, props, "CONFLICT")
                continue
            try:
                worst = 0
                files = re.findall(r"^diff --git a/(\S+)", patch, re.M)
                hdr_only = all(f_.startswith("include/TFEL/") for f_ in files)
                for p in props:
                    t0 = time.time()
                    env = dict(os.environ, VERIF_SEED="0")
                    if hdr_only and p in HEADER_ONLY_CHECKS:
                        env["VF_DEBUG_SKIP_TREE_REBUILD"] = "1"  # the harness compiles the header itself
                    o = sh([V + "/vf", "check", p, "--tier", "quick"], cwd=V, env=env)
                    if o.returncode != 1 and "VF_DEBUG_SKIP_TREE_REBUILD" in env:  # a miss is only believed from a full run
                        env.pop("VF_DEBUG_SKIP_TREE_REBUILD")
                        o = sh([V + "/vf", "check", p, "--tier", "quick"], cwd=V, env=env)
                    keys = sorted(set(re.findall(r"^\s*key=(\S.*)$", o.stdout, re.M)))
                    pats = [k.strip() for e in entries if e["property"] == p for k in e["key"].split(",")]
                    hit = [k for k in keys if any(fnmatch.fnmatch(k, q) for q in pats)]
                    rec["runs"][p] = {"rc": o.returncode, "distinct_keys": len(keys), "keys_matching_entry": hit[:6], "other_keys": [k for k in keys if k not in hit][:6],
                                      "wall_s": round(time.time() - t0), "tree_rebuild_skipped": "VF_DEBUG_SKIP_TREE_REBUILD" in env, "tail": o.stdout[-300:] if o.returncode != 1 else ""}
                    worst = max(worst, 1 if o.returncode == 1 else 0)
                    print(c, p, "rc=%d" % o.returncode, "keys=%d" % len(keys), "matching=%d" % len(hit), "%.0fs" % (time.time() - t0), subj[:70], flush=True)
                rec["rc"] = 1 if worst else 0
                rec["detected"] = bool(worst)
            finally:
                sh(["git", "-C", "/repo", "checkout", "--", "."])
        finally:
            fcntl.flock(lock, fcntl.LOCK_UN)
        res[c] = rec
        json.dump(res, open(OUT, "w"), indent=1)
    json.dump(res, open(OUT, "w"), indent=1)
    det = sum(1 for r in res.values() if r.get("detected"))
    print("reverted fixes: %d run, %d detected, %d missed, %d not applicable" % (len(res), det, sum(1 for r in res.values() if r.get("rc") == 0),
                                                                                 sum(1 for r in res.values() if r.get("rc") is None)))


if __name__ == "__main__":
    sys.exit(main())
