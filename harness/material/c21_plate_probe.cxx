// C21 — compile probe: the PLATE orthotropic axes convention is documented as valid in 3D,
// plane stress, plane strain and generalised plane strain (docs/web/tfel-material.md,
// "Orthotropic axes convention") and mfront emits
// computeOrthotropicStiffnessTensor<h,smt,OrthotropicAxesConvention::PLATE>(...) for
// @OrthotropicBehaviour<Plate>.  This TU only instantiates those calls.
#include <cstdio>
#include "TFEL/Material/StiffnessTensor.hxx"
using namespace tfel::material;
template <ModellingHypothesis::Hypothesis H, StiffnessTensorAlterationCharacteristic S>
static double one() {
  tfel::math::st2tost2<ModellingHypothesisToSpaceDimension<H>::value, double> C;
  computeOrthotropicStiffnessTensor<H, S, OrthotropicAxesConvention::PLATE>(C, 1., 2., 3., 0.1, 0.1, 0.1, 1., 1., 1.);
  return C(0, 0);
}
int main() {
  using MH = ModellingHypothesis;
  using SA = StiffnessTensorAlterationCharacteristic;
  double s = one<MH::TRIDIMENSIONAL, SA::UNALTERED>() + one<MH::PLANESTRESS, SA::ALTERED>() + one<MH::PLANESTRESS, SA::UNALTERED>() +
             one<MH::PLANESTRAIN, SA::UNALTERED>() + one<MH::GENERALISEDPLANESTRAIN, SA::UNALTERED>();
  std::printf("%g\n", s);
  return 0;
}
