"""gbnp.py — numpy side of the generated-behaviour monitors (C41–C44, C55).  Runs under
`python3-vt` (numpy) in a worker process (lib/worker.py started by gbx.call_vt).

Independent reference algebra (3x3 matrices, index notation) + thin ctypes helpers on top of
gen.Behaviour.  Storage conventions of TFEL (docs: tensors.md):
  stensor  1D [xx yy zz]   2D [xx yy zz √2xy]   3D [xx yy zz √2xy √2xz √2yz]
  tensor   1D [xx yy zz]   2D [xx yy zz xy yx]  3D [xx yy zz xy yx xz zx yz zy]
fourth order objects are row-major (rows: components of the thermodynamic force, columns:
components of the gradient), in the same vector conventions.
"""
import ctypes as C
import math

import numpy as np

import gen

SQ2 = math.sqrt(2.0)
EPS = 2.0 ** -52
ST_PAIRS = [(0, 0), (1, 1), (2, 2), (0, 1), (0, 2), (1, 2)]
T_PAIRS = [(0, 0), (1, 1), (2, 2), (0, 1), (1, 0), (0, 2), (2, 0), (1, 2), (2, 1)]
SSIZE = {1: 3, 2: 4, 3: 6}
TSIZE = {1: 3, 2: 5, 3: 9}


# ------------------------------------------------------------------ vectors <-> matrices
def st2m(v):
    """stensor vector (3, 4 or 6 components) -> symmetric 3x3"""
    m = np.zeros((3, 3))
    for k, x in enumerate(v):
        i, j = ST_PAIRS[k]
        if k < 3:
            m[i, i] = x
        else:
            m[i, j] = m[j, i] = x / SQ2
    return m


def m2st(m, dim):
    n = SSIZE[dim]
    v = np.zeros(n)
    for k in range(n):
        i, j = ST_PAIRS[k]
        v[k] = m[i, j] if k < 3 else SQ2 * 0.5 * (m[i, j] + m[j, i])
    return v


def t2m(v):
    """unsymmetric tensor vector (3, 5, 9) -> 3x3"""
    m = np.zeros((3, 3))
    for k, x in enumerate(v):
        i, j = T_PAIRS[k]
        m[i, j] = x
    return m


def m2t(m, dim):
    n = TSIZE[dim]
    return np.array([m[T_PAIRS[k]] for k in range(n)])


def st_basis(dim):
    """list of 3x3 matrices E_k with  sum_k v_k E_k = st2m(v)"""
    out = []
    for k in range(SSIZE[dim]):
        v = np.zeros(SSIZE[dim])
        v[k] = 1.0
        out.append(st2m(v))
    return out


# ------------------------------------------------------------------ isotropic elasticity
def lame(young, nu):
    return young * nu / ((1 + nu) * (1 - 2 * nu)), young / (2 * (1 + nu))


def hooke_m(young, nu, e):
    """sigma = lambda tr(e) I + 2 mu e on 3x3 matrices"""
    la, mu = lame(young, nu)
    return la * np.trace(e) * np.eye(3) + 2 * mu * e


def hooke_inv_m(young, nu, s):
    return ((1 + nu) * s - nu * np.trace(s) * np.eye(3)) / young


def dev(m):
    return m - np.trace(m) / 3.0 * np.eye(3)


def seq_m(s):
    d = dev(s)
    return math.sqrt(1.5 * float(np.sum(d * d)))


def normal_m(s, floor=0.0):
    q = seq_m(s)
    if q <= floor:
        return np.zeros((3, 3)), q
    return 1.5 * dev(s) / q, q


# ------------------------------------------------------------------ rotations
def rand_rotation(g, max_angle=math.pi):
    """random rotation matrix (axis uniform on the sphere, angle uniform in [-max, max])"""
    while True:
        a = np.array([g.gauss(0, 1) for _ in range(3)])
        n = np.linalg.norm(a)
        if n > 1e-3:
            break
    a /= n
    t = g.uniform(-max_angle, max_angle)
    Kx = np.array([[0, -a[2], a[1]], [a[2], 0, -a[0]], [-a[1], a[0], 0]])
    return np.eye(3) + math.sin(t) * Kx + (1 - math.cos(t)) * (Kx @ Kx)


def rot_z(t):
    c, s = math.cos(t), math.sin(t)
    return np.array([[c, -s, 0], [s, c, 0], [0, 0, 1.0]])


# ------------------------------------------------------------------ library description
def _sym(lib, name, ctype):
    return ctype.in_dll(lib, name)


def _strings(lib, base, hyp, what):
    for pre in ("%s_%s_" % (base, hyp), "%s_" % base):
        try:
            n = _sym(lib, pre + "n" + what, C.c_ushort).value
        except ValueError:
            continue
        if n == 0:
            return [], pre
        arr = (C.c_char_p * n).in_dll(lib, pre + what)
        return [a.decode() for a in arr], pre
    raise ValueError("no symbol %s for %s/%s" % (what, base, hyp))


def describe(lib, name, hyp):
    """material properties, internal and external state variables (names, types, sizes) of one
    hypothesis, read from the symbols exported by the generic interface"""
    lib = lib if isinstance(lib, C.CDLL) else gen.load(lib)
    d = gen.HYP_DIM[hyp]
    sizes = {0: 1, 1: SSIZE[d], 2: d, 3: TSIZE[d]}
    mps, _ = _strings(lib, name, hyp, "MaterialProperties")
    isv, pre = _strings(lib, name, hyp, "InternalStateVariables")
    ity = list((C.c_int * len(isv)).in_dll(lib, pre + "InternalStateVariablesTypes")) if isv else []
    esv, pre = _strings(lib, name, hyp, "ExternalStateVariables")
    par, pre = _strings(lib, name, hyp, "Parameters")
    off, isvs = 0, []
    for nme, t in zip(isv, ity):
        isvs.append((nme, t, off, sizes[t]))
        off += sizes[t]
    return {"mps": mps, "isvs": isvs, "nisv": off, "esvs": ["Temperature"] + esv, "params": par, "dim": d}


def hypotheses(lib, name):
    lib = lib if isinstance(lib, C.CDLL) else gen.load(lib)
    n = _sym(lib, name + "_nModellingHypotheses", C.c_ushort).value
    arr = (C.c_char_p * n).in_dll(lib, name + "_ModellingHypotheses")
    return [a.decode() for a in arr]


def set_parameter(lib, name, key, value, hyp=None):
    """<name>[_<hyp>]_setParameter(key, value) -> 1 on success"""
    fn = name + ("_" + hyp if hyp else "") + "_setParameter"
    f = getattr(lib, fn)
    f.restype = C.c_int
    f.argtypes = [C.c_char_p, C.c_double]
    return f(key.encode(), float(value))


def set_parameter_any(lib, name, hyp, key, value):
    """global `<name>_setParameter`, or the per-hypothesis one when parameters are hypothesis specific"""
    for fn in (name + "_setParameter", "%s_%s_setParameter" % (name, hyp)):
        try:
            f = getattr(lib, fn)
        except AttributeError:
            continue
        f.restype = C.c_int
        f.argtypes = [C.c_char_p, C.c_double]
        return f(key.encode(), float(value))
    return 0


def set_ushort_parameter(lib, name, key, value):
    f = getattr(lib, name + "_setUnsignedShortParameter")
    f.restype = C.c_int
    f.argtypes = [C.c_char_p, C.c_ushort]
    return f(key.encode(), int(value))


class B:
    """one (behaviour, hypothesis) entry point with named variables"""

    def __init__(self, libpath, name, hyp, ngrad=None, nthf=None, ktsize=None):
        self.lib = gen.load(libpath) if not isinstance(libpath, C.CDLL) else libpath
        self.name, self.hyp = name, hyp
        self.d = describe(self.lib, name, hyp)
        self.dim = self.d["dim"]
        self.b = gen.Behaviour(self.lib, name, hyp, ngrad=ngrad, nthf=nthf, nmp=len(self.d["mps"]),
                               nisv=self.d["nisv"], nesv=len(self.d["esvs"]), ktsize=ktsize)
        self.ns = SSIZE[self.dim]

    def isv(self, vec, nme):
        for n, t, off, sz in self.d["isvs"]:
            if n == nme:
                return np.array(vec[off:off + sz]) if sz > 1 else float(vec[off])
        raise KeyError(nme)

    def pack_isv(self, **kw):
        v = [0.0] * self.d["nisv"]
        for n, t, off, sz in self.d["isvs"]:
            if n in kw:
                x = kw[n]
                if sz == 1:
                    v[off] = float(x)
                else:
                    for i in range(sz):
                        v[off + i] = float(x[i])
        return v

    def pack_mp(self, **kw):
        return [float(kw[n]) for n in self.d["mps"]]

    def pack_esv(self, **kw):
        return [float(kw.get(n, 293.15 if n == "Temperature" else 0.0)) for n in self.d["esvs"]]

    def call(self, K0, dt, g0, g1, thf0, mp, isv0, esv0, esv1, K_extra=()):
        return self.b.integrate(K0, dt, [float(x) for x in g0], [float(x) for x in g1], [float(x) for x in thf0],
                                mp, isv0, esv0, esv1, K_extra=K_extra)


# ------------------------------------------------------------------ Richardson finite differences
def richardson_jacobian(f, x, h):
    """Central differences of the vector function f at x along every coordinate with steps h_j,
    h_j/2, h_j/4 and two Richardson extrapolations.
    Returns (J, err): J[:, j] the extrapolated derivative (None column when f failed on the stencil),
    err[:, j] = |R1(h/2) - R1(h)|, the error estimate of the less accurate of the two O(h^4) values,
    which bounds the error of the returned O(h^6) value when the function is smooth on the stencil."""
    x = np.asarray(x, float)
    n = len(x)
    J, E = [None] * n, [None] * n
    for j in range(n):
        D = []
        for l in range(3):
            hh = h[j] / (2 ** l)
            xp, xm = x.copy(), x.copy()
            xp[j] += hh
            xm[j] -= hh
            fp, fm = f(xp), f(xm)
            if fp is None or fm is None:
                D = None
                break
            D.append((np.asarray(fp, float) - np.asarray(fm, float)) / (xp[j] - xm[j]))
        if D is None:
            continue
        R1a = (4 * D[1] - D[0]) / 3
        R1b = (4 * D[2] - D[1]) / 3
        J[j] = (16 * R1b - R1a) / 15
        E[j] = np.abs(R1b - R1a)
    return J, E
