"""C33 — unicode mangling is faithful and reversible."""
import vfcore

META = {
    "engine": "text", "level": "exploration", "design_ref": "DESIGN.md §4.2 C33", "exhaustive": True,
    "technique": "dump of the whole character table and of getMangledString results from an ASan+UBSan harness, judged in Python with "
                 "an independent UTF-8 decoder; round trip through the real ASan-built tfel-unicode-filt binary (stdin and argv modes)",
    "text": "For every table entry the mangled name is tfel_unicode_mangling_<hex of the code point decoded independently from the UTF-8 "
            "bytes>, no character or name appears twice and no mangled name is a prefix of another; getMangledString replaces every "
            "supported character (and nothing else) on random ASCII / supported / mixed / mixed-with-other-unicode strings, giving pure "
            "ASCII when the rest is ASCII; tfel-unicode-filt returns the original string for every such input not containing the prefix. "
            "Table part exhaustive; string part sampled.",
    "note": "Trusted: the UTF-8 decoder in this file, Python string replacement. Inputs are valid UTF-8 without newline or NUL; inputs that "
            "contain the mangling prefix are skipped and counted. The hexadecimal suffix is accepted in any case/width as long as it "
            "equals the code point.",
}

SRC = vfcore.VERIF / "harness/text/c33.cxx"
PREFIX = "tfel_unicode_mangling_"


def build(ctx):
    vfcore.ensure_tree("asan")
    return {"asan": vfcore.compile_cxx("c33", [SRC], "asan", libs=("TFELUnicodeSupport",))}


def utf8_decode(b):
    """strict UTF-8 decoder written for this check: list of code points or None"""
    out, i, n = [], 0, len(b)
    while i < n:
        c = b[i]
        if c < 0x80:
            cp, k, lo = c, 0, 0
        elif 0xC2 <= c <= 0xDF:
            cp, k, lo = c & 0x1F, 1, 0x80
        elif 0xE0 <= c <= 0xEF:
            cp, k, lo = c & 0x0F, 2, 0x800
        elif 0xF0 <= c <= 0xF4:
            cp, k, lo = c & 0x07, 3, 0x10000
        else:
            return None
        for j in range(1, k + 1):
            if i + j >= n or (b[i + j] & 0xC0) != 0x80:
                return None
            cp = (cp << 6) | (b[i + j] & 0x3F)
        if cp < lo or cp > 0x10FFFF or 0xD800 <= cp <= 0xDFFF:
            return None
        out.append(cp)
        i += k + 1
    return out


def unhex(h):
    return b"" if h == "-" else bytes.fromhex(h)


def check_table(ctx, binary):
    r = vfcore.run([binary, "--mode", "table"], timeout=120, cwd=ctx.work)
    crash = ctx.classify_crash(r)
    if crash:
        ctx.violation("table:%s" % crash, "%s while dumping the table\n%s" % (crash, r.err[-2000:]), {"harness": str(binary), "extra": ["--mode", "table"]})
        return None
    entries = []
    for line in r.out.splitlines():
        f = line.split()
        if len(f) == 4 and f[0] == "T":
            entries.append((unhex(f[1]), unhex(f[2])))
    ctx.require(len(entries) >= 100, "table dump has only %d entries" % len(entries))
    table = {}      # code point -> mangled name
    seen_uc, seen_m = {}, {}
    for i, (uc, m) in enumerate(entries):
        ctx.add_eval(1)
        ctx.add_distinct(vfcore.sha(uc, m))
        rp = {"entry": i, "uc_hex": uc.hex(), "mangled": m.decode("latin-1")}
        cps = utf8_decode(uc)
        if cps is None or len(cps) != 1 or cps[0] < 0x80:
            ctx.violation("table:not-one-character", "entry %d: %r does not decode to one non-ASCII character (%s)" % (i, uc, cps), rp)
            continue
        cp = cps[0]
        ms = m.decode("latin-1")
        suffix = ms[len(PREFIX):]
        ok = ms.startswith(PREFIX) and suffix != "" and all(ch in "0123456789abcdefABCDEF" for ch in suffix) and int(suffix, 16) == cp
        if not ok:
            ctx.violation("table:mangled-name!=code-point", "entry %d: U+%04X is mangled as %r, expected %s%04X" % (i, cp, ms, PREFIX, cp), rp)
        if any(ord(ch) >= 0x80 or not (ch.isalnum() or ch == "_") for ch in ms):
            ctx.violation("table:mangled-name-not-identifier", "entry %d: mangled name %r is not an ASCII identifier" % (i, ms), rp)
        if uc in seen_uc:
            ctx.violation("table:duplicate-character", "U+%04X appears in entries %d and %d" % (cp, seen_uc[uc], i), rp)
        if ms in seen_m:
            ctx.violation("table:duplicate-mangled-name", "%r appears in entries %d and %d" % (ms, seen_m[ms], i), rp)
        seen_uc[uc] = i
        seen_m[ms] = i
        table[cp] = ms
    names = sorted(seen_m)
    for a, b in zip(names, names[1:]):   # sorted: a proper prefix is immediately followed by an extension
        ctx.add_eval(1)
        if b.startswith(a):
            ctx.violation("table:prefix-clash", "mangled name %r is a prefix of %r: demangling is ambiguous" % (a, b), {"a": a, "b": b})
    ctx.cov["table_entries"] = len(entries)
    ctx.sample({"table_entry": "U+%04X -> %s" % (min(table), table[min(table)])} if table else {})
    return table


def gen_strings(ctx, binary, cases, table):
    """run the generator/mangler harness; judge getMangledString; return (original, mangled) pairs by shard"""
    shards = min(vfcore.NCPU, max(1, cases // 5000))
    per = (cases + shards - 1) // shards
    trans = {cp: m for cp, m in table.items()}

    def one(i):
        cmd = [binary, "--mode", "gen", "--seed", ctx.seed, "--cases", per, "--shard", i, "--nshards", shards]
        return i, cmd, vfcore.run(cmd, timeout=1800, cwd=ctx.work)
    out = []
    strata = {}
    for i, cmd, r in vfcore.pmap(one, range(shards), workers=shards):
        # only stderr is classified: the regular expressions of classify_crash are quadratic on megabytes of hex output
        crash = ctx.classify_crash(vfcore.Result(r.rc, "", r.err, r.timed_out, r.wall))
        if crash:
            import re
            m = re.search(r"@@VFCASE (\S+)", r.err)
            ctx.violation("getMangledString:%s" % crash, "%s in getMangledString (%s)\n%s" % (crash, m.group(1) if m else "?", r.err[-2000:]),
                          {"cmd": [str(c) for c in cmd]})
            continue
        pairs = []
        for line in r.out.splitlines():
            f = line.split(" ")
            if len(f) != 4 or f[0] != "G":
                continue
            st, o, m = f[1], unhex(f[2]), unhex(f[3])
            s = strata.setdefault(st, {"n": 0, "skipped_contains_prefix": 0, "with_supported": 0})
            s["n"] += 1
            ctx.add_eval(1)
            try:
                text = o.decode("utf-8")
            except UnicodeDecodeError:
                ctx.inconc("generator produced invalid UTF-8: %r" % o)
                continue
            expected = text.translate(trans).encode("utf-8")
            if expected != o:
                s["with_supported"] += 1
                ctx.add_distinct(hash(o))
            rp = {"cmd": [str(c) for c in cmd], "original_hex": o.hex(), "original": text, "mangled": m.decode("utf-8", "replace"),
                  "expected": expected.decode("utf-8", "replace"), "replay": "echo %s | %s --mode stdin" % (o.hex() or "-", binary)}
            if m != expected:
                ctx.violation("getMangledString:%s" % st, "getMangledString(%r) = %r, expected %r" % (text, rp["mangled"], rp["expected"]), rp)
            elif st != "mixed+other" and any(c >= 0x80 for c in m):
                ctx.violation("getMangledString:non-ascii-output:%s" % st, "getMangledString(%r) = %r is not ASCII" % (text, rp["mangled"]), rp)
            if PREFIX.encode() in o:
                s["skipped_contains_prefix"] += 1
                continue
            pairs.append((o, m))
        out.append(pairs)
    ctx.cov.setdefault("strata", {}).update({"getMangledString:" + k: v for k, v in strata.items()})
    for st in ("ascii", "supported", "mixed", "mixed+other"):
        ctx.require(strata.get(st, {}).get("n", 0) >= 100, "stratum %s of getMangledString saw %d strings" % (st, strata.get(st, {}).get("n", 0)))
    return out


def filt_roundtrip(ctx, groups, stdin_cases, argv_cases):
    filt = vfcore.tool("asan", "tfel-unicode-filt")
    if not filt.exists():
        raise vfcore.HarnessFailure("%s not built" % filt)
    env = {"LD_LIBRARY_PATH": vfcore.ld_path("asan")}
    stats = {"stdin_lines": 0, "argv_args": 0, "stdin_runs": 0, "argv_runs": 0}

    def bisect(run_fn, items):
        """smallest failing sub-list (single witness) of a failing batch"""
        while len(items) > 1:
            h = len(items) // 2
            a, b = items[:h], items[h:]
            if run_fn(a) is not True:
                items = a
            elif run_fn(b) is not True:
                items = b
            else:
                break
        return items

    def run_stdin(pairs):
        data = b"".join(m + b"\n" for _, m in pairs)
        r = vfcore.run([filt], timeout=1800, cwd=ctx.work, env=env, stdin=data, binary=True)
        crash = ctx.classify_crash(vfcore.Result(r.rc, "", r.err.decode("utf-8", "replace"), r.timed_out, r.wall))
        if crash:
            return ("crash", crash, r.err.decode("utf-8", "replace")[-2000:])
        got = r.out.split(b"\n")
        if got and got[-1] == b"":
            got.pop()
        exp = [o for o, _ in pairs]
        if got != exp:
            k = next((j for j in range(min(len(got), len(exp))) if got[j] != exp[j]), min(len(got), len(exp)))
            return ("diff", k, got[k] if k < len(got) else None)
        return True

    def run_argv(pairs):
        r = vfcore.run([filt] + [m.decode("utf-8", "surrogateescape") for _, m in pairs], timeout=600, cwd=ctx.work, env=env, binary=True)
        crash = ctx.classify_crash(vfcore.Result(r.rc, "", r.err.decode("utf-8", "replace"), r.timed_out, r.wall))
        if crash:
            return ("crash", crash, r.err.decode("utf-8", "replace")[-2000:])
        got = r.out.split(b"\n")
        if got and got[-1] == b"":
            got.pop()
        exp = [o for o, _ in pairs]
        if got != exp:
            k = next((j for j in range(min(len(got), len(exp))) if got[j] != exp[j]), min(len(got), len(exp)))
            return ("diff", k, got[k] if k < len(got) else None)
        return True

    def report(mode, fn, pairs, res):
        w = bisect(fn, pairs)
        o, m = w[0]
        res = fn(w)
        rp = {"mode": mode, "mangled_input": m.decode("utf-8", "replace"), "mangled_input_hex": m.hex(), "original_hex": o.hex(),
              "binary": str(filt)}
        if res is True:
            ctx.inconc("tfel-unicode-filt %s: batch failure not reproduced on its parts" % mode)
        elif res[0] == "crash":
            ctx.violation("tfel-unicode-filt:%s:%s" % (mode, res[1]), "%s on input %r\n%s" % (res[1], rp["mangled_input"], res[2]), rp)
        else:
            got = res[2]
            ctx.violation("tfel-unicode-filt:%s:round-trip" % mode,
                          "tfel-unicode-filt(%r) = %r, expected the original %r" % (rp["mangled_input"], got.decode("utf-8", "replace") if got is not None else None,
                                                                                     o.decode("utf-8", "replace")), rp)

    def do_stdin(pairs):
        return pairs, run_stdin(pairs)
    per = max(1, stdin_cases // max(1, len(groups)))
    for pairs, res in vfcore.pmap(do_stdin, [g[:per] for g in groups if g]):
        stats["stdin_lines"] += len(pairs)
        stats["stdin_runs"] += 1
        ctx.add_eval(len(pairs))
        if res is not True:
            report("stdin", run_stdin, pairs, res)
    # argv mode: no empty-argument problem (an empty argument prints an empty line), 100 arguments per run
    flat = [p for g in groups for p in g if b"\0" not in p[1]][:argv_cases]
    batches = [flat[i:i + 100] for i in range(0, len(flat), 100)]

    def do_argv(pairs):
        return pairs, run_argv(pairs)
    for pairs, res in vfcore.pmap(do_argv, batches):
        stats["argv_args"] += len(pairs)
        stats["argv_runs"] += 1
        ctx.add_eval(len(pairs))
        if res is not True:
            report("argv", run_argv, pairs, res)
    ctx.cov["tfel-unicode-filt"] = stats
    ctx.require(stats["stdin_lines"] >= 1000 and stats["argv_args"] >= 500, "tfel-unicode-filt saw too few inputs: %s" % stats)


def run(ctx):
    b = build(ctx)
    ctx.cov["rule"] = ("table: one case per entry (+ one per adjacent pair of sorted mangled names for the prefix test); strings: one case = "
                       "random string of 0..40 items drawn from printable ASCII (hex digits and '_' over-represented, fragments of the prefix), "
                       "supported characters, other valid UTF-8 characters, in four strata; a string counts as distinct non-trivial when it "
                       "contains at least one supported character; a fixed share of the mangled strings (see tfel-unicode-filt counters) is then fed to tfel-unicode-filt")
    table = check_table(ctx, b["asan"])
    if not table:
        return
    groups = gen_strings(ctx, b["asan"], ctx.n(100000, 5000000), table)
    filt_roundtrip(ctx, groups, ctx.n(40000, 1000000), ctx.n(2000, 40000))
    ctx.assumptions += ["inputs are valid UTF-8 lines without newline/NUL", "inputs containing 'tfel_unicode_mangling_' are outside the round-trip claim"]
