#!/usr/bin/env python3
"""design_tables.py — regenerate the generated blocks of DESIGN.md:
  <!-- BEGIN GENERATED fixed --> ... <!-- END GENERATED fixed -->     from known_findings.json (status fixed)
  <!-- BEGIN GENERATED open -->  ... <!-- END GENERATED open -->      from known_findings.json (status open)
  <!-- BEGIN GENERATED seeded --> ... <!-- END GENERATED seeded -->   from seeded/*/meta.json
Nothing here is read by a check: it only keeps the document in step with the files the checks do read."""
import glob
import json
import os
import re
import subprocess

V = os.path.dirname(os.path.dirname(os.path.abspath(__file__)))


def esc(s, n=None):
    s = re.sub(r"\s+", " ", str(s)).replace("|", "\\|")
    return s if n is None or len(s) <= n else s[:n - 1] + "…"


def fixed_table(f):
    subj = {}
    for l in subprocess.run(["git", "-C", "/repo", "log", "--format=%h %s"], capture_output=True, text=True).stdout.splitlines():
        h, s = l.split(" ", 1)
        subj[h[:9]] = s
    rows = ["| prop | commit | what failed on the pinned tree (witness) | check keys that report it if it returns |", "|---|---|---|---|"]
    for x in sorted((x for x in f if x["status"] == "fixed"), key=lambda x: x["property"]):
        rows.append("| %s | `%s` | %s | `%s` |" % (x["property"], x.get("commit", "?"), esc(x["what"], 420), esc(x["key"], 160)))
    return "\n".join(rows)


def open_table(f):
    rows = ["| prop | key pattern (fnmatch) | what fails, and why it is recorded rather than repaired |", "|---|---|---|"]
    for x in sorted((x for x in f if x["status"] == "open"), key=lambda x: (x["property"], x["key"])):
        rows.append("| %s | `%s` | %s |" % (x["property"], esc(x["key"]), esc(x["what"], 520)))
    return "\n".join(rows)


def seeded_table():
    rows = ["| prop | seeded change (author: a sub-agent that saw only the property text) | needs, to manifest | outcome of `./vf check <id>` (quick, seed 0) with the change applied | history |",
            "|---|---|---|---|---|"]
    for d in sorted(glob.glob(V + "/seeded/C*")):
        m = json.load(open(d + "/meta.json"))
        v = m.get("verif", {})
        out = "**detected** (exit 1, %d distinct keys, e.g. `%s`)" % (v.get("distinct_keys", 0), esc((v.get("first_keys") or ["?"])[0], 110)) \
            if v.get("detected") else ("exit %s: with the later fix the change no longer breaks the property" % v.get("check_exit")
                                       if "no longer breaks the property" in v.get("history", "") else "**MISSED** (exit %s)" % v.get("check_exit"))
        rows.append("| %s | %s | %s | %s | %s |" % (m["property"], esc(m.get("what_it_breaks", ""), 330), esc(m.get("needs_to_manifest", ""), 260), out,
                                                  esc(v.get("history", ""), 520)))
    return "\n".join(rows)


def reverted_table():
    p = V + "/seeded/reverted_fixes.json"
    if not os.path.exists(p):
        return "(campaign not run yet)"
    res = json.load(open(p))
    rows = ["| commit | fix | check | outcome with the fix reverted | first matching key |", "|---|---|---|---|---|"]
    for c, r in res.items():
        if r.get("rc") is None:
            rows.append("| `%s` | %s | %s | not run: %s | |" % (c, esc(r["subject"], 90), ",".join(r["properties"]), esc(r.get("note", ""), 120)))
            continue
        for p_, x in r["runs"].items():
            out = "**detected** (exit 1, %d keys)" % x["distinct_keys"] if x["rc"] == 1 else "**MISSED** (exit %d)" % x["rc"]
            k = (x["keys_matching_entry"] or x["other_keys"] or [""])[0]
            rows.append("| `%s` | %s | %s | %s | `%s` |" % (c, esc(r["subject"], 90), p_, out, esc(k, 110)))
    n = [r for r in res.values() if r.get("rc") is not None]
    rows.append("")
    rows.append("%d reverted, %d detected, %d missed, %d not applicable." % (len(n), sum(1 for r in n if r.get("detected")), sum(1 for r in n if not r.get("detected")),
                                                                         len(res) - len(n)))
    return "\n".join(rows)


def main():
    f = json.load(open(V + "/known_findings.json"))["findings"]
    txt = open(V + "/DESIGN.md").read()
    for name, body in (("fixed", fixed_table(f)), ("open", open_table(f)), ("seeded", seeded_table()), ("reverted", reverted_table())):
        b, e = "<!-- BEGIN GENERATED %s -->" % name, "<!-- END GENERATED %s -->" % name
        if b not in txt:
            print("marker missing:", name)
            continue
        txt = txt[:txt.index(b) + len(b)] + "\n" + body + "\n" + txt[txt.index(e):]
    open(V + "/DESIGN.md", "w").write(txt)
    print("fixed=%d open=%d seeded=%d" % (sum(x["status"] == "fixed" for x in f), sum(x["status"] == "open" for x in f), len(glob.glob(V + "/seeded/C*"))))


if __name__ == "__main__":
    main()
