// C18 — tfel::fsalgo algorithms = std:: algorithms on the first N elements (DESIGN.md §4.1)
//
// For every N in 0..64 (all instantiated through an index_sequence), three element types
// (int, double, a struct whose + and * are non-commutative and logged) and every algorithm of
// the property, the fsalgo call and the std call run on identical copies of guard-patterned
// buffers.  Compared bitwise: the whole destination image (2 leading + >= 6 trailing guard
// cells included), the source image, the return value (iterator offset or value) and the
// *sequence of functor / operator calls with their arguments* (recorded by logging functors).
//
// Two APIs deviate from std by a documented-in-code convention (element first, accumulator /
// current best second).  They are compared twice: "...:std-argument-order" hands the *same*
// functor to std (what the property states) and "...:element-first" hands std the functor
// with swapped arguments, so that any other defect of these algorithms still shows.
#define VFH_MAIN
#include "vfh.hxx"
#include <algorithm>
#include <array>
#include <list>
#include <numeric>
#include "TFEL/FSAlgorithm/FSAlgorithm.hxx"

namespace fsa = tfel::fsalgo;
static vf::Reporter R;
static std::vector<uint64_t> LOG;  // (tag, a, b) triples
static inline void lg(uint64_t t, uint64_t a, uint64_t b) { LOG.push_back(t); LOG.push_back(a); LOG.push_back(b); }

// ---- element types
struct E {  // operators are non-commutative and logged
  uint64_t v;
};
static inline E operator+(const E& a, const E& b) { lg('+', a.v, b.v); return E{a.v * 3u + b.v}; }
static inline E operator*(const E& a, const E& b) { lg('*', a.v, b.v); return E{(a.v * 5u) ^ (b.v + 1u)}; }
static inline bool operator==(const E& a, const E& b) { lg('=', a.v, b.v); return a.v == b.v; }
static inline bool operator<(const E& a, const E& b) { lg('<', a.v, b.v); return a.v < b.v; }
static inline bool operator>(const E& a, const E& b) { lg('>', a.v, b.v); return a.v > b.v; }
static inline E& operator++(E& a) { lg('i', a.v, 0); a.v += 7; return a; }

template <typename T> struct Tr;
template <> struct Tr<int> {
  static const char* name() { return "int"; }
  static int rnd(vf::Rng& g, bool narrow) { return narrow ? g.irange(-2, 2) : int(g.u64() % 2001) - 1000; }
  static uint64_t bits(int v) { return uint64_t(int64_t(v)); }
  static int guard(int k) { return 0x5a5a0000 + k; }
  static int from(uint64_t s) { return int(s % 4001) - 2000; }
  static int f1(int a) { return int(unsigned(a) * 3u + 1u); }
  static int f2(int a, int b) { return int(unsigned(a) * 3u - unsigned(b)); }  // non-commutative
  static bool less(int a, int b) { return a < b; }
};
template <> struct Tr<double> {
  static const char* name() { return "double"; }
  static double rnd(vf::Rng& g, bool narrow) { return narrow ? 0.5 * g.irange(-2, 2) : g.uni(-1000, 1000); }
  static uint64_t bits(double v) { uint64_t b; std::memcpy(&b, &v, 8); return b; }
  static double guard(int k) { return -777.25 - k; }
  static double from(uint64_t s) { return double(int64_t(s % 4001) - 2000) * 0.125; }
  static double f1(double a) { return a * 3 + 1; }
  static double f2(double a, double b) { return a * 0.5 - b; }
  static bool less(double a, double b) { return a < b; }
};
template <> struct Tr<E> {
  static const char* name() { return "struct"; }
  static E rnd(vf::Rng& g, bool narrow) { return E{narrow ? uint64_t(g.irange(0, 4)) : g.u64() % 100000}; }
  static uint64_t bits(const E& v) { return v.v; }
  static E guard(int k) { return E{0xdead0000u + unsigned(k)}; }
  static E from(uint64_t s) { return E{s % 4001}; }
  static E f1(const E& a) { return E{a.v * 3u + 1u}; }
  static E f2(const E& a, const E& b) { return E{a.v * 3u - b.v}; }
  static bool less(const E& a, const E& b) { return a.v < b.v; }
};

static constexpr int LEAD = 2, CAP = 64 + 8;
template <typename T>
struct Buf {
  std::array<T, CAP> a;
  T* data() { return a.data() + LEAD; }
  const T* data() const { return a.data() + LEAD; }
  void guards(int salt) { for (int k = 0; k < CAP; ++k) a[size_t(k)] = Tr<T>::guard(k + 100 * salt); }
  void image(std::vector<uint64_t>& o) const { for (auto& x : a) o.push_back(Tr<T>::bits(x)); }
};

struct Obs {
  std::vector<uint64_t> img, log;
  uint64_t ret = 0;
  bool operator==(const Obs& o) const { return img == o.img && log == o.log && ret == o.ret; }
};

static const char* bucket(unsigned N) { return N == 0 ? "N=0" : N == 1 ? "N=1" : N <= 10 ? "N=2..10" : "N=11..64"; }

template <typename T>
static void judge(const char* alg, unsigned N, uint64_t idx, const Obs& lib, const Obs& ref, const char* msg = "") {
  char api[96]; std::snprintf(api, sizeof api, "%s<%s>", alg, Tr<T>::name());
  uint64_t h = vf::hash_arr(ref.img.data(), ref.img.size(), vf::hash_arr(ref.log.data(), ref.log.size(), N));
  auto dump = [&] {
    vf::J j; j.s("type", Tr<T>::name()).i("N", N).i("ret_fsalgo", (long long)lib.ret).i("ret_std", (long long)ref.ret)
        .i("calls_fsalgo", (long long)lib.log.size() / 3).i("calls_std", (long long)ref.log.size() / 3);
    long d = -1; for (size_t k = 0; k < std::min(lib.img.size(), ref.img.size()); ++k) if (lib.img[k] != ref.img[k]) { d = long(k); break; }
    j.i("first_differing_cell(index in the concatenated buffer images, 72 cells each, range starts at cell 2; -1 none)", d);
    long c = -1; for (size_t k = 0; k < std::min(lib.log.size(), ref.log.size()); ++k) if (lib.log[k] != ref.log[k]) { c = long(k / 3); break; }
    if (c < 0 && lib.log.size() != ref.log.size()) c = long(std::min(lib.log.size(), ref.log.size()) / 3);
    j.i("first_differing_call", c);
    if (c >= 0 && size_t(3 * c + 2) < lib.log.size() && size_t(3 * c + 2) < ref.log.size()) {
      j.i("fsalgo_call_arg0", (long long)lib.log[size_t(3 * c + 1)]).i("fsalgo_call_arg1", (long long)lib.log[size_t(3 * c + 2)])
          .i("std_call_arg0", (long long)ref.log[size_t(3 * c + 1)]).i("std_call_arg1", (long long)ref.log[size_t(3 * c + 2)]);
    }
    return j.str();
  };
  vf::set_case(api, bucket(N), idx);
  R.expect(api, bucket(N), idx, h, lib == ref, dump, msg);
}

// run body(lib?) twice on fresh copies of the prepared buffers
template <typename T, typename Prep, typename Lib, typename Ref>
static void versus(const char* alg, unsigned N, uint64_t idx, Prep&& prep, Lib&& lib, Ref&& ref, const char* msg = "") {
  Obs ol, orf;
  {
    Buf<T> a, b, c; prep(a, b, c); LOG.clear();
    ol.ret = lib(a, b, c); a.image(ol.img); b.image(ol.img); c.image(ol.img); ol.log = LOG;
  }
  {
    Buf<T> a, b, c; prep(a, b, c); LOG.clear();
    orf.ret = ref(a, b, c); a.image(orf.img); b.image(orf.img); c.image(orf.img); orf.log = LOG;
  }
  judge<T>(alg, N, idx, ol, orf, msg);
}

template <unsigned N, typename T>
static void all(const vf::Args& a, uint64_t idx) {
  using X = Tr<T>;
  vf::Rng g(a.seed, 1800 + N * 8 + sizeof(T), idx);
  const bool narrow = g.coin();
  std::array<T, 64> va, vb;
  for (unsigned k = 0; k < 64; ++k) { va[k] = X::rnd(g, narrow); vb[k] = X::rnd(g, narrow); }
  const T init = X::rnd(g, false);
  const int kdiff = N ? g.irange(-1, int(N) - 1) : -1;  // position where the second range differs (equal)
  auto prep = [&](Buf<T>& p, Buf<T>& q, Buf<T>& r) {
    p.guards(1); q.guards(2); r.guards(3);
    for (unsigned k = 0; k < N; ++k) { p.data()[k] = va[k]; q.data()[k] = vb[k]; }
  };
  auto off = [](const T* it, const Buf<T>& b) { return uint64_t(it - b.data()); };
  auto U = [](const T& x) { lg('u', X::bits(x), 0); return X::f1(x); };
  auto B = [](const T& x, const T& y) { lg('b', X::bits(x), X::bits(y)); return X::f2(x, y); };
  auto B2 = [](const T& x, const T& y) { lg('c', X::bits(x), X::bits(y)); return X::f2(y, x); };
  auto LESS = [](const T& x, const T& y) { lg('L', X::bits(x), X::bits(y)); return X::less(x, y); };
  auto EQ = [](const T& x, const T& y) { lg('e', X::bits(x), X::bits(y)); return X::bits(x) == X::bits(y); };
  // ---- copy (pointers, overlapping shift-left, list iterators)
  versus<T>("copy", N, idx, prep,
            [&](Buf<T>& p, Buf<T>& q, Buf<T>&) { return off(fsa::copy<N>::exe(static_cast<const T*>(p.data()), q.data()), q); },
            [&](Buf<T>& p, Buf<T>& q, Buf<T>&) { return off(std::copy(static_cast<const T*>(p.data()), static_cast<const T*>(p.data()) + N, q.data()), q); });
  versus<T>("copy/overlap-left", N, idx, prep,
            [&](Buf<T>& p, Buf<T>&, Buf<T>&) { return off(fsa::copy<N>::exe(p.data(), p.data() - 1), p); },
            [&](Buf<T>& p, Buf<T>&, Buf<T>&) { return off(std::copy(p.data(), p.data() + N, p.data() - 1), p); });
  {
    Obs ol, orf;
    for (int w = 0; w < 2; ++w) {
      std::list<T> src(va.begin(), va.begin() + N), dst;
      for (unsigned k = 0; k < N + 3; ++k) dst.push_back(X::guard(int(k)));
      auto it = w == 0 ? fsa::copy<N>::exe(src.cbegin(), dst.begin()) : std::copy(src.cbegin(), src.cend(), dst.begin());
      Obs& o = w == 0 ? ol : orf;
      o.ret = uint64_t(std::distance(dst.begin(), it));
      for (auto& x : dst) o.img.push_back(X::bits(x));
      for (auto& x : src) o.img.push_back(X::bits(x));
    }
    judge<T>("copy/list-iterators", N, idx, ol, orf);
  }
  // ---- fill
  versus<T>("fill", N, idx, prep,
            [&](Buf<T>& p, Buf<T>&, Buf<T>&) { fsa::fill<N>::exe(p.data(), init); return 0; },
            [&](Buf<T>& p, Buf<T>&, Buf<T>&) { std::fill(p.data(), p.data() + N, init); return 0; });
  // ---- transform
  versus<T>("transform(unary)", N, idx, prep,
            [&](Buf<T>& p, Buf<T>& q, Buf<T>&) { return off(fsa::transform<N>::exe(static_cast<const T*>(p.data()), q.data(), U), q); },
            [&](Buf<T>& p, Buf<T>& q, Buf<T>&) { return off(std::transform(static_cast<const T*>(p.data()), static_cast<const T*>(p.data()) + N, q.data(), U), q); });
  versus<T>("transform(unary)/in-place", N, idx, prep,
            [&](Buf<T>& p, Buf<T>&, Buf<T>&) { return off(fsa::transform<N>::exe(p.data(), p.data(), U), p); },
            [&](Buf<T>& p, Buf<T>&, Buf<T>&) { return off(std::transform(p.data(), p.data() + N, p.data(), U), p); });
  versus<T>("transform(binary)", N, idx, prep,
            [&](Buf<T>& p, Buf<T>& q, Buf<T>& r) { return off(fsa::transform<N>::exe(static_cast<const T*>(p.data()), static_cast<const T*>(q.data()), r.data(), B), r); },
            [&](Buf<T>& p, Buf<T>& q, Buf<T>& r) { return off(std::transform(static_cast<const T*>(p.data()), static_cast<const T*>(p.data()) + N, static_cast<const T*>(q.data()), r.data(), B), r); });
  // ---- accumulate
  versus<T>("accumulate(+)", N, idx, prep,
            [&](Buf<T>& p, Buf<T>&, Buf<T>&) { return X::bits(fsa::accumulate<N>::exe(static_cast<const T*>(p.data()), init)); },
            [&](Buf<T>& p, Buf<T>&, Buf<T>&) { return X::bits(std::accumulate(static_cast<const T*>(p.data()), static_cast<const T*>(p.data()) + N, init)); },
            "std::accumulate computes acc + *it");
  versus<T>("accumulate(op):std-argument-order", N, idx, prep,
            [&](Buf<T>& p, Buf<T>&, Buf<T>&) { return X::bits(fsa::accumulate<N>::exe(static_cast<const T*>(p.data()), init, B)); },
            [&](Buf<T>& p, Buf<T>&, Buf<T>&) { return X::bits(std::accumulate(static_cast<const T*>(p.data()), static_cast<const T*>(p.data()) + N, init, B)); },
            "same functor handed to both; std::accumulate calls op(acc, *it)");
  versus<T>("accumulate(op):element-first", N, idx, prep,
            [&](Buf<T>& p, Buf<T>&, Buf<T>&) { return X::bits(fsa::accumulate<N>::exe(static_cast<const T*>(p.data()), init, B)); },
            [&](Buf<T>& p, Buf<T>&, Buf<T>&) { return X::bits(std::accumulate(static_cast<const T*>(p.data()), static_cast<const T*>(p.data()) + N, init, [&](const T& acc, const T& x) { return B(x, acc); })); },
            "std gets op with swapped arguments (the convention documented in accumulate.hxx)");
  // ---- inner_product
  versus<T>("inner_product(+,*)", N, idx, prep,
            [&](Buf<T>& p, Buf<T>& q, Buf<T>&) { return X::bits(fsa::inner_product<N>::exe(static_cast<const T*>(p.data()), static_cast<const T*>(q.data()), init)); },
            [&](Buf<T>& p, Buf<T>& q, Buf<T>&) { return X::bits(std::inner_product(static_cast<const T*>(p.data()), static_cast<const T*>(p.data()) + N, static_cast<const T*>(q.data()), init)); });
  versus<T>("inner_product(op1,op2)", N, idx, prep,
            [&](Buf<T>& p, Buf<T>& q, Buf<T>&) { return X::bits(fsa::inner_product<N>::exe(static_cast<const T*>(p.data()), static_cast<const T*>(q.data()), init, B, B2)); },
            [&](Buf<T>& p, Buf<T>& q, Buf<T>&) { return X::bits(std::inner_product(static_cast<const T*>(p.data()), static_cast<const T*>(p.data()) + N, static_cast<const T*>(q.data()), init, B, B2)); });
  if constexpr (N >= 1) {  // no-init overload: first product is the initial value (no std counterpart for N=0: T{})
    versus<T>("inner_product<T>(no init)", N, idx, prep,
              [&](Buf<T>& p, Buf<T>& q, Buf<T>&) { return X::bits(fsa::inner_product<N>::template exe<T>(static_cast<const T*>(p.data()), static_cast<const T*>(q.data()))); },
              [&](Buf<T>& p, Buf<T>& q, Buf<T>&) { const T* pp = p.data(); const T* qq = q.data(); const T i0 = pp[0] * qq[0]; return X::bits(std::inner_product(pp + 1, pp + N, qq + 1, i0)); });
  }
  // ---- equal
  auto prep_eq = [&](Buf<T>& p, Buf<T>& q, Buf<T>& r) {
    prep(p, q, r);
    for (unsigned k = 0; k < N; ++k) q.data()[k] = va[k];
    if (kdiff >= 0) q.data()[kdiff] = X::f1(va[size_t(kdiff)]);
  };
  versus<T>("equal(==)", N, idx, prep_eq,
            [&](Buf<T>& p, Buf<T>& q, Buf<T>&) { return uint64_t(fsa::equal<N>::exe(static_cast<const T*>(p.data()), static_cast<const T*>(q.data()))); },
            [&](Buf<T>& p, Buf<T>& q, Buf<T>&) { return uint64_t(std::equal(static_cast<const T*>(p.data()), static_cast<const T*>(p.data()) + N, static_cast<const T*>(q.data()))); });
  versus<T>("equal(pred)", N, idx, prep_eq,
            [&](Buf<T>& p, Buf<T>& q, Buf<T>&) { return uint64_t(fsa::equal<N>::exe(static_cast<const T*>(p.data()), static_cast<const T*>(q.data()), EQ)); },
            [&](Buf<T>& p, Buf<T>& q, Buf<T>&) { return uint64_t(std::equal(static_cast<const T*>(p.data()), static_cast<const T*>(p.data()) + N, static_cast<const T*>(q.data()), EQ)); });
  // ---- for_each (mutating, logging functor)
  {
    auto F = [](T& x) { lg('f', X::bits(x), 0); x = X::f1(x); };
    versus<T>("for_each", N, idx, prep,
              [&](Buf<T>& p, Buf<T>&, Buf<T>&) { fsa::for_each<N>::exe(p.data(), F); return 0; },
              [&](Buf<T>& p, Buf<T>&, Buf<T>&) { std::for_each(p.data(), p.data() + N, F); return 0; });
  }
  // ---- generate (stateful generator taken by value, as std::generate)
  {
    struct Gen { uint64_t s; T operator()() { s = s * 6364136223846793005ull + 1442695040888963407ull; lg('g', s, 0); return X::from(s >> 20); } };
    const Gen g0{g.u64()};
    versus<T>("generate", N, idx, prep,
              [&](Buf<T>& p, Buf<T>&, Buf<T>&) { fsa::generate<N>::exe(p.data(), g0); return 0; },
              [&](Buf<T>& p, Buf<T>&, Buf<T>&) { std::generate(p.data(), p.data() + N, g0); return 0; });
  }
  // ---- iota
  versus<T>("iota", N, idx, prep,
            [&](Buf<T>& p, Buf<T>&, Buf<T>&) { fsa::iota<N>::exe(p.data(), init); return 0; },
            [&](Buf<T>& p, Buf<T>&, Buf<T>&) { std::iota(p.data(), p.data() + N, init); return 0; });
  // ---- min / max element
  versus<T>("min_element(<)", N, idx, prep,
            [&](Buf<T>& p, Buf<T>&, Buf<T>&) { return off(fsa::min_element<N>::exe(static_cast<const T*>(p.data())), p); },
            [&](Buf<T>& p, Buf<T>&, Buf<T>&) { return off(std::min_element(static_cast<const T*>(p.data()), static_cast<const T*>(p.data()) + N), p); });
  versus<T>("min_element(comp)", N, idx, prep,
            [&](Buf<T>& p, Buf<T>&, Buf<T>&) { return off(fsa::min_element<N>::exe(static_cast<const T*>(p.data()), LESS), p); },
            [&](Buf<T>& p, Buf<T>&, Buf<T>&) { return off(std::min_element(static_cast<const T*>(p.data()), static_cast<const T*>(p.data()) + N, LESS), p); });
  if constexpr (!std::is_same_v<T, E>) {
    // (for the struct type '>' and '<' are distinct logged operators: the call logs differ by
    //  construction, only the position can be compared — done below without the log)
    versus<T>("max_element(>)", N, idx, prep,
              [&](Buf<T>& p, Buf<T>&, Buf<T>&) { return off(fsa::max_element<N>::exe(static_cast<const T*>(p.data())), p); },
              [&](Buf<T>& p, Buf<T>&, Buf<T>&) { return off(std::max_element(static_cast<const T*>(p.data()), static_cast<const T*>(p.data()) + N), p); });
  } else {
    versus<T>("max_element(>)", N, idx, prep,
              [&](Buf<T>& p, Buf<T>&, Buf<T>&) { auto r = off(fsa::max_element<N>::exe(static_cast<const T*>(p.data())), p); LOG.clear(); return r; },
              [&](Buf<T>& p, Buf<T>&, Buf<T>&) { auto r = off(std::max_element(static_cast<const T*>(p.data()), static_cast<const T*>(p.data()) + N), p); LOG.clear(); return r; });
  }
  versus<T>("max_element(comp):std-comparator-meaning", N, idx, prep,
            [&](Buf<T>& p, Buf<T>&, Buf<T>&) { return off(fsa::max_element<N>::exe(static_cast<const T*>(p.data()), LESS), p); },
            [&](Buf<T>& p, Buf<T>&, Buf<T>&) { return off(std::max_element(static_cast<const T*>(p.data()), static_cast<const T*>(p.data()) + N, LESS), p); },
            "same 'less' comparator handed to both; std::max_element(first,last,comp) evaluates comp(best, *it)");
  versus<T>("max_element(comp):element-first", N, idx, prep,
            [&](Buf<T>& p, Buf<T>&, Buf<T>&) { return off(fsa::max_element<N>::exe(static_cast<const T*>(p.data()), [&](const T& x, const T& y) { return LESS(y, x); }), p); },
            [&](Buf<T>& p, Buf<T>&, Buf<T>&) { return off(std::max_element(static_cast<const T*>(p.data()), static_cast<const T*>(p.data()) + N, LESS), p); },
            "fsalgo gets comp(new, best) = less(best, new): the convention used inside TFEL (abs_max, eigen-solvers)");
  // ---- swap_ranges
  versus<T>("swap_ranges", N, idx, prep,
            [&](Buf<T>& p, Buf<T>& q, Buf<T>&) { return off(fsa::swap_ranges<N>::exe(p.data(), q.data()), q); },
            [&](Buf<T>& p, Buf<T>& q, Buf<T>&) { return off(std::swap_ranges(p.data(), p.data() + N, q.data()), q); });
}

template <typename T, unsigned... Is>
static void sizes(const vf::Args& a, uint64_t idx, std::integer_sequence<unsigned, Is...>) {
  (all<Is, T>(a, idx), ...);
}

#ifndef C18_TYPE
#define C18_TYPE 0
#endif

int main(int argc, char** argv) {
  vf::Args a(argc, argv);
  R.viol_cap = 2;
  for (long i = 0; i < a.cases; ++i) {
    const uint64_t idx = a.only >= 0 ? uint64_t(a.only) : a.gidx(i);
#if C18_TYPE == 0
    sizes<int>(a, idx, std::make_integer_sequence<unsigned, 65>{});
#elif C18_TYPE == 1
    sizes<double>(a, idx, std::make_integer_sequence<unsigned, 65>{});
#else
    sizes<E>(a, idx, std::make_integer_sequence<unsigned, 65>{});
#endif
    if (a.only >= 0) break;
  }
  R.finish();
  return 0;
}
