// vfh.hxx — common part of the /verif C++ harnesses (DESIGN.md §2).
// A harness never prints "ok": it emits JSON events prefixed by "@@VF " on stdout;
// lib/vfcore.py (Ctx.fold_events) re-judges and aggregates them.
//   {"ev":"viol","api":..,"stratum":..,"err":..,"tol":..,"case":..,"in":{...}}
//   {"ev":"sample",...}   first cases of every (api,stratum)
//   {"ev":"sum","api":..,"stratum":..,"n":..,"distinct":..,"skipped":..,"max_ratio":..}
#ifndef VERIF_VFH_HXX
#define VERIF_VFH_HXX
#include <cmath>
#include <cstdint>
#include <cstdio>
#include <cstdlib>
#include <cstring>
#include <limits>
#include <map>
#include <sstream>
#include <string>
#include <unistd.h>
#include <unordered_set>
#include <utility>
#include <vector>

namespace vf {

inline uint64_t splitmix(uint64_t& x) {
  uint64_t z = (x += 0x9e3779b97f4a7c15ull);
  z = (z ^ (z >> 30)) * 0xbf58476d1ce4e5b9ull;
  z = (z ^ (z >> 27)) * 0x94d049bb133111ebull;
  return z ^ (z >> 31);
}

// counter-based: every case has its own generator derived from (seed, stream, index)
struct Rng {
  uint64_t s;
  Rng(uint64_t seed, uint64_t stream, uint64_t idx) {
    uint64_t x = seed * 0x9e3779b97f4a7c15ull + 0x1234567ull;
    uint64_t a = splitmix(x);
    x = a ^ (stream * 0xd1342543de82ef95ull);
    uint64_t b = splitmix(x);
    x = b ^ (idx * 0xa0761d6478bd642full);
    s = splitmix(x);
  }
  uint64_t u64() { return splitmix(s); }
  // uniform in [0,1)
  double u01() { return (u64() >> 11) * (1.0 / 9007199254740992.0); }
  double uni(double a, double b) { return a + (b - a) * u01(); }
  int irange(int a, int b) { return a + int(u64() % uint64_t(b - a + 1)); }  // inclusive
  bool coin() { return u64() & 1; }
  double sign() { return coin() ? 1.0 : -1.0; }
  // 10^k with k uniform in [kmin,kmax]
  double logmag(double kmin, double kmax) { return std::pow(10.0, uni(kmin, kmax)); }
  double normal() {
    double u1 = u01(), u2 = u01();
    if (u1 < 1e-300) u1 = 1e-300;
    return std::sqrt(-2 * std::log(u1)) * std::cos(6.283185307179586 * u2);
  }
  template <typename T>
  const T& pick(const std::vector<T>& v) { return v[u64() % v.size()]; }
};

inline uint64_t hash_bytes(const void* p, size_t n, uint64_t h = 0xcbf29ce484222325ull) {
  const unsigned char* c = static_cast<const unsigned char*>(p);
  for (size_t i = 0; i < n; ++i) { h ^= c[i]; h *= 0x100000001b3ull; }
  return h;
}
template <typename T>
inline uint64_t hash_arr(const T* p, size_t n, uint64_t h = 0xcbf29ce484222325ull) {
  return hash_bytes(p, n * sizeof(T), h);
}

inline std::string hexf(long double v) {
  char b[64];
  std::snprintf(b, sizeof b, "\"%La\"", v);
  return b;
}
inline std::string num(long double v) {
  if (std::isnan(v)) return "\"nan\"";
  if (std::isinf(v)) return v > 0 ? "\"inf\"" : "\"-inf\"";
  char b[64];
  std::snprintf(b, sizeof b, "%.6Lg", v);
  return b;
}
// small JSON object builder for the inputs of a case
struct J {
  std::ostringstream o;
  bool first = true;
  J() { o << "{"; }
  void key(const char* k) { if (!first) o << ","; first = false; o << "\"" << k << "\":"; }
  J& s(const char* k, const std::string& v) {
    key(k); o << "\"";
    for (char c : v) {
      if (c == '"' || c == '\\') o << '\\' << c;
      else if (static_cast<unsigned char>(c) < 0x20) { char b[8]; std::snprintf(b, sizeof b, "\\u%04x", c); o << b; }
      else o << c;
    }
    o << "\""; return *this;
  }
  J& i(const char* k, long long v) { key(k); o << v; return *this; }
  J& f(const char* k, long double v) { key(k); o << hexf(v); return *this; }
  J& d(const char* k, long double v) { key(k); o << num(v); return *this; }
  template <typename It>
  J& arr(const char* k, It b, It e) {
    key(k); o << "[";
    for (It p = b; p != e; ++p) { if (p != b) o << ","; o << hexf(static_cast<long double>(*p)); }
    o << "]"; return *this;
  }
  template <typename It>
  J& darr(const char* k, It b, It e) {
    key(k); o << "[";
    for (It p = b; p != e; ++p) { if (p != b) o << ","; o << num(static_cast<long double>(*p)); }
    o << "]"; return *this;
  }
  std::string str() const { return o.str() + "}"; }
};

struct Args {
  uint64_t seed = 0;
  long cases = 1000;
  int shard = 0, nshards = 1;
  bool thorough = false;
  long only = -1;  // replay of a single case index
  std::map<std::string, std::string> kv;
  Args(int argc, char** argv) {
    for (int i = 1; i + 1 < argc; i += 2) {
      std::string k = argv[i], v = argv[i + 1];
      if (k == "--seed") seed = std::strtoull(v.c_str(), nullptr, 10);
      else if (k == "--cases") cases = std::atol(v.c_str());
      else if (k == "--shard") shard = std::atoi(v.c_str());
      else if (k == "--nshards") nshards = std::atoi(v.c_str());
      else if (k == "--tier") thorough = (v == "thorough");
      else if (k == "--only") only = std::atol(v.c_str());
      else kv[k] = v;
    }
  }
  // global index of the i-th case of this shard
  uint64_t gidx(long i) const { return uint64_t(i) * uint64_t(nshards) + uint64_t(shard); }
  std::string get(const std::string& k, const std::string& d = "") const {
    auto p = kv.find(k); return p == kv.end() ? d : p->second;
  }
};

extern char g_case[256];
inline void set_case(const char* api, const char* stratum, uint64_t idx) {
  std::snprintf(g_case, sizeof g_case, "%s:%s#%llu", api, stratum, (unsigned long long)idx);
}

struct Reporter {
  struct S {
    long n = 0, skipped = 0, viol = 0, samples = 0;
    long double max_ratio = 0;
    std::unordered_set<uint64_t> distinct;
  };
  std::map<std::pair<std::string, std::string>, S> tab;
  int sample_cap = 1;
  int viol_cap = 5;
  ~Reporter() { finish(); }
  S& at(const char* api, const char* st) { return tab[{api, st}]; }
  void skip(const char* api, const char* st) { at(api, st).skipped++; }
  // returns true when the case is fine.  err,tol >= 0; a non-finite err is a violation.
  template <typename F>
  bool check(const char* api, const char* st, uint64_t idx, uint64_t h, long double err, long double tol, F&& dump,
             const char* msg = "") {
    S& s = at(api, st);
    s.n++;
    if (s.distinct.size() < 2000000) s.distinct.insert(h);
    const bool bad = !(err <= tol);
    long double ratio = tol > 0 ? err / tol : (err > 0 ? INFINITY : 0);
    if (std::isfinite(ratio) && ratio > s.max_ratio) s.max_ratio = ratio;
    if (bad) {
      s.viol++;
      if (s.viol <= viol_cap) emit("viol", api, st, idx, err, tol, dump(), msg);
    } else if (s.samples < sample_cap) {
      s.samples++;
      emit("sample", api, st, idx, err, tol, dump(), msg);
    }
    return !bad;
  }
  // boolean oracle
  template <typename F>
  bool expect(const char* api, const char* st, uint64_t idx, uint64_t h, bool ok, F&& dump, const char* msg = "") {
    return check(api, st, idx, h, ok ? 0.0L : 1.0L, 0.5L, dump, msg);
  }
  static void emit(const char* ev, const char* api, const char* st, uint64_t idx, long double err, long double tol,
                   const std::string& in, const char* msg) {
    std::printf("@@VF {\"ev\":\"%s\",\"api\":\"%s\",\"stratum\":\"%s\",\"case\":%llu,\"err\":%s,\"tol\":%s,\"msg\":\"%s\",\"in\":%s}\n",
                ev, api, st, (unsigned long long)idx, num(err).c_str(), num(tol).c_str(), msg, in.c_str());
    std::fflush(stdout);
  }
  bool done = false;
  void finish() {
    if (done) return;
    done = true;
    for (auto& kv : tab) {
      std::printf("@@VF {\"ev\":\"sum\",\"api\":\"%s\",\"stratum\":\"%s\",\"n\":%ld,\"distinct\":%zu,\"skipped\":%ld,\"viol\":%ld,\"max_ratio\":%s}\n",
                  kv.first.first.c_str(), kv.first.second.c_str(), kv.second.n, kv.second.distinct.size(),
                  kv.second.skipped, kv.second.viol,
                  std::isfinite((double)kv.second.max_ratio) ? num(kv.second.max_ratio).c_str() : "1e300");
    }
    std::fflush(stdout);
  }
};

}  // namespace vf

#ifdef VFH_MAIN
namespace vf { char g_case[256] = "none"; }
// called by the ASan runtime before it prints a report: name the witness
extern "C" void __asan_on_error() {
  char b[300];
  int n = std::snprintf(b, sizeof b, "@@VFCASE %s\n", vf::g_case);
  if (n > 0) { ssize_t r = write(2, b, size_t(n)); (void)r; }
}
#endif
#endif
