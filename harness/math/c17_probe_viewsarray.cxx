// C17 compile probe (fixed source, recorded only): scaling a whole ViewsArray of non-scalar
// objects.  ViewsArray::operator*= builds its functor with `auto&` while operator() returns the
// views by value, so the member cannot be instantiated (nor operator/=, which calls it).
#include "TFEL/Math/tvector.hxx"
#include "TFEL/Math/Array/ViewsArray.hxx"
int main() {
  double buf[6] = {1, 2, 3, 4, 5, 6};
  auto a = tfel::math::map_array<tfel::math::tvector<2, tfel::math::tvector<3, double>>>(buf);
  a *= 2.;
  return buf[5] == 12 ? 0 : 1;
}
