/* vfshim.c — helper loaded next to generated material properties (C37/C38).
 * The C `errno` of the process cannot be driven reliably from Python (the interpreter itself
 * calls libc between two ctypes calls), so "set errno, call, read errno" is one C function. */
#include <errno.h>
#include <stddef.h>

int vf_set_errno(int e) { errno = e; return e; }
int vf_get_errno(void) { return errno; }

typedef double (*vf_gmp_t)(void *, const double *, size_t, int);

/* generic interface: name(status*, args*, nargs, policy) */
double vf_call_gmp(void *fn, void *st, const double *a, size_t n, int policy, int e0, int *e1) {
  errno = e0;
  const double r = ((vf_gmp_t)fn)(st, a, n, policy);
  *e1 = errno;
  return r;
}

#define A(i) a[i]
/* C interface: name(double, ..., double) */
double vf_call_c(void *fn, const double *a, int n, int e0, int *e1) {
  double r = 0;
  errno = e0;
  switch (n) {
    case 0: r = ((double (*)(void))fn)(); break;
    case 1: r = ((double (*)(double))fn)(A(0)); break;
    case 2: r = ((double (*)(double, double))fn)(A(0), A(1)); break;
    case 3: r = ((double (*)(double, double, double))fn)(A(0), A(1), A(2)); break;
    case 4: r = ((double (*)(double, double, double, double))fn)(A(0), A(1), A(2), A(3)); break;
    case 5: r = ((double (*)(double, double, double, double, double))fn)(A(0), A(1), A(2), A(3), A(4)); break;
    case 6: r = ((double (*)(double, double, double, double, double, double))fn)(A(0), A(1), A(2), A(3), A(4), A(5)); break;
    case 7: r = ((double (*)(double, double, double, double, double, double, double))fn)(A(0), A(1), A(2), A(3), A(4), A(5), A(6)); break;
    case 8: r = ((double (*)(double, double, double, double, double, double, double, double))fn)(A(0), A(1), A(2), A(3), A(4), A(5), A(6), A(7)); break;
    default: *e1 = -1; return 0;
  }
  *e1 = errno;
  return r;
}

/* C interface: name_checkBounds(double, ..., double) -> int */
int vf_call_cb(void *fn, const double *a, int n) {
  switch (n) {
    case 0: return ((int (*)(void))fn)();
    case 1: return ((int (*)(double))fn)(A(0));
    case 2: return ((int (*)(double, double))fn)(A(0), A(1));
    case 3: return ((int (*)(double, double, double))fn)(A(0), A(1), A(2));
    case 4: return ((int (*)(double, double, double, double))fn)(A(0), A(1), A(2), A(3));
    case 5: return ((int (*)(double, double, double, double, double))fn)(A(0), A(1), A(2), A(3), A(4));
    case 6: return ((int (*)(double, double, double, double, double, double))fn)(A(0), A(1), A(2), A(3), A(4), A(5));
    case 7: return ((int (*)(double, double, double, double, double, double, double))fn)(A(0), A(1), A(2), A(3), A(4), A(5), A(6));
    case 8: return ((int (*)(double, double, double, double, double, double, double, double))fn)(A(0), A(1), A(2), A(3), A(4), A(5), A(6), A(7));
    default: return -12345;
  }
}
