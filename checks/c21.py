"""C21 — isotropic moduli conversions and stiffness tensors."""
import vfcore

META = {
    "engine": "math", "level": "exploration", "design_ref": "DESIGN.md §4.1 C21",
    "technique": "ASan+UBSan+assert harness on IsotropicModuli/Lame/StiffnessTensor; every result compared with Hooke's law written in long-double index notation (orthotropic: inverted engineering compliance, axis permutation, static condensation)",
    "text": "Random and edge (nu -> 1/2, nu -> -1, nu ~ 0, badly scaled / strongly anisotropic orthotropic constants, SPD compliance by construction) elastic constants in float/double/long double are pushed through every conversion of IsotropicModuli, computeLambda/computeMu, computeIsotropicStiffnessTensor(II), computeKGModuli, isIsotropic, computeOrthotropicStiffnessTensor(II) for the 7 modelling hypotheses x ALTERED/UNALTERED x DEFAULT/PIPE(/PLATE when it compiles), computeElasticStiffness / computeAlteredElasticStiffness and ComputeAlteredStiffnessTensor; each output is judged against an independent long-double reference with a rounding-level tolerance, output tensors are pre-filled with NaN so an unwritten component is observed, symmetry and positive definiteness (Cholesky in the harness) are checked. Held on the cases executed; nothing is claimed beyond them.",
    "note": "Trusted: harness/material/mat_ref.hxx (long-double Hooke/compliance inversion/condensation), g++, sanitizer runtimes. Tolerance 200*eps*conditioning*scale (conditioning: Frobenius condition number of the compliance; 1/(1+nu) for the plane-stress isotropic formulas).",
}

H = vfcore.VERIF / "harness/material"
LIBS = ("TFELMaterial", "TFELMath", "TFELUtilities", "TFELException")
TYPES = ("double", "float", "ldouble")
HYPS = ("AGPStrain", "AGPStress", "Axi", "PlaneStress", "PlaneStrain", "GPStrain", "3D")


def build(ctx):
    probe, log = vfcore.compile_cxx("c21_plate_probe", [H / "c21_plate_probe.cxx"], "plain", libs=LIBS, allow_fail=True)
    flags = ("-DVF_C21_PLATE",) if probe else ()
    b = {"asan": vfcore.compile_cxx("c21", [H / "c21.cxx"], "asan", libs=LIBS, flags=flags),
         "plate": probe is not None, "plate_log": log}
    if ctx.thorough:
        b["O2"] = vfcore.compile_cxx("c21", [H / "c21.cxx"], "O2", libs=LIBS, flags=flags)
    return b


def keymap(key, e):
    # an unwritten component is one defect per API, whatever the scalar type and the stratum
    if "/all-components-set" in key:
        api = e.get("api", "")
        head, _, _tail = api.partition("/all-components-set")
        head = head.rsplit(",", 1)[0] + ">"
        return head + "/all-components-set"
    return key


def run(ctx):
    b = build(ctx)
    ctx.cov["rule"] = ("case = (isotropic | orthotropic, scalar type, stratum, constants) drawn from (VERIF_SEED, index); distinct = hash of the "
                       "rounded constants per (API, stratum); every case is non-trivial (E>0, -1<nu<1/2 or SPD compliance by construction)")
    if not b["plate"]:
        msg = [l for l in b["plate_log"].splitlines() if "error" in l][:3]
        ctx.violation("computeOrthotropicStiffnessTensor<H,smt,PLATE>:not-instantiable",
                      "the PLATE axes convention (documented for 3D, plane stress, plane strain, generalised plane strain; emitted by mfront for "
                      "@OrthotropicBehaviour<Plate>) cannot be instantiated: " + " | ".join(msg),
                      {"source": str(H / "c21_plate_probe.cxx"), "compiler_output": b["plate_log"][-3000:]})
    ctx.cov["plate_convention_compiled"] = b["plate"]
    req = []
    for t in TYPES:
        for a in ("YoungNuModuli::ToKG.kappa", "KGModuli::ToYoungNu.young", "LambdaMuModuli::ToYoungNu.young", "computeLambda", "computeMu",
                  "computeIsotropicStiffnessTensor(YoungNu)", "computeKGModuli(C).kappa", "isIsotropic(C)",
                  "computeIsotropicStiffnessTensor:SPD(Cholesky)", "D:eps=lambda.tr(eps).I+2mu.eps",
                  "computeOrthotropicStiffnessTensor<3D>:SPD(Cholesky)", "C:(1,-nu12,-nu13)=(E1,0,0)"):
            req.append(("%s<%s>" % (a, t), None, 50))
        for h in HYPS:
            for s in ("ALTERED", "UNALTERED"):
                req.append(("computeIsotropicStiffnessTensor<%s,%s,%s>" % (h, s, t), None, 50))
                req.append(("computeOrthotropicStiffnessTensor<%s,%s,%s>" % (h, s, t), None, 50))
                for c in ("DEFAULT", "PIPE") + (("PLATE",) if b["plate"] and h in ("PlaneStress", "PlaneStrain", "GPStrain", "3D") else ()):
                    req.append(("computeOrthotropicStiffnessTensor<%s,%s,%s,%s>" % (h, s, c, t), None, 50))
            req.append(("computeAlteredElasticStiffness<%s,%s>" % (h, t), None, 50))
            req.append(("ComputeAlteredStiffnessTensor<%s,%s>" % (h, t), None, 50))
    ctx.run_events(b["asan"], ctx.n(50000, 400000), require=req, timeout=3600, keymap=keymap)
    if ctx.thorough:
        ctx.run_events(b["O2"], 1000000, require=[], timeout=3600, keymap=keymap)
    ctx.assumptions += [
        "PIPE convention: in plane stress / plane strain / generalised plane strain the 2nd and 3rd material axes are exchanged (tfel-material.md 'Orthotropic axes convention'), so the in-plane shear modulus is G13 and nu32 = nu23 E3/E2",
        "ALTERED in AxisymmetricalGeneralisedPlaneStress condenses the third stored component, as Lame.hxx and StiffnessTensor.ixx both do (documentation silent on which axis)",
        "isIsotropic is called with the tolerance of the documentation example (1e-6; 1e-4 in float)",
        "output tensors are pre-filled with NaN: an [out] parameter has to be completely written",
    ]
