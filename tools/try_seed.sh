#!/bin/bash
# try_seed.sh ID [checks...] — confirm a seeded change produced in /tmp/wt/ID (+ /tmp/wt/ID-scratch) and run /verif checks against it.
# 1. demo fails with the change, passes without (in the scratch worktree)   2. apply on /repo, run the checks, undo
ID=$1; shift; CHECKS=${@:-$ID}
W=/tmp/wt/$ID; S=/tmp/wt/$ID-scratch; D=/verif/seeded/$ID
mkdir -p $D; cp $S/patch.diff $S/meta.json $D/ 2>/dev/null; cp $S/demo.* $S/build.sh $D/ 2>/dev/null
if [ -z "$SKIP_DEMO" ]; then   # SKIP_DEMO=1: re-run of the checks only (the demonstration was already run both ways and stored)
cd $S
echo "== demo WITH change"; (bash ./build.sh >/dev/null 2>&1; ./demo > $D/demo_with_change.out 2>&1; echo "exit=$?" | tee -a $D/demo_with_change.out)
git -C $W apply -R $D/patch.diff
echo "== demo WITHOUT change"; (bash ./build.sh >/dev/null 2>&1; ./demo > $D/demo_without_change.out 2>&1; echo "exit=$?" | tee -a $D/demo_without_change.out)
git -C $W apply $D/patch.diff
fi
cd /verif
exec 9>/verif/build/.repo.lock; flock 9   # one modifier of /repo's working tree at a time (shared with revert_campaign.py)
git -C /repo apply $D/patch.diff || { echo "PATCH DOES NOT APPLY"; exit 2; }
# header-only change + header-only harness: do not rebuild the instrumented libraries (a miss is re-run in full)
SKIP=""; if ! grep -a "^diff --git" $D/patch.diff | grep -qv " a/include/TFEL/"; then case " C01 C02 C03 C04 C05 C06 C07 C08 C09 C10 C11 C12 C15 C16 C17 C18 C20 C21 C22 C23 C24 C25 C26 C27 C28 " in *" $ID "*) SKIP=1;; esac; fi
for c in $CHECKS; do
  echo "== ./vf check $c (quick) with the change applied (skip tree rebuild: ${SKIP:-no})"
  VF_DEBUG_SKIP_TREE_REBUILD=$SKIP ./vf check $c > $D/check_$c.out 2>&1; rc=$?
  if [ -n "$SKIP" ] && [ $rc != 1 ]; then ./vf check $c > $D/check_$c.out 2>&1; rc=$?; fi
  echo "rc=$rc" | tee -a $D/check_$c.out
  grep -a "^VIOLATION\|key=\|^OK\|^INCONC" $D/check_$c.out | head -12
done
git -C /repo checkout -- .
flock -u 9
git -C /repo status --short | head -3
