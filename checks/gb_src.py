"""gb_src.py — generators of the .mfront programs of C41/C42/C44 (templates in corpus/gen/gb,
derived from the reference behaviours of /repo/mfront/tests/behaviours).  No numpy here."""
import re

import gbx

TPL = gbx.CORPUS / "gb"

IMPLICIT_ALGOS = ["NewtonRaphson", "NewtonRaphson_NumericalJacobian", "Broyden", "Broyden2",
                  "PowellDogLeg_NewtonRaphson", "PowellDogLeg_Broyden", "LevenbergMarquardt"]
ANALYTIC_JAC = {"NewtonRaphson", "PowellDogLeg_NewtonRaphson", "LevenbergMarquardt"}
RK_ALGOS = ["euler", "rk2", "rk4", "rk42", "rk54", "rkCastem"]

JAC = """  // jacobian
  dfeel_ddeel += 2. * mu * theta * dp * iseq * (Stensor4::M() - (n ^ n));
  dfeel_ddp = n;
  dfp_ddeel = -2 * mu * theta * df_dseq * dt * n;"""
JAC_PS = """  dfeel_ddetozz(2) = -1;
  dfetozz_ddetozz = real(0);
  dfetozz_ddeel(2) = (lambda + 2 * mu) / young;
  dfetozz_ddeel(0) = lambda / young;
  dfetozz_ddeel(1) = lambda / young;"""
JAC_AGPS = """  dfeel_ddetozz(1) = -1;
  dfetozz_ddetozz = real(0);
  dfetozz_ddeel(1) = (lambda + 2 * mu) / young;
  dfetozz_ddeel(0) = lambda / young;
  dfetozz_ddeel(2) = lambda / young;"""


TANGENT_JINV = """@@NJ@@  if ((smt == ELASTIC) || (smt == SECANTOPERATOR) || (smt == TANGENTOPERATOR)) {
    computeAlteredElasticStiffness<hypothesis, Type>::exe(Dt, lambda, mu);
  } else if (smt == CONSISTENTTANGENTOPERATOR) {
    StiffnessTensor Hooke;
    Stensor4 Je;
    computeElasticStiffness<N, Type>::exe(Hooke, lambda, mu);
    getPartialJacobianInvert(Je);
    Dt = Hooke * Je;
  } else {
    return false;
  }"""
# closed form of the reference ImplicitNorton_Broyden2.mfront (no jacobian is available with the
# second Broyden method); valid for the hypotheses without axial strain unknown
TANGENT_CLOSED = """  if ((smt == ELASTIC) || (smt == SECANTOPERATOR) || (smt == CONSISTENTTANGENTOPERATOR)) {
    Dt = lambda * Stensor4::IxI() + 2 * mu * Stensor4::Id();
    if (smt == CONSISTENTTANGENTOPERATOR) {
      const real seq_e = seq + 3 * mu * theta * dp;
      if (seq_e > 1.e-8 * young) {
        const real tmp = dp / seq_e;
        const Stensor4& M = Stensor4::M();
        Dt += -4 * mu * mu * theta * (tmp * M - (tmp - df_dseq * dt / (1 + 3 * mu * theta * dt * df_dseq)) * (n ^ n));
      }
    }
  } else {
    return false;
  }"""


def sub(text, **kw):
    for k, v in kw.items():
        text = text.replace("@@%s@@" % k, str(v))
    left = re.findall(r"@@[A-Z_0-9]+@@", text)
    if left:
        raise ValueError("unsubstituted placeholders: %s" % left)
    return text


def fl(x):
    """a literal mfront reads back as the same double"""
    return repr(float(x))


def spec(name, text, slot=None, key=None, **more):
    d = {"slot": slot or name.lower(), "name": name, "text": text, "fname": name + ".mfront", "key": key or name}
    d.update(more)
    return d


def elasticity(useqt="true", suffix=""):
    t = sub((TPL / "VfElasticity.mfront").read_text(), USEQT=useqt).replace("VfElasticity", "VfElasticity" + suffix)
    return spec("VfElasticity" + suffix, t, kind="elasticity")


def repo_elasticity():
    """the repository's reference file, verbatim (behaviour name `Elasticity`)"""
    return spec("Elasticity", gbx.repo_text("mfront/tests/behaviours/Elasticity.mfront"), slot="gb-repo-elasticity",
                key="repo:Elasticity.mfront", kind="elasticity")


REPO_IMPLICIT = {
    # file stem: (algorithm, name of the equivalent viscoplastic strain, hypotheses with axial unknown supported)
    "ImplicitNorton": ("NewtonRaphson", "p"),
    "ImplicitNorton_Broyden": ("Broyden", "EquivalentViscoplasticStrain"),
    "ImplicitNorton_Broyden2": ("Broyden2", "EquivalentViscoplasticStrain"),
    "ImplicitNorton_PowellDogLegBroyden": ("PowellDogLeg_Broyden", "EquivalentViscoplasticStrain"),
    "ImplicitNorton_LevenbergMarquardt": ("LevenbergMarquardt", "p"),
}


def repo_implicit_norton(stem):
    """reference file of the repository, verbatim (Norton constants are literals of the source)"""
    algo, pname = REPO_IMPLICIT[stem]
    return spec(stem, gbx.repo_text("mfront/tests/behaviours/%s.mfront" % stem), slot="gb-repo-" + stem.lower(),
                key="repo:%s.mfront" % stem, kind="implicit_norton", algo=algo, tangent=True, pname=pname,
                fixed={"A": 8.e-67, "E": 8.2}, closed_tangent=(algo == "Broyden2"), repo=True)


def implicit_norton(algo, eps=1e-14, theta=0.5, A=8e-67, E=8.2, suffix=""):
    name = "VfImplicitNorton_" + algo.replace("NewtonRaphson", "NR").replace("NumericalJacobian", "NJ") \
        .replace("PowellDogLeg", "PDL").replace("LevenbergMarquardt", "LM") + suffix
    an = algo in ANALYTIC_JAC
    head, pert = "", ""
    if algo in ("Broyden", "PowellDogLeg_Broyden"):
        head = "@InitJacobian {\n  computeNumericalJacobian(this->jacobian);\n}"
    if algo in ("Broyden", "PowellDogLeg_Broyden", "NewtonRaphson_NumericalJacobian"):
        # the default perturbation is 0.1 x @Epsilon, useless with a tight convergence threshold (the reference
        # numerical-jacobian files set it explicitly as well)
        pert = "@PerturbationValueForNumericalJacobianComputation 1.e-9;"
    if algo == "Broyden2":
        tangent = TANGENT_CLOSED
    else:
        # (the reference Broyden files call computeNumericalJacobian in @TangentOperator; the generated
        # integrate() already refreshes the jacobian through updateOrCheckJacobian before the state update)
        tangent = TANGENT_JINV.replace("@@NJ@@", "")
    tpl = (TPL / "VfImplicitNorton.mfront.in").read_text()
    if algo == "Broyden2":
        # like the reference file: no (generalised) plane stress support (the identity is a poor first guess of
        # the inverse jacobian when an equation does not depend on its own unknown)
        tpl = re.sub(r"@@PS_BEGIN@@.*?@@PS_END@@\n", "", tpl, flags=re.S)
        hyps = "AxisymmetricalGeneralisedPlaneStrain, Axisymmetrical, PlaneStrain, GeneralisedPlaneStrain, Tridimensional"
    else:
        tpl = tpl.replace("@@PS_BEGIN@@\n", "").replace("@@PS_END@@\n", "")
        hyps = '".+"'
    t = sub(tpl, HYPS=hyps, NAME=name, ALGO=algo, EPSILON=fl(eps), THETA=fl(theta),
            A=fl(A), E=fl(E), HEAD=head, PERT=pert, JAC=JAC if an else "", JAC_PS=JAC_PS if an else "",
            JAC_AGPS=JAC_AGPS if an else "", TANGENT=tangent)
    # Broyden / PowellDogLeg_Broyden: the operator built from the quasi-Newton approximation of the jacobian is
    # approximate by construction (observed 1-10% off): not a "consistent tangent" in the sense of C42
    return spec(name, t, kind="implicit_norton", algo=algo, tangent=algo not in ("Broyden", "PowellDogLeg_Broyden"),
                analytic=an, closed_tangent=(algo == "Broyden2"),
                literals={"A": A, "E": E, "theta": theta, "epsilon": eps} if suffix else None)


def norton_rk(algo, eps=1e-10, suffix=""):
    name = "VfNorton_" + algo + suffix
    t = sub((TPL / "VfNortonRK.mfront.in").read_text(), NAME=name, ALGO=algo, EPSILON=fl(eps))
    return spec(name, t, kind="norton_rk", algo=algo, eps=eps, literals={"epsilon": eps} if suffix else None)


def norton_creep(eps=1e-12, theta=0.5, suffix=""):
    t = sub((TPL / "VfNorton.mfront").read_text(), EPSILON=fl(eps), THETA=fl(theta)).replace("VfNorton", "VfNorton" + suffix)
    return spec("VfNorton" + suffix, t, kind="norton_creep", tangent=True, literals={"theta": theta, "epsilon": eps} if suffix else None)


def plasticity(eps=1e-12, theta=1.0, useqt="true", suffix=""):
    t = sub((TPL / "VfPlasticity.mfront").read_text(), EPSILON=fl(eps), THETA=fl(theta), USEQT=useqt) \
        .replace("VfPlasticity", "VfPlasticity" + suffix)
    return spec("VfPlasticity" + suffix, t, kind="plasticity", tangent=True, literals={"theta": theta, "epsilon": eps} if suffix else None)


def brick_plasticity(eps=1e-14, theta=1.0, s0=33e6, H=2e9, suffix=""):
    t = sub((TPL / "VfBrickPlasticity.mfront").read_text(), EPSILON=fl(eps), THETA=fl(theta), S0=fl(s0), H=fl(H)) \
        .replace("VfBrickPlasticity", "VfBrickPlasticity" + suffix)
    return spec("VfBrickPlasticity" + suffix, t, kind="brick_plasticity", tangent=True,
                literals={"theta": theta, "epsilon": eps, "s0": s0, "Hp": H} if suffix else None)


def brick_norton(eps=1e-14, theta=0.5, K=100e6, E=3.2, suffix=""):
    t = sub((TPL / "VfBrickNorton.mfront").read_text(), EPSILON=fl(eps), THETA=fl(theta), K=fl(K), E=fl(E)) \
        .replace("VfBrickNorton", "VfBrickNorton" + suffix)
    return spec("VfBrickNorton" + suffix, t, kind="brick_norton", tangent=True,
                literals={"theta": theta, "epsilon": eps, "Kn": K, "En": E} if suffix else None)


def c41_specs(ctx=None, thorough=False, seed=0):
    s = [elasticity(), repo_elasticity(), norton_creep(), plasticity(), brick_plasticity(), brick_norton(),
         repo_implicit_norton("ImplicitNorton_Broyden")]
    s += [implicit_norton(a) for a in IMPLICIT_ALGOS]
    s += [norton_rk(a) for a in RK_ALGOS]
    if thorough:
        import vfcore
        s += [repo_implicit_norton(k) for k in REPO_IMPLICIT if k != "ImplicitNorton_Broyden"]
        g = vfcore.rng(seed, "c41-literals")
        # variants whose constants are literals of the source chosen by the generator
        for a in IMPLICIT_ALGOS:
            E = round(g.uniform(1.5, 9.0), 3)
            de0 = 10 ** g.uniform(-2, 0)
            v = implicit_norton(a, eps=10 ** g.uniform(-14, -10), theta=round(g.uniform(0.3, 1.0), 3),
                                A=de0 / (100e6 ** E), E=E, suffix="_v")
            v["slot"] += ""
            s.append(v)
        s.append(norton_creep(eps=10 ** g.uniform(-13, -9), theta=round(g.uniform(0.3, 1.0), 3), suffix="_v"))
        s.append(plasticity(eps=10 ** g.uniform(-13, -9), theta=round(g.uniform(0.5, 1.0), 3), useqt="false", suffix="_v"))
        s.append(brick_plasticity(eps=10 ** g.uniform(-14, -11), theta=round(g.uniform(0.5, 1.0), 3),
                                  s0=g.uniform(20e6, 400e6), H=g.uniform(0, 20e9), suffix="_v"))
        s.append(brick_norton(eps=10 ** g.uniform(-14, -11), theta=round(g.uniform(0.3, 1.0), 3),
                              K=g.uniform(50e6, 300e6), E=round(g.uniform(1.5, 8.0), 3), suffix="_v"))
        s.append(elasticity(useqt="false", suffix="_v"))
        for a in RK_ALGOS:
            s.append(norton_rk(a, eps=10 ** g.uniform(-11, -8), suffix="_v"))
    return s


# temperature dependence of the synthesised brick behaviours of C42: X(T) = X0 (1 + a (T - 293.15))  (nu: X0 + a (T - 293.15))
TDEP = {"E0": 150e9, "aE": -5e-4, "nu0": 0.3, "anu": 1e-4, "K0": 100e6, "aK": -3e-4, "n": 3.2, "R0": 150e6, "aR": -4e-4, "H0": 2e9, "aH": -2e-4}


def brick_t(kind, theta=0.5):
    d = TDEP
    E = '"%r*(1+(%r)*(T-293.15))"' % (d["E0"], d["aE"])
    nu = '"%r+(%r)*(T-293.15)"' % (d["nu0"], d["anu"])
    hooke = 'stress_potential : "Hooke" {young_modulus : %s, poisson_ratio : %s}' % (E, nu)
    if kind == "elasticity":
        name = "VfBrickTElasticity"
        brick = "@Brick StandardElasticity;\n@ElasticMaterialProperties {%s, %s};" % (E, nu)
    elif kind == "norton":
        name = "VfBrickTNorton"
        brick = ('@Brick StandardElastoViscoPlasticity {\n  %s,\n  inelastic_flow : "Norton" {criterion : "Mises", '
                 'K : "%r*(1+(%r)*(T-293.15))", n : %r}\n};' % (hooke, d["K0"], d["aK"], d["n"]))
    else:
        name = "VfBrickTPlasticity"
        brick = ('@Brick StandardElastoViscoPlasticity {\n  %s,\n  inelastic_flow : "Plastic" {criterion : "Mises", '
                 'isotropic_hardening : "Linear" {R0 : "%r*(1+(%r)*(T-293.15))", H : "%r*(1+(%r)*(T-293.15))"}}\n};'
                 % (hooke, d["R0"], d["aR"], d["H0"], d["aH"]))
    t = sub((TPL / "VfBrickT.mfront.in").read_text(), NAME=name, THETA=fl(theta), BRICK=brick)
    return spec(name, t, kind="brick_t_" + kind, tangent=True, tdep=dict(TDEP))


def c42_specs(thorough=False, seed=0):
    """behaviours of C41 that provide a consistent tangent operator"""
    base = [s for s in c41_specs(thorough=False) if s.get("tangent") or s["kind"] == "elasticity"]
    base += [brick_t("elasticity"), brick_t("norton"), brick_t("plasticity")]
    if thorough:
        base += [repo_implicit_norton(k) for k in REPO_IMPLICIT if k != "ImplicitNorton_Broyden"]
    return base


def ortho_elastic(iso):
    name = "VfOrthoIso" if iso else "VfOrthoElastic"
    if iso:
        E, nu = 150e9, 0.3
        G = E / (2 * (1 + nu))
        st = ", ".join(fl(x) for x in (E, E, E, nu, nu, nu, G, G, G))
        kind = "isotropic (the response must not depend on the material frame)"
    else:
        st = "7.8e+10, 2.64233e+11, 3.32e+11, 0.13, 0.24, 0.18, 4.8e+10, 1.16418e+11, 7.8e+10"
        kind = "orthotropic"
    t = sub((TPL / "VfOrthoIso.mfront").read_text(), STIFFNESS=st, KIND=kind).replace("VfOrthoIso", name)
    return spec(name, t, kind="ortho_iso" if iso else "ortho_elastic",
                young=150e9 if iso else None, nu=0.3 if iso else None)


def repo_ortho_svk():
    stem = "OrthotropicSaintVenantKirchhoffElasticity"
    return spec(stem, gbx.repo_text("mfront/tests/behaviours/%s.mfront" % stem), slot="gb-repo-" + stem.lower(),
                key="repo:%s.mfront" % stem, kind="ortho_finite_strain", repo=True)


ORTHO9 = (7.8e+10, 2.64233e+11, 3.32e+11, 0.13, 0.24, 0.18, 4.8e+10, 1.16418e+11, 7.8e+10)
PLANE = "PlaneStress, PlaneStrain, GeneralisedPlaneStrain"


def ortho_convention(conv, family):
    """orthotropic elasticity, three distinct moduli and Poisson ratios.
    family: computed (Default DSL, @ComputeStiffnessTensor<Altered>), required (Default DSL, @RequireStiffnessTensor<Altered>:
    only meaningful with the Default convention, the caller gives the constants in the axes of the hypothesis),
    brick (Implicit DSL, StandardElasticity brick, @ComputeStiffnessTensor<UnAltered>)"""
    name = "VfOrtho%s_%s" % ({"computed": "C", "required": "R", "brick": "B"}[family], conv)
    c9 = ", ".join(fl(x) for x in ORTHO9)
    strain_hyps = "AxisymmetricalGeneralisedPlaneStrain, Axisymmetrical, " + PLANE + ", Tridimensional"
    if conv == "Plate":
        hyps = PLANE + ", Tridimensional"
    elif family == "brick":
        hyps = '".+"'
    else:
        hyps = strain_hyps  # no axial stress equation in the Default-DSL files: no generalised plane stress
    elastic = ("@ProvidesSymmetricTangentOperator;\n@PredictionOperator {\n  static_cast<void>(smt);\n  Dt = D;\n}\n"
               "@Integrator {\n  static_cast<void>(smt);\n  sig = D * (eto + deto);\n  if (computeTangentOperator_) {\n    Dt = D;\n  }\n}\n")
    if family == "computed":
        body = "@ComputeStiffnessTensor<Altered>{%s};\n" % c9 + elastic
        how, dsl = "computed by @ComputeStiffnessTensor<Altered>", "Default"
    elif family == "required":
        body = "@RequireStiffnessTensor<Altered>;\n" + elastic
        how, dsl = "required from the caller (@RequireStiffnessTensor<Altered>)", "Default"
    else:
        body = "@Epsilon 1e-14;\n@Brick StandardElasticity;\n@ComputeStiffnessTensor<UnAltered>{%s};\n" % c9
        how, dsl = "computed by @ComputeStiffnessTensor<UnAltered> for the StandardElasticity brick", "Implicit"
    t = sub((TPL / "VfOrthoConv.mfront.in").read_text(), DSL=dsl, NAME=name, CONV=conv, HOW=how, HYPS=hyps,
            CONVOPT="" if conv == "Default" else "<%s>" % conv, BODY=body)
    return spec(name, t, kind="ortho_convention", convention=conv, family=family, constants=list(ORTHO9))


def ortho_convention_specs():
    return [ortho_convention("Pipe", "computed"), ortho_convention("Plate", "computed"), ortho_convention("Default", "required"),
            ortho_convention("Pipe", "brick"), ortho_convention("Plate", "brick")]


def c44_specs(thorough=False, seed=0):
    s = [elasticity(), implicit_norton("NewtonRaphson"), norton_creep(), plasticity(), brick_plasticity(), norton_rk("rk4"),
         ortho_elastic(True), ortho_elastic(False), repo_ortho_svk()] + ortho_convention_specs()
    if thorough:
        s += [brick_norton(), implicit_norton("LevenbergMarquardt"), norton_rk("rk54"), implicit_norton("NewtonRaphson_NumericalJacobian")]
    return s


def strain_measure_elasticity(measure, useqt="true"):
    name = "VfElasticity" + measure
    t = sub((TPL / "VfStrainMeasureElasticity.mfront.in").read_text(), NAME=name, MEASURE=measure, USEQT=useqt)
    return spec(name, t, kind="strain_measure", measure=measure)


def c55_specs(thorough=False, seed=0):
    return [strain_measure_elasticity("GreenLagrange"), strain_measure_elasticity("Hencky")]
