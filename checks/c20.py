"""C20 — physical quantities: dimension checking is sound and transparent."""
import re
import sys

import vfcore

sys.path.insert(0, str(vfcore.VERIF / "lib"))
import qtgen  # noqa: E402

META = {
    "engine": "math", "level": "exploration", "design_ref": "DESIGN.md §4.1 C20",
    "technique": "per-seed generated straight-line programs over qt<Unit,T> (lib/qtgen.py); (a) ASan+UBSan harness comparing the "
                 "value of every sub-expression bitwise with the same statement on raw T, with a static_assert per sub-expression "
                 "against the unit computed by the generator's own exponent algebra (python Fractions); (b) every ill-dimensioned "
                 "variant and its well-dimensioned twin handed to g++ -std=c++20 -fsyntax-only, the observed event being the "
                 "compiler's accept / reject and the line of its first error",
    "text": "Programs over the 7 SI base dimensions (leaf exponents -3..3, named aliases of the documentation or the quantity<> "
            "alias, rational exponents through power<N,D>), float / double / long double and mixed base types, with * / between "
            "quantities and with raw scalars, unary minus, power<N>, power<N,D>, + -, comparisons, initialisation, = += -= *= /=. "
            "(a) Transparency: each well-dimensioned program is executed on random positive values; every captured "
            "sub-expression must equal bitwise the same statement on raw floating-point variables, and its static unit and base "
            "type must equal the generator's (static_assert; a well-dimensioned program that does not compile is a violation "
            "with the program as witness). (b) Rejection: each negative program differs from its twin only by the declared unit "
            "of one fresh operand, which turns exactly one + - < <= > >= == != = += -= *= /= / initialisation / conversion into "
            "an operation between different units (quantity-quantity, and quantity against a raw number, legal only for "
            "NoUnit); g++ must reject it with its first error on that very line while the twin is accepted; acceptance of the "
            "negative is a violation, a pair whose twin is rejected or whose first error is elsewhere is inconclusive and not "
            "counted as evidence. Held on the programs generated only.",
    "note": "Half (b) monitors the COMPILER RUN (accept/reject of generated translation units), not a sanitizer: it is kept in "
            "this family because it is execution of generated inputs against an oracle. Trusted: g++ 's diagnostics, the "
            "generator's exponent algebra (python Fractions) and the SI definitions of the named aliases written in "
            "lib/qtgen.py. Unit types are always spelled in the canonical form the library produces (named alias or "
            "quantity<>); a recorded-only probe counts what happens with a non-canonical spelling (StandardUnit<1,1,-2> vs Force). "
            "square_root(q), a power 1/2, is checked by three fixed-shape programs (key C20:unit:square_root).",
}

H = vfcore.VERIF / "harness/math"
GEN = vfcore.CACHE / "c20_gen"
FLAGS = ("-ffp-contract=off",)
JOBS = 16


BASE_CMD = ["g++", "-std=c++20", "-D" + vfcore.GUARD, "-DCYRANO_ARCH=64"]


def syntax_only(path, pch=None):
    """g++ -std=c++20 -fsyntax-only with the project include flags.  pch: directory holding a precompiled
    math/c20_support.hxx.gch built a moment ago from the current /repo headers with the same flags (it only
    saves re-parsing qt.hxx 800 times; a sample of programs is cross-checked without it)"""
    cmd = BASE_CMD + ["-fsyntax-only"] + (["-I" + str(pch), "-Winvalid-pch"] if pch else []) + vfcore.include_flags("plain") + [str(path)]
    return vfcore.run(cmd, timeout=1800)


def make_pch(ctx):
    d = ctx.work / "pch"
    (d / "math").mkdir(parents=True, exist_ok=True)
    cmd = BASE_CMD + vfcore.include_flags("plain") + ["-x", "c++-header", str(H / "c20_support.hxx"), "-o", str(d / "math" / "c20_support.hxx.gch")]
    r = vfcore.run(cmd, timeout=1800)
    if r.rc != 0:
        ctx.count("pch:unavailable")
        return None
    return d


def first_error(r, path):
    """(line, message) of the first error located in the program itself; (None, msg) when only elsewhere"""
    first_any = None
    for m in re.finditer(r"^([^\s:][^:\n]*):(\d+):\d+: (?:fatal )?error: ([^\n]*)", r.err, re.M):
        if first_any is None:
            first_any = (m.group(1), int(m.group(2)), m.group(3))
        if m.group(1) == str(path):
            return int(m.group(2)), m.group(3), first_any
    return None, (first_any[2] if first_any else r.err[-300:]), first_any


def classify_twin_rejection(err):
    """why was a well-dimensioned program rejected?"""
    m = re.search(r'static assertion failed: VFQ_(UNIT|BASE) (\w+)', err)
    if m:
        return "unit" if m.group(1) == "UNIT" else "base-type", m.group(2)
    if re.search(r"use of deleted function|no match for .operator|ambiguous overload|no matching function|conversion from|cannot convert|could not convert", err):
        return "reject-well-dimensioned", None
    return None, None


def build(ctx):
    """nothing can be prebuilt independently of the syntax-only verdicts except the tree itself"""
    vfcore.ensure_tree("plain")
    vfcore.ensure_tree("asan")
    return {}


def run(ctx):
    build(ctx)
    progs = qtgen.generate(ctx.seed, ctx.tier)
    work = ctx.work / "src"
    work.mkdir(parents=True, exist_ok=True)
    ctx.cov["rule"] = ("program = generated SSA program over quantities (units, base types, operator sequence, position and kind of "
                       "the unit-constrained site) from (VERIF_SEED, tier, index); (a) evaluation = one captured sub-expression "
                       "of one program for one draw of the leaf values; (b) evaluation = one compiler run on a negative program "
                       "whose twin was accepted; distinct = distinct program texts / value hashes")
    # ---------------------------------------------------------------- compiler runs (twins, negatives, specials)
    jobs = []
    for p in progs:
        for kind in ("twin", "negative"):
            f = work / ("p%04d_%s.cxx" % (p["pid"], kind))
            f.write_text(p[kind])
            jobs.append((p, kind, f))
    specials = qtgen.special_programs(ctx.seed)
    for k, s in enumerate(specials):
        f = work / ("special%d.cxx" % k)
        f.write_text(s["source"])
        jobs.append((s, "special", f))
    spell = work / "spelling.cxx"
    spell.write_text('#include "TFEL/Math/qt.hxx"\nusing namespace tfel::math;\nvoid f(){ const qt<unit::StandardUnit<1, 1, -2, 0, 0, 0, 0>, double> a(1.);'
                     ' const qt<unit::Force, double> b(2.);\n const auto c = a + b; (void)c; }\n')
    jobs.append(({}, "spelling", spell))
    pch = make_pch(ctx)
    res = vfcore.pmap(lambda j: (j, syntax_only(j[2], pch if j[1] in ("twin", "negative") else None)), jobs, workers=JOBS)
    if pch:
        # the precompiled header must not change any verdict: re-run a sample without it
        sample = [j for j in jobs if j[1] in ("twin", "negative")][:6]
        plain = dict((str(j[2]), r.rc != 0) for j, r in vfcore.pmap(lambda j: (j, syntax_only(j[2])), sample, workers=JOBS))
        for (p, kind, f), r in res:
            if str(f) in plain and plain[str(f)] != (r.rc != 0):
                ctx.inconc("verdict of %s differs with and without the precompiled header" % f.name)
            if "invalid-pch" in r.err or ".gch: " in r.err:
                ctx.count("pch:not-used-for-some-run")
        ctx.count("pch:cross-checked-runs", len(plain))
    verdict = {}
    for (p, kind, f), r in res:
        if r.timed_out:
            ctx.inconc("compiler watchdog fired on %s" % f.name)
            continue
        if kind == "spelling":
            ctx.count("recorded:non-canonical-unit-spelling StandardUnit<1,1,-2>+Force:" + ("accepted" if r.rc == 0 else "rejected"))
            continue
        if kind == "special":
            ctx.add_eval(1)
            if r.rc != 0:
                cls, var = classify_twin_rejection(r.err)
                if cls == "unit":
                    ctx.violation("unit:%s" % p["op"],
                                  "%s of a quantity of unit %s does not have the unit of the square root (static_assert on the "
                                  "generator's exponents failed)" % (p["name"], p["unit"]),
                                  {"program": p["source"], "compiler_output": r.err[-2500:]})
                else:
                    ctx.inconc("special program %s rejected for another reason: %s" % (p["name"], r.err[-800:]))
            else:
                ctx.count("special:%s:unit-ok" % p["op"])
            continue
        verdict[(p["pid"], kind)] = (r, f)
    good = []          # programs whose twin is accepted: population of (a) and admissible pairs of (b)
    n_pairs = 0
    for p in progs:
        if (p["pid"], "twin") not in verdict or (p["pid"], "negative") not in verdict:
            continue
        rt, ft = verdict[(p["pid"], "twin")]
        rn, fn = verdict[(p["pid"], "negative")]
        site = p["site"]
        skey = "%s:%s" % (site["op"], site["variant"])
        if rt.rc != 0:
            cls, var = classify_twin_rejection(rt.err)
            line, msg, _ = first_error(rt, ft)
            stmt = p["twin"].splitlines()[line - 1].strip() if line else "?"
            if cls in ("unit", "base-type"):
                # which statement produced the value whose type is wrong
                op = "?"
                for ln in p["gen"].lines:
                    if ln.q and ln.cap and var and re.search(r"\b%s\b" % re.escape(var), ln.q.split("=")[0]):
                        op = ln.op
                ctx.violation("%s:%s" % (cls, op), "the static %s of sub-expression %s (%s) differs from the generator's exponent algebra"
                              % ("unit" if cls == "unit" else "base type", var, op),
                              {"program": p["twin"], "compiler_output": rt.err[-2500:], "base": p["base"]})
            elif cls == "reject-well-dimensioned":
                sop = next((ln.op for ln in p["gen"].lines if ln.q and ln.q.strip() == stmt and ln.op), "declaration")
                ctx.violation("reject-well-dimensioned:%s" % sop,
                              "a well-dimensioned program is rejected at line %s: %s (%s)" % (line, stmt, msg),
                              {"program": p["twin"], "compiler_output": rt.err[-2500:], "base": p["base"]})
            else:
                ctx.inconc("twin of program %d rejected for a reason the harness does not recognise: %s" % (p["pid"], msg))
            ctx.count("pairs_not_evidence:twin-rejected")
            continue
        good.append(p)
        # ---- (b)
        if rn.rc == 0:
            ctx.add_eval(1)
            ctx.count("b:negative:ACCEPTED:" + skey)
            ctx.violation("accepted:%s" % skey,
                          "an ill-dimensioned program compiles: `%s` between %s and %s (line %d) is accepted by g++ -fsyntax-only"
                          % (site["op"], site["right_unit"], site["wrong_unit"], p["site_line_negative"]),
                          {"program": p["negative"], "twin": p["twin"], "site": site, "base": p["base"]})
            continue
        line, msg, first_any = first_error(rn, fn)
        if line != p["site_line_negative"]:
            ctx.count("pairs_not_evidence:first-error-not-on-the-site-line")
            ctx.cov.setdefault("not_evidence", []).append({"pid": p["pid"], "site": site, "first_error_line": line, "expected_line": p["site_line_negative"],
                                                           "message": str(msg)[:200]})
            continue
        n_pairs += 1
        ctx.add_eval(1)
        ctx.add_distinct(vfcore.sha(p["negative"]))
        ctx.count("b:rejected-on-site:" + skey)
        why = "deleted" if "deleted" in msg else "no-match" if ("no match" in msg or "no matching" in msg) else "conversion" if "conver" in msg else \
            "ambiguous" if "ambiguous" in msg else "other"
        ctx.count("b:diagnostic:" + why)
        if len(ctx.cov["samples"]) < 3:
            ctx.sample({"half": "b", "site": site, "statement": p["negative"].splitlines()[line - 1].strip(), "g++": msg[:160]}, cap=3)
    ctx.cov["b_pairs_judged"] = n_pairs
    ctx.cov["b_pairs_planned"] = len(progs)
    ctx.require(n_pairs >= 0.9 * len(progs), "only %d of %d negative/twin pairs were admissible evidence" % (n_pairs, len(progs)))
    bad_ne = ctx.cov.get("not_evidence", [])
    if len(bad_ne) > 0.05 * len(progs):
        ctx.inconc("%d pairs had their first error away from the site line (generator slip?)" % len(bad_ne))
    # ---------------------------------------------------------------- (a) transparency harness on the accepted twins
    per_tu = 20 if not ctx.thorough else 40
    GEN.mkdir(parents=True, exist_ok=True)
    tus = []
    for k in range(0, len(good), per_tu):
        chunk = good[k:k + per_tu]
        name = "c20_s%s_%s_tu%02d" % (ctx.seed, ctx.tier[0], k // per_tu)
        src = qtgen.runtime_tu([p["gen"] for p in chunk])
        f = GEN / (name + ".cxx")
        if not f.exists() or f.read_text() != src:
            f.write_text(src)
        tus.append((name, f, chunk))

    def comp(t):
        name, f, chunk = t
        b, log = vfcore.compile_cxx(name, [f], "asan", flags=FLAGS, allow_fail=True)
        return t, b, log
    built = vfcore.pmap(comp, tus, workers=min(12, vfcore.NCPU))
    draws = ctx.n(2000, 20000)
    summ = {}
    runs = []
    for (name, f, chunk), b, log in built:
        if b is None:
            ctx.inconc("transparency harness %s does not compile although every program was accepted alone: %s" % (name, log[-1500:]))
            continue
        runs.append((name, b, chunk))
    if ctx.replay:
        c = ctx.replay.get("case") or {}
        e = c.get("event") or {}
        pid = (e.get("in") or {}).get("prog_id")
        if pid is not None:
            for name, b, chunk in runs:
                if any(p["pid"] == pid for p in chunk):
                    r = vfcore.run([b, "--seed", ctx.seed, "--cases", draws, "--only", e.get("case", 0), "--prog", pid], timeout=600, cwd=ctx.work)
                    ctx.fold_events(r, summ, where="replay", replay_base=c)
            ctx.merge_summary(summ)
        return

    def one(t):
        name, b, chunk = t
        return t, vfcore.run([b, "--seed", ctx.seed, "--cases", draws, "--tier", ctx.tier], timeout=3600, cwd=ctx.work)
    for (name, b, chunk), r in vfcore.pmap(one, runs, workers=min(16, vfcore.NCPU)):
        ctx.fold_events(r, summ, where=name, keymap=lambda key, e: "value:" + key,
                        replay_base={"harness": str(b), "tu": name, "cases": draws, "source": str(GEN / (name + ".cxx"))})
    need = {}
    for name, b, chunk in runs:
        for p in chunk:
            for ln in p["gen"].lines:
                if ln.cap:
                    k = (ln.op, p["base"])
                    need[k] = need.get(k, 0) + draws
    ctx.merge_summary(summ, [(a, s, n) for (a, s), n in sorted(need.items())])
    ctx.cov["a_programs"] = len(good)
    ctx.cov["a_draws_per_program"] = draws
    for p in progs:
        ctx.count("base:" + p["base"])
        ctx.count("site:" + p["site"]["kind"])
    ctx.assumptions += [
        "numeric transparency is judged bitwise on every captured sub-expression (the quantity operators forward to the same "
        "IEEE operation on the base type; power<N,D> is compared with tfel::math::power<N,D> on the raw value)",
        "the unit of a value is read from its static type through get_unit_exponents (the NTTP of UnitBase), then compared with the "
        "generator's exponents by std::is_same on a canonical pack; a raw arithmetic value counts as dimensionless",
        "units are spelled canonically (named aliases, quantity<>): two unit types with equal exponents but different spelling "
        "(StandardUnit<1,1,-2> vs Force) are refused by operator+ although += accepts them; recorded, see findings",
        "direct-initialisation qt<U> x(dimensionless) is an explicit construction from a number and is not used as a negative site",
    ]
