// C24 — LogarithmicStrainHandler is energetically consistent (DESIGN.md §4.1).
// One binary per space dimension: compile with -DC24_DIM=1|2|3.
//
// For a deformation gradient F (det F > 0) rounded to double the handler is built in both settings and judged against
// long-double references written from the definitions (fs_ref.hxx: cyclic Jacobi, Richardson central differences):
//   * getHenckyLogarithmicStrain == 1/2 log C (see the note on the EULERIAN setting in c24.py);
//   * S = convertToSecondPiolaKirchhoffStress(T) satisfies T : dE_log = S : dE_GL: S == T : (dE_log/dE_GL) with the
//     derivative of 1/2 log(2 E_GL + I) obtained column by column by finite differences, and the stress power along
//     random rates F'; convertFromSecondPiolaKirchhoffStress is the inverse map; the Cauchy variants give
//     sigma = F.S.F^T / J in both settings and are inverse of each other;
//   * for T(E_log) = A : E_log (A = lambda I(x)I + 2 mu I, and a general major-symmetric positive A) the converted
//     tangents are the derivatives of the converted stress: material moduli dS/dE_GL, spatial moduli (push forward),
//     Truesdell moduli (/J), Abaqus moduli (Jaumann rate of tau, /J);
//   * the raw-pointer overloads (Abaqus/Standard conventions) agree with the object overloads.
#define VFH_MAIN
#include "fs_ref.hxx"
#include <stdexcept>
#include "TFEL/Math/tensor.hxx"
#include "TFEL/Math/stensor.hxx"
#include "TFEL/Math/st2tost2.hxx"
#include "TFEL/Material/LogarithmicStrainHandler.hxx"

#ifndef C24_DIM
#error "compile with -DC24_DIM=1|2|3"
#endif

using namespace ref;
namespace tfm = tfel::math;
namespace tmat = tfel::material;

static vf::Reporter R;
static constexpr unsigned short N = C24_DIM;
static constexpr int ns = ssize(N), nt = tsize(N);
static constexpr L EPS = std::numeric_limits<double>::epsilon();
using real = double;
using TensorN = tfm::tensor<N, real>;
using StensorN = tfm::stensor<N, real>;
using ST2 = tfm::st2tost2<N, real>;
using Handler = tmat::LogarithmicStrainHandler<N, real>;
using fsr::KM;

static TensorN mk_t(const M3& m) { TensorN t; const auto v = to_t(m, N); for (int k = 0; k < nt; ++k) t[k] = double(v[k]); return t; }
static StensorN mk_s(const M3& m) { StensorN s; const auto v = to_st(m, N); for (int k = 0; k < ns; ++k) s[k] = double(v[k]); return s; }
static KM km_of(const ST2& k) { KM r = fsr::km_zero(ns, ns); for (int p = 0; p < ns; ++p) for (int q = 0; q < ns; ++q) r.a[p][q] = k(p, q); return r; }
static ST2 st2_of(const KM& k) { ST2 r; for (int p = 0; p < ns; ++p) for (int q = 0; q < ns; ++q) r(p, q) = double(k.a[p][q]); return r; }
// Mandel vector <-> matrix, restricted to dimension N
static M3 from_vec(const L* v) { M3 m = zero(); for (int k = 0; k < ns; ++k) { if (k < 3) m[k][k] = v[k]; else { m[SI[k]][SJ[k]] = v[k] / SQ2; m[SJ[k]][SI[k]] = v[k] / SQ2; } } return m; }
// y = K x (Mandel), x^T K
static M3 km_apply(const KM& k, const M3& x) { const auto xv = to_st(x, N); L y[6] = {}; for (int p = 0; p < ns; ++p) for (int q = 0; q < ns; ++q) y[p] += k.a[p][q] * xv[q]; return from_vec(y); }
static M3 km_apply_left(const M3& x, const KM& k) { const auto xv = to_st(x, N); L y[6] = {}; for (int p = 0; p < ns; ++p) for (int q = 0; q < ns; ++q) y[q] += xv[p] * k.a[p][q]; return from_vec(y); }
// minor-symmetric T4 of a Mandel matrix and back
static T4 t4_of(const KM& k) {
  T4 t = t4zero();
  for (int p = 0; p < ns; ++p) for (int q = 0; q < ns; ++q) {
    L w = k.a[p][q];
    if (p >= 3) w /= SQ2;
    if (q >= 3) w /= SQ2;
    const int i = SI[p], j = SJ[p], kk = SI[q], l = SJ[q];
    t.v[i][j][kk][l] = w; t.v[j][i][kk][l] = w; t.v[i][j][l][kk] = w; t.v[j][i][l][kk] = w;
  }
  return t;
}
static KM km_of(const T4& t) { KM k = fsr::km_zero(ns, ns); for (int p = 0; p < ns; ++p) for (int q = 0; q < ns; ++q) k.a[p][q] = st2tost2_comp(t, p, q); return k; }

// ---- case generation ------------------------------------------------------------------------------------------
// equal*-rotated: stretches <= 1.5, so that the rounding noise of the eigenvalues of C (a few ulps of 2.25) stays below the
// handler's eps = 1e-14 and the pair is merged; equal*-rotated-large: stretches in [2.5,5], where that noise is of the
// order of eps (the pair may or may not be merged, and when it is not the divided differences are taken between noise)
enum { ST_GENERIC, ST_MODERATE, ST_EQ2_AXES, ST_EQ3_AXES, ST_EQ2_ROT, ST_EQ3_ROT, ST_EQ2_ROT_LARGE, ST_EQ3_ROT_LARGE, ST_NEAR0 };
static const char* const STRATA[] = {"generic", "moderate", "equal2-axes", "equal3-axes", "equal2-rotated", "equal3-rotated",
                                     "equal2-rotated-large", "equal3-rotated-large",
                                     "near:gapC=1e-3..1e-1", "near:gapC=1e-5..1e-3", "near:gapC=1e-7..1e-5", "near:gapC=1e-9..1e-7",
                                     "near:gapC=1e-11..1e-9", "near:gapC=1e-13..1e-11", "near:gapC=1e-14..1e-13", "near:gapC<5e-15(merged)", "near3"};
static constexpr int NNEAR = 8;
static constexpr int NSTRATA = ST_NEAR0 + NNEAR + 1;
// bounds of the decimal exponent of the gap between two eigenvalues of C in the "near" strata
static const double NEAR_LO[NNEAR] = {-3, -5, -7, -9, -11, -13, -14, -17};
static const double NEAR_HI[NNEAR] = {-1, -3, -5, -7, -9, -11, -13, -14.3};

static void gen_stretches(vf::Rng& g, L lo, L hi, L mingap, L* a) {
  for (int tries = 0; tries < 1000; ++tries) {
    for (int i = 0; i < 3; ++i) a[i] = std::exp(g.uni(double(std::log(lo)), double(std::log(hi))));
    bool ok = true;
    for (int i = 0; i < 3; ++i) for (int j = i + 1; j < 3; ++j) ok = ok && std::fabs(std::log(a[i] / a[j])) >= mingap;
    if (ok) return;
  }
}
static M3 diag3(const L* a) { M3 d = zero(); for (int i = 0; i < 3; ++i) d[i][i] = a[i]; return d; }
static M3 gen_F(vf::Rng& g, int st) {
  L a[3];
  // index of the eigenvalue not in the (nearly) equal pair: the out-of-plane one in 2D
  const int k = (N == 3) ? g.irange(0, 2) : 2;
  const int i1 = (k + 1) % 3, i2 = (k + 2) % 3;
  bool rotate = true;
  switch (st) {
    case ST_GENERIC: gen_stretches(g, 0.2L, 5, 0.02L, a); break;
    case ST_MODERATE: gen_stretches(g, 0.5L, 2, 0.02L, a); break;
    case ST_EQ2_AXES: gen_stretches(g, 0.25L, 4, 0.05L, a); a[i2] = a[i1]; rotate = false; break;
    case ST_EQ3_AXES: gen_stretches(g, 0.25L, 4, 0.05L, a); a[1] = a[2] = a[0]; rotate = false; break;
    case ST_EQ2_ROT: gen_stretches(g, 0.25L, 1.5L, 0.05L, a); a[i2] = a[i1]; break;
    case ST_EQ3_ROT: gen_stretches(g, 0.25L, 1.5L, 0.05L, a); a[1] = a[2] = a[0]; break;
    case ST_EQ2_ROT_LARGE: gen_stretches(g, 2.5L, 5, 0.05L, a); a[i2] = a[i1]; break;
    case ST_EQ3_ROT_LARGE: gen_stretches(g, 2.5L, 5, 0.05L, a); a[1] = a[2] = a[0]; break;
    default: {
      if (st == ST_NEAR0 + NNEAR - 1) gen_stretches(g, 0.25L, 1.5L, 0.05L, a);
      else gen_stretches(g, 0.25L, 4, 0.05L, a);
      if (st == ST_NEAR0 + NNEAR) {  // three eigenvalues of C within a small distance
        const L d1 = g.logmag(-12, -2), d2 = g.logmag(-12, -2);
        a[1] = std::sqrt(a[0] * a[0] + d1); a[2] = std::sqrt(a[0] * a[0] - d2);
      } else {
        const int d = st - ST_NEAR0;
        const L gap = g.logmag(NEAR_LO[d], NEAR_HI[d]);
        a[i2] = std::sqrt(a[i1] * a[i1] + gap);
      }
    }
  }
  if (!rotate || N == 1) return diag3(a);
  const M3 q = random_rotation(g, N), r = random_rotation(g, N);
  return mul(r, sym(mul(mul(q, diag3(a)), tr(q))));
}
// major-symmetric positive definite "elastic" tensor in the logarithmic space
static KM gen_A(vf::Rng& g, bool iso, L scale) {
  KM a = fsr::km_zero(ns, ns);
  if (iso) {
    const L lam = scale * g.uni(0, 3), mu = scale * g.uni(0.3, 1.5);
    for (int p = 0; p < ns; ++p) { a.a[p][p] = 2 * mu; if (p < 3) for (int q = 0; q < 3; ++q) a.a[p][q] += lam; }
    return a;
  }
  L b[6][6];
  for (int p = 0; p < ns; ++p) for (int q = 0; q < ns; ++q) b[p][q] = g.uni(-1, 1);
  for (int p = 0; p < ns; ++p) for (int q = 0; q < ns; ++q) {
    L s = (p == q) ? 0.5L : 0;
    for (int r = 0; r < ns; ++r) s += b[p][r] * b[q][r] / ns;
    a.a[p][q] = scale * s;
  }
  return a;
}

// ---- references ---------------------------------------------------------------------------------------------
// P(C) = dE_log/dE_GL at C (Mandel matrix), by finite differences of E -> 1/2 log(2E + I)
static KM dElog_dEgl(const M3& C, L vpmin) {
  KM P = fsr::km_zero(ns, ns);
  const M3 I = eye();
  const M3 E = scal(add(C, I, -1), 0.5L);
  auto fun = [&](const M3& X) { fsr::Multi<1> o; o.v[0] = scal(fsr::logm(add(scal(X, 2), I)), 0.5L); return o; };
  for (int q = 0; q < ns; ++q) {
    const fsr::MEst<1> e = fsr::richardson<1>(fun, E, fsr::sym_dir(q), vpmin / 1024);
    fsr::set_col_s(P, q, e.d[0], N); fsr::add_est(P, e.est[0], e.ok[0]);
  }
  return P;
}
// S(C) = (A : E_log(C)) : P(C)
struct SofC { M3 S; L est; bool ok; };
static SofC S_of_C_general(const KM& A, const M3& C, L vpmin) {
  const KM P = dElog_dEgl(C, vpmin);
  const M3 T = km_apply(A, scal(fsr::logm(C), 0.5L));
  return {km_apply_left(T, P), P.est * norm(T), P.ok};
}

struct Case {
  TensorN Fd; M3 F, C; L J, vpmin, vpmax, gapC;  // gapC: smallest distance between eigenvalues of C that the library may see coalescing
};

static M3 fd_random_dir(vf::Rng& g) { const M3 d = random_gen(g, N); const L n = norm(d); return n > 0 ? scal(d, 1 / n) : fsr::gen_dir(0); }

template <typename Fn>
static bool throws(Fn&& f) { try { f(); } catch (std::exception&) { return true; } return false; }

static const char* SETTING[] = {"LAGRANGIAN", "EULERIAN"};

static void one_case(const vf::Args& a, uint64_t idx) {
  vf::Rng g(a.seed, 2400 + N, idx);
  const int st = int(idx % NSTRATA);
  const char* S = STRATA[st];
  const bool strict_eulerian = a.get("--strict-eulerian", "0") == "1";
  Case c;
  c.Fd = mk_t(gen_F(g, st));
  c.F = from_t(c.Fd, N);
  c.J = det(c.F);
  if (!(c.J > 0)) { R.skip("case", S); return; }
  c.C = fsr::rcg(c.F);
  {
    V3 w; M3 v; jacobi(c.C, w, v);
    c.vpmin = std::min(w[0], std::min(w[1], w[2])); c.vpmax = std::max(w[0], std::max(w[1], w[2]));
    if (N == 3) c.gapC = std::min(std::fabs(w[0] - w[1]), std::min(std::fabs(w[0] - w[2]), std::fabs(w[1] - w[2])));
    else if (N == 2) {  // the out-of-plane eigenvalue is the one whose eigenvector is e_z
      int kz = 0; for (int k = 1; k < 3; ++k) if (std::fabs(v[2][k]) > std::fabs(v[2][kz])) kz = k;
      c.gapC = std::fabs(w[(kz + 1) % 3] - w[(kz + 2) % 3]);
    } else c.gapC = 1;
  }
  const L condC = c.vpmax / c.vpmin;
  const L A_ = norm(c.F), B_ = norm(inv(c.F));
  uint64_t h = vf::hash_arr(&c.Fd[0], nt);
  L scale = (g.irange(0, 2) == 0) ? 1 : L(g.logmag(-3, 11));
  const bool iso = (idx / NSTRATA) % 4 != 3;
  const KM Aref0 = gen_A(g, iso, scale);
  const ST2 Ksd = st2_of(Aref0);
  const KM A = km_of(Ksd);   // rounded to double: what the library sees
  const StensorN Trd = mk_s(random_sym(g, N, scale));   // a general symmetric dual stress for the stress conversions
  const M3 Tr = from_st(Trd, N);
  auto dump = [&] {
    vf::J j;
    double ks[36]; for (int p = 0; p < ns; ++p) for (int q = 0; q < ns; ++q) ks[p * ns + q] = Ksd(p, q);
    j.i("N", N).s("law", iso ? "isotropic" : "anisotropic").arr("F", &c.Fd[0], &c.Fd[0] + nt).arr("T", &Trd[0], &Trd[0] + ns).arr("Ks", ks, ks + ns * ns);
    j.d("gapC", c.gapC).d("vpmin", c.vpmin).d("vpmax", c.vpmax);
    return j.str();
  };
  char api[160];
  auto nm = [&](const char* f, int setting) { std::snprintf(api, sizeof api, "%s<%d>@%s", f, int(N), SETTING[setting]); vf::set_case(api, S, idx); return api; };
  auto nm2 = [&](const char* f, int setting, const char* law) { std::snprintf(api, sizeof api, "%s<%d>@%s,%s", f, int(N), SETTING[setting], law); vf::set_case(api, S, idx); return api; };

  // references shared by both settings
  const M3 Elog = scal(fsr::logm(c.C), 0.5L);
  const KM P = dElog_dEgl(c.C, c.vpmin);
  const M3 Sr_ref = km_apply_left(Tr, P);                       // S = T : dE_log/dE_GL
  const M3 sig_ref = scal(mul(mul(c.F, Sr_ref), tr(c.F)), 1 / c.J);
  const L nT = norm(Tr);
  // regularisation allowance: eigenvalues of C closer than the handler's eps = 1e-14 are treated as equal, which
  // changes dE_log/dC by at most eps * sup|d3 log| ~ eps / vpmin^3 (relative: eps / vpmin)
  const L REG = 1e-14L / c.vpmin;
  // Conditioning accepted for the handler's algorithm (divided differences (e_i - e_j)/(vp_i - vp_j) between eigenvalues
  // of C that are not merged by eps): 1 + vpmax/gap per order of divided difference, as for the isotropic-function
  // derivative (C05): one order for the stress conversions, two for the tangent conversions.  The
  // library sees eigenvalues that differ from the exact ones by a few ulps of vpmax: within that distance of eps the
  // pair may or may not be merged.  The allowance is capped: at most CAP x |reference| (a conversion off by more than
  // 1e-3 is not "equal" to the derivative whatever the conditioning), never below the well-conditioned allowance.
  const L slack = 8 * EPS * c.vpmax;
  const L kappa1 = (N == 1 || c.gapC + slack < 1e-14L) ? 1 : 1 + c.vpmax / std::max(c.gapC - slack, 1e-14L);
  static constexpr L CAP = 1e-3L;
  // order = 1: stress conversions (first divided differences); order = 2: tangent conversions (second ones)
  auto allow = [&](L K, L scale, L refnorm, int order = 1) {
    const L base = (K * EPS + REG) * scale;
    return std::min(base * (order == 2 ? kappa1 * kappa1 : kappa1), std::max(CAP * refnorm, base));
  };
  // two evaluations of the library on inputs that differ by rounding (pointer overloads) are only compared where the
  // conversions are well conditioned
  const bool wellcond = kappa1 < 1e3L;

  for (int setting = 0; setting < 2; ++setting) {
    const auto hs = setting == 0 ? Handler::LAGRANGIAN : Handler::EULERIAN;
    vf::set_case("LogarithmicStrainHandler()", S, idx);
    const Handler hd(hs, c.Fd);
    // ---- A. the Hencky strain --------------------------------------------------------------------------------
    {
      const StensorN e = hd.getHenckyLogarithmicStrain();
      const L tolE = 512 * EPS * (norm(Elog) + condC);
      if (setting == 0 || !strict_eulerian) R.check(nm("getHenckyLogarithmicStrain==1/2logC", setting), S, idx, h, dist(from_st(e, N), Elog), tolE, dump);
      else R.check(nm("getHenckyLogarithmicStrain==1/2logb", setting), S, idx, h, dist(from_st(e, N), fsr::elog_eulerian(c.F)), tolE, dump);
      if (setting == 1) {
        // whatever the reading of the EULERIAN setting, the principal values are the logarithms of the principal stretches
        const V3 w1 = eigvals_sorted(from_st(e, N)), w2 = eigvals_sorted(Elog);
        L d = 0; for (int k = 0; k < 3; ++k) d = std::max(d, std::fabs(w1[k] - w2[k]));
        R.check(nm("eigenvalues(getHenckyLogarithmicStrain)==log(stretches)", setting), S, idx, h, d, tolE, dump);
      }
      real tab[6];
      hd.getHenckyLogarithmicStrain(tab);
      L d = 0;
      for (int k = 0; k < ns; ++k) d = std::max(d, std::fabs(L(tab[k]) - L(k < 3 ? e[k] : e[k] * double(SQ2))));
      R.check(nm("getHenckyLogarithmicStrain(ptr)==object(engineering shear)", setting), S, idx, h, d, 32 * EPS * (norm(Elog) + 1), dump);
    }
    // ---- B. dual stress <-> second Piola-Kirchhoff stress (LAGRANGIAN only: documented to throw otherwise) -------
    if (setting == 0) {
      const StensorN Sl = hd.convertToSecondPiolaKirchhoffStress(Trd);
      const M3 Slm = from_st(Sl, N);
      const L scS = nT / c.vpmin * condC;
      if (P.ok) R.check(nm("convertToSecondPiolaKirchhoffStress==T:dElog/dEgl", setting), S, idx, h, dist(Slm, Sr_ref), 50 * P.est * nT + allow(64, scS, norm(Sr_ref)), dump);
      else R.skip(nm("convertToSecondPiolaKirchhoffStress==T:dElog/dEgl", setting), S);
      // stress power along random rates of deformation gradient
      for (int r = 0; r < 2; ++r) {
        const M3 Fdot = fd_random_dir(g);
        auto fun = [&](const M3& X) { fsr::Multi<1> o; o.v[0] = fsr::elog_lagrangian(X); return o; };
        const fsr::MEst<1> e = fsr::richardson<1>(fun, c.F, Fdot, std::sqrt(c.vpmin) / 1024);
        if (!e.ok[0]) { R.skip(nm("stress-power T:dElog==S:dEgl", setting), S); continue; }
        const M3 Egl_dot = sym(mul(tr(c.F), Fdot));
        const L p1 = dot(Tr, e.d[0]), p2 = dot(Slm, Egl_dot);
        R.check(nm("stress-power T:dElog==S:dEgl", setting), S, idx, h, std::fabs(p1 - p2), 50 * e.est[0] * nT + allow(64, scS, norm(Sr_ref)) * norm(Egl_dot), dump);
      }
      StensorN Tb;
      try {
        Tb = hd.convertFromSecondPiolaKirchhoffStress(Sl);
      } catch (std::exception& e) {   // e.g. LUNullPivot from invert(p)
        R.check(nm("convertFromSecondPiolaKirchhoffStress(convertTo...)==T", setting), S, idx, h, INFINITY, 1, dump, "exception");
        continue;
      }
      R.check(nm("convertFromSecondPiolaKirchhoffStress(convertTo...)==T", setting), S, idx, h, dist(from_st(Tb, N), Tr), allow(1024, nT * condC * condC, nT), dump);
      // raw-pointer overloads
      real tab[6]; Trd.exportTab(tab);
      hd.convertToSecondPiolaKirchhoffStress(tab);
      StensorN Sp; Sp.importTab(tab);
      if (wellcond) R.check(nm("convertToSecondPiolaKirchhoffStress(ptr)==object", setting), S, idx, h, dist(from_st(Sp, N), Slm), 64 * EPS * scS, dump);
      else R.skip(nm("convertToSecondPiolaKirchhoffStress(ptr)==object", setting), S);
      hd.convertFromSecondPiolaKirchhoffStress(tab);
      StensorN Tp; Tp.importTab(tab);
      if (wellcond) R.check(nm("convertFromSecondPiolaKirchhoffStress(ptr)==object", setting), S, idx, h, dist(from_st(Tp, N), from_st(Tb, N)), (256 * EPS) * nT * condC * condC, dump);
      else R.skip(nm("convertFromSecondPiolaKirchhoffStress(ptr)==object", setting), S);
    } else if (N > 1) {
      R.expect(nm("convertToSecondPiolaKirchhoffStress throws", setting), S, idx, h, throws([&] { (void)hd.convertToSecondPiolaKirchhoffStress(Trd); }), dump);
      R.expect(nm("convertFromSecondPiolaKirchhoffStress throws", setting), S, idx, h, throws([&] { (void)hd.convertFromSecondPiolaKirchhoffStress(Trd); }), dump);
      R.expect(nm("convertToMaterialTangentModuli throws", setting), S, idx, h, throws([&] { (void)hd.convertToMaterialTangentModuli(Ksd, Trd); }), dump);
    }
    // ---- C. dual stress <-> Cauchy stress (both settings) ---------------------------------------------------------
    {
      const StensorN sl = hd.convertToCauchyStress(Trd);
      const L scs = nT * condC * condC * A_ * A_ / (c.J * c.vpmax);
      if (P.ok) R.check(nm("convertToCauchyStress==F.S.F^T/J", setting), S, idx, h, dist(from_st(sl, N), sig_ref), 50 * P.est * nT * A_ * A_ / c.J + allow(64, scs, norm(sig_ref)), dump);
      else R.skip(nm("convertToCauchyStress==F.S.F^T/J", setting), S);
      StensorN Tb;
      try {
        Tb = hd.convertFromCauchyStress(sl);
      } catch (std::exception& e) {
        R.check(nm("convertFromCauchyStress(convertTo...)==T", setting), S, idx, h, INFINITY, 1, dump, "exception");
        continue;
      }
      R.check(nm("convertFromCauchyStress(convertTo...)==T", setting), S, idx, h, dist(from_st(Tb, N), Tr), allow(4096, nT * condC * condC * condC, nT), dump);
      real tab[6]; Trd.exportTab(tab);
      hd.convertToCauchyStress(tab);
      StensorN sp; sp.importTab(tab);
      if (wellcond) R.check(nm("convertToCauchyStress(ptr)==object", setting), S, idx, h, dist(from_st(sp, N), from_st(sl, N)), 64 * EPS * scs, dump);
      else R.skip(nm("convertToCauchyStress(ptr)==object", setting), S);
      hd.convertFromCauchyStress(tab);
      StensorN Tp; Tp.importTab(tab);
      if (wellcond) R.check(nm("convertFromCauchyStress(ptr)==object", setting), S, idx, h, dist(from_st(Tp, N), from_st(Tb, N)), (256 * EPS) * nT * condC * condC * condC, dump);
      else R.skip(nm("convertFromCauchyStress(ptr)==object", setting), S);
    }
  }

  // ---- D. tangent conversions for T(E_log) = A : E_log --------------------------------------------------------------
  {
    const char* law = iso ? "isotropic" : "anisotropic";
    const M3 T = km_apply(A, Elog);
    const StensorN Td = mk_s(T);
    const L nTl = norm(T), nA = A.norm();
    // reference material moduli dS/dE_GL by finite differences of the converted stress S(E_GL)
    KM dS = fsr::km_zero(ns, ns);
    {
      const M3 I = eye();
      const M3 E = scal(add(c.C, I, -1), 0.5L);
      if (iso) {
        // closed form of the Hencky model: S = lam ln J C^-1 + mu C^-1 log C
        fsr::Mat m; m.kind = fsr::HENCKY; m.lam = A.a[0][1]; m.mu = (A.a[0][0] - A.a[0][1]) / 2;
        auto fun = [&](const M3& X) { fsr::Multi<1> o; o.v[0] = fsr::S_of_C(m, add(scal(X, 2), I)); return o; };
        for (int q = 0; q < ns; ++q) {
          const fsr::MEst<1> e = fsr::richardson<1>(fun, E, fsr::sym_dir(q), c.vpmin / 1024);
          fsr::set_col_s(dS, q, e.d[0], N); fsr::add_est(dS, e.est[0], e.ok[0]);
        }
      } else {
        L inner = 0; bool inner_ok = true;
        auto fun = [&](const M3& X) { const SofC s = S_of_C_general(A, add(scal(X, 2), I), c.vpmin); inner = std::max(inner, s.est); inner_ok = inner_ok && s.ok; fsr::Multi<1> o; o.v[0] = s.S; return o; };
        const L hh = c.vpmin / 256;
        for (int q = 0; q < ns; ++q) {
          const fsr::MEst<1> e = fsr::richardson<1>(fun, E, fsr::sym_dir(q), hh);
          fsr::set_col_s(dS, q, e.d[0], N);
          // the error of the inner differences is amplified by the outer difference quotient
          fsr::add_est(dS, e.est[0] + 4 * inner / (hh / 4), e.ok[0] && inner_ok);
        }
      }
    }
    // reference stresses and spatial quantities (algebra on the references)
    const M3 Sref = km_apply_left(T, P);
    const M3 tau = mul(mul(c.F, Sref), tr(c.F));
    const T4 cs4 = t4push(t4_of(dS), c.F);                       // c_ijkl = F_iI F_jJ F_kK F_lL (dS/dE)_IJKL
    const KM cs = km_of(cs4);
    T4 cj4 = cs4;                                                // Jaumann: C:d = c:d + d.tau + tau.d
    VF_FOR4 cj4.v[i][j][k][l] += 0.5L * ((i == k ? tau[j][l] : 0) + (i == l ? tau[j][k] : 0) + (j == l ? tau[i][k] : 0) + (j == k ? tau[i][l] : 0));
    const KM cj = km_of(cj4);
    const L A4 = A_ * A_ * A_ * A_;
    const L est_sp = dS.est * A4 + P.est * nTl * A_ * A_;
    const L sc_mat = (nA + nTl) / (c.vpmin * c.vpmin) * condC;
    const L sc_sp = sc_mat * A4;
    for (int setting = 0; setting < 2; ++setting) {
      const auto hs = setting == 0 ? Handler::LAGRANGIAN : Handler::EULERIAN;
      const Handler hd(hs, c.Fd);
      if (!dS.ok || !P.ok) { R.skip(nm2("tangent-conversions", setting, law), S); continue; }
      if (a.get("--debug", "0") == "1" && setting == 0) {
        const KM k = km_of(hd.convertToMaterialTangentModuli(Ksd, Td));
        std::printf("DEBUG case %llu %s law=%s gapC=%Lg vp=[%Lg,%Lg] |dS_ref|=%Lg |dS_lib|=%Lg err=%Lg est=%Lg P.est=%Lg\n", (unsigned long long)idx, S, law,
                    c.gapC, c.vpmin, c.vpmax, dS.norm(), k.norm(), fsr::km_dist(k, dS), dS.est, P.est);
        for (int p = 0; p < ns; ++p) { for (int q = 0; q < ns; ++q) std::printf(" %12.5Lg/%-12.5Lg", k.a[p][q], dS.a[p][q]); std::printf("\n"); }
      }
      if (setting == 0) {
        const KM k = km_of(hd.convertToMaterialTangentModuli(Ksd, Td));
        R.check(nm2("convertToMaterialTangentModuli==dS/dEgl", setting, law), S, idx, h, fsr::km_dist(k, dS), 50 * dS.est + allow(256, sc_mat, dS.norm(), 2), dump);
      }
      {
        const KM k = km_of(hd.convertToSpatialTangentModuli(Ksd, Td));
        R.check(nm2("convertToSpatialTangentModuli==push_forward(dS/dEgl)", setting, law), S, idx, h, fsr::km_dist(k, cs), 50 * est_sp + allow(256, sc_sp, cs.norm(), 2), dump);
      }
      {
        const ST2 kt = hd.convertToCauchyStressTruesdellRateTangentModuli(Ksd, Td);
        KM r = cs; for (auto& row : r.a) for (L& x : row) x /= c.J;
        R.check(nm2("convertToCauchyStressTruesdellRateTangentModuli==spatial/J", setting, law), S, idx, h, fsr::km_dist(km_of(kt), r), (50 * est_sp + allow(256, sc_sp, cs.norm(), 2)) / c.J, dump);
        // raw-pointer overload: column-major Voigt matrix (Abaqus/Standard DDSDDE) and stress in Voigt notation
        real K[36], Tt[6];
        for (int p = 0; p < ns; ++p) for (int q = 0; q < ns; ++q) K[p + ns * q] = Ksd(p, q) / ((p >= 3 ? double(SQ2) : 1.0) * (q >= 3 ? double(SQ2) : 1.0));
        Td.exportTab(Tt);
        hd.convertToCauchyStressTruesdellRateTangentModuli(K, Tt);
        L d = 0, sc = 0;
        for (int p = 0; p < ns; ++p) for (int q = 0; q < ns; ++q) {
          const L v = L(K[p + ns * q]) * ((p >= 3 ? SQ2 : 1) * (q >= 3 ? SQ2 : 1));
          d = std::max(d, std::fabs(v - L(kt(p, q)))); sc = std::max(sc, std::fabs(L(kt(p, q))));
        }
        if (wellcond) R.check(nm2("convertToCauchyStressTruesdellRateTangentModuli(ptr)==object", setting, law), S, idx, h, d, 256 * EPS * (sc + sc_sp / c.J), dump);
        else R.skip(nm2("convertToCauchyStressTruesdellRateTangentModuli(ptr)==object", setting, law), S);
      }
      // convertToAbaqusTangentModuli does not exist in 1D
      [&](const auto& hh) {
        if constexpr (requires { hh.convertToAbaqusTangentModuli(Ksd, Td); }) {
        const ST2 ka = hh.convertToAbaqusTangentModuli(Ksd, Td);
        KM r = cj; for (auto& row : r.a) for (L& x : row) x /= c.J;
        R.check(nm2("convertToAbaqusTangentModuli==JaumannModuli(tau)/J", setting, law), S, idx, h, fsr::km_dist(km_of(ka), r),
                (50 * est_sp + allow(256, sc_sp + norm(tau), cj.norm(), 2)) / c.J, dump);
        real K[36], Tt[6];
        for (int p = 0; p < ns; ++p) for (int q = 0; q < ns; ++q) K[p + ns * q] = Ksd(p, q) / ((p >= 3 ? double(SQ2) : 1.0) * (q >= 3 ? double(SQ2) : 1.0));
        Td.exportTab(Tt);
        hh.convertToAbaqusTangentModuli(K, Tt);
        L d = 0, sc = 0;
        for (int p = 0; p < ns; ++p) for (int q = 0; q < ns; ++q) {
          const L v = L(K[p + ns * q]) * ((p >= 3 ? SQ2 : 1) * (q >= 3 ? SQ2 : 1));
          d = std::max(d, std::fabs(v - L(ka(p, q)))); sc = std::max(sc, std::fabs(L(ka(p, q))));
        }
        if (wellcond) R.check(nm2("convertToAbaqusTangentModuli(ptr)==object", setting, law), S, idx, h, d, 512 * EPS * (sc + sc_sp / c.J), dump);
        else R.skip(nm2("convertToAbaqusTangentModuli(ptr)==object", setting, law), S);
              }
      }(hd);
    }
  }
}

// an exception escaping the library on an admissible input ends the case (reported by the guarded call when it is one of
// the conversions that invert dE_log/dC, otherwise here), never the run
static void guarded_case(const vf::Args& a, uint64_t idx) {
  try {
    one_case(a, idx);
  } catch (std::exception& e) {
    char api[64];
    std::snprintf(api, sizeof api, "exception-escapes<%d>@any", int(N));
    std::string w = e.what();
    for (char& ch : w) if (ch == '"' || ch == '\\' || static_cast<unsigned char>(ch) < 0x20) ch = ' ';
    R.check(api, STRATA[idx % NSTRATA], idx, idx, INFINITY, 1, [&] { vf::J j; j.i("N", N).i("case", (long long)idx).s("what", w); return j.str(); }, "exception");
  }
}

int main(int argc, char** argv) {
  vf::Args a(argc, argv);
  if (a.only >= 0) { guarded_case(a, uint64_t(a.only)); R.finish(); return 0; }
  for (long i = 0; i < a.cases; ++i) guarded_case(a, a.gidx(i));
  R.finish();
  return 0;
}
