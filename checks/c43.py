"""C43 — brick-generated implicit Jacobians are exact (DESIGN.md §4.4)."""
import os
import re

import vfcore
import gbx
import gen
from checks import gb_src43 as S

META = {
    "engine": "gen", "level": "exploration", "design_ref": "DESIGN.md §4.4 C43",
    "technique": "the generator's own runtime monitor: brick configurations harvested from the repository's test behaviours are regenerated with @CompareToNumericalJacobian (+ perturbation and criterion) and mfront --debug, driven along strain paths in a worker process whose stdout (mismatch blocks, Newton iteration reports) is captured and parsed",
    "text": "Configuration space = (a) every StandardElastoViscoPlasticity / StandardElasticity / DDIF2 brick file of mfront/tests/behaviours that uses an analytical jacobian (103 files) and (b) synthesised StandardElastoViscoPlasticity files: every stress criterion registered in the brick factory (checked against `mfront --list-stress-criteria`: Mises, Hill, Hosford, Barlat, Drucker 1949, Cazacu 2001, isotropic/orthotropic Cazacu 2004, MohrCoulomb, GTN, Rousselier-Tanguy-Besson, Michel-Suquet) x {associated, non associated with a deviatoric flow criterion, non associated with a non deviatoric one} x {Plastic, Norton, HyperbolicSine} x {no hardening, linear isotropic, Armstrong-Frederick} = 324 files, MPa, screened by running the generator (combinations it rejects are counted). Quick: for every criterion one associated and one non associated synthesised configuration (flows and hardenings rotating; criteria with a non deviatoric normal are taken with a deviatoric flow criterion and a viscoplastic flow) + the harvested files that bring every nucleation model, the other flows and stress potentials (35 configurations); thorough: everything. Each is regenerated with the comparison keywords injected (hypotheses Tridimensional, PlaneStress, AxisymmetricalGeneralisedPlaneStress when the file supports all), compiled and driven along three strain paths (tension with partial unloading, shear, triaxial tension; about 30 steps each, elastic then inelastic). The behaviour compares its analytical jacobian blocks with centred finite differences at every Newton iterate and prints a block when they differ by more than its criterion: zero such blocks are expected. A first pass with the criterion set to 0 at run time makes every compared block visible (evidence: iterates and blocks really compared, largest difference per configuration). Judged: the comparison made at the converged state of every step (all calls request the consistent tangent operator), for blocks whose column unknown moved by more than 100 perturbations, relatively to the largest entry of the block when it exceeds 1, and only when the difference is the same (factor 2) with perturbations x10 and /10 at 3 converged states at least (finite-difference truncation scales with the square of the perturbation, a wrong analytical term does not). Intermediate iterates (unknowns not observable: kinks at zero increments, status switches, frozen porosity of the staggered scheme) are counted, not judged.",
    "note": "Trusted: the comparison code emitted by NonLinearSystemSolverBase::writeComparisonToNumericalJacobian and operator<< of the tensor types (only used to read back the differences). Criterion 1e-6 (absolute, times the block size as the generated code does), perturbation 1e-9 on strain-like unknowns. Configurations needing unknown material properties or external files that are not found are skipped and listed.",
}

CRITERION = 1e-6
PERTURBATION = 1e-9
NSTEPS = (30, 45)
BLOCK_HEAD = re.compile(r"^(\S+) (\S+)$")
BLOCK_NAME = re.compile(r"^(df\w+_dd\w+)(\(\d+(?:,\d+)?\))? :$")
NUM = re.compile(r"[-+]?(?:\d+\.?\d*(?:[eE][-+]?\d+)?|nan|inf)")
ITER = re.compile(r"integrate\(\)\s*: iteration (\d+) : (\S+)")


def parse_stream(text, epsilon):
    """-> dict(steps, iterates, converged, not_converged,
    blocks: list of dict(hyp, loading, step, iterate, name, err, thr, switch, staggered, shape),
    incs: {(hyp, loading, step, occurrence): [(isv name, size, max |increment|)]})"""
    lines = text.splitlines()
    st = {"steps": 0, "iterates": 0, "blocks": [], "converged": 0, "not_converged": 0, "incs": {}, "order": {}}
    cur = None
    it = None
    rejected = False
    stag = False
    occ = {}
    for i, l in enumerate(lines):
        if l.startswith("@@C43 STEP "):
            p = l.split()
            k = (p[2], p[3], int(p[4]))
            occ[k] = occ.get(k, 0) + 1
            cur = k + (occ[k],)
            st["steps"] += 1
            it, rejected, stag = None, False, False
            continue
        if l.startswith("@@C43 RC "):
            p = l.split(None, 3)
            if cur is not None and len(p) > 3:
                st["incs"][cur] = [(x.split("=")[0], int(x.split("=")[1]), float(x.split("=")[2])) for x in p[3].split(";") if x.count("=") == 2]
            continue
        if "staggered algorithm" in l:
            stag = True
            continue
        m = ITER.search(l)
        if m:
            it = int(m.group(1))
            st["iterates"] += 1
            try:
                last_err = float(m.group(2))
            except ValueError:
                last_err = float("nan")
            # the residual is below the convergence threshold: if the resolution goes on, convergence was rejected by
            # the additional checks of the brick (status switch) and the stored jacobian is the one of the old status
            rejected = last_err < epsilon
            continue
        if "convergence after" in l:
            if "no convergence" in l:
                st["not_converged"] += 1
            else:
                st["converged"] += 1
            rejected = False
            it = "final"
            continue
        m = BLOCK_HEAD.match(l)
        if m and i + 1 < len(lines):
            m2 = BLOCK_NAME.match(lines[i + 1])
            if m2 and cur is not None:
                try:
                    err, thr = float(m.group(1)), float(m.group(2))
                except ValueError:
                    continue
                # values of the analytical block = numbers printed before the "ndf..." line
                vals, j = [], i + 2
                while j < len(lines) and not lines[j].startswith("ndf") and j < i + 40:
                    vals += [float(x) for x in NUM.findall(lines[j].replace("[", " ").replace("]", " ").replace(",", " "))]
                    j += 1
                nval = len(vals)
                amax = max([abs(v) for v in vals if v == v] + [0.0])
                st["blocks"].append({"hyp": cur[0], "loading": cur[1], "step": cur[2], "occ": cur[3], "iterate": it, "name": m2.group(1),
                                     "idx": m2.group(2) or "", "err": err, "thr": thr, "switch": rejected, "staggered": stag, "nval": nval, "amax": amax})
    return st


def split_block(name):
    """dfX_ddY -> (X, Y)"""
    x, _, y = name[2:].rpartition("_dd")
    return x, y


def variable_order(st):
    """order of the integration variables of each hypothesis, read from the comparison that printed most blocks
    (the generated code loops over (v1, v2) pairs, v1-major)"""
    best = {}
    groups = {}
    for b in st["blocks"]:
        groups.setdefault((b["hyp"], b["loading"], b["step"], b["occ"], b["iterate"]), []).append(b)
    for k, bl in groups.items():
        if k[0] not in best or len(bl) > len(best[k[0]]):
            best[k[0]] = bl
    order = {}
    sizes = st.setdefault("sizes", {})
    for b in st["blocks"]:
        x, y = split_block(b["name"])
        if x == y and not b["idx"]:
            sizes[(b["hyp"], x)] = int(round(b["nval"] ** 0.5))
    for h, bl in best.items():
        seen = []
        for b in bl:
            x, y = split_block(b["name"])
            if x not in seen:
                seen.append(x)
        for b in bl:
            x, y = split_block(b["name"])
            if y not in seen:
                seen.append(y)
        order[h] = seen
    return order


MOVED = 100.0  # an unknown "moved" when its final increment exceeds MOVED x perturbation


def judgeable(b, st, order, perturbation, sizes=None):
    """may this printed block be judged?  -> (bool, reason)"""
    if b["switch"]:
        return False, "after-status-switch"
    if b["iterate"] != "final":
        # the values of the unknowns at intermediate iterates are not observable: residuals guarded by `dp > 0`, power
        # laws of the increment (strain-rate sensitivity), frozen porosity of the staggered scheme make the centred
        # differences meaningless when an increment is (still) about zero.  Only the comparison made at the converged
        # state (every call requests the consistent tangent operator) is judged; the others are counted.
        return False, "intermediate-iterate"
    x, y = split_block(b["name"])
    incs = st["incs"].get((b["hyp"], b["loading"], b["step"], b["occ"]))
    od = order.get(b["hyp"], [])
    if incs is None or y not in od or od.index(y) >= len(incs):
        return False, "unknown-not-mapped"
    nme, sz, inc = incs[od.index(y)]
    if sizes is not None and sizes.get((b["hyp"], y), sz) != sz:
        return False, "unknown-not-mapped"
    if not inc > MOVED * perturbation:
        return False, "unknown-did-not-move"
    if b["thr"] > 0 and b["err"] <= b["thr"] * max(1.0, b.get("amax", 0.0)):
        # the generated comparison is absolute; blocks whose entries are much larger than 1 (stiff flows, stress-like
        # normalisations) are judged relatively to their largest entry
        return False, "within-the-criterion-relative-to-the-block-magnitude"
    return True, ""


def epsilon_of(text):
    m = re.search(r"@Epsilon\s+([0-9.eE+-]+)\s*;", text)
    return float(m.group(1)) if m else 1e-8


def drive(ctx, s, lib, criterion, perturbation, nsteps, loadings=None, tag="c43"):
    res, r = gbx.call_vt(ctx, "checks.gb_mon43", "drive",
                         {"lib": lib, "name": s["name"], "seed": ctx.seed, "nsteps": nsteps, "criterion": criterion,
                          "perturbation": perturbation, "loadings": loadings}, tag=tag, timeout=1800)
    return res, r


def select(ctx):
    """-> (specs, info): harvested files + synthesised configurations accepted by the generator"""
    harvested = S.harvest()
    synth, unknown = S.synthesize()
    info = {"harvested": len(harvested), "synthesised": len(synth), "registered_criteria_without_parameter_set": unknown}
    only = os.environ.get("VF_C43_ONLY")  # debugging / replay aid: comma separated configuration names
    if only:
        harvested = [c for c in harvested if c["name"] in only.split(",")]
        synth = [c for c in synth if c["name"] in only.split(",")]
    vfcore.ensure_tree("plain")
    accepted, rejected, broken = S.screen(ctx, synth, CRITERION, PERTURBATION)
    for name, log in sorted(broken.items()):
        ctx.violation("%s:does-not-build-with-comparison" % name,
                      "the generator accepts the configuration but not with @CompareToNumericalJacobian injected:\n%s" % log[-3000:],
                      {"log": log[-8000:]})
    reasons = {}
    for n, m in rejected.items():
        reasons[m] = reasons.get(m, 0) + 1
    info.update({"synthesised_accepted": len(accepted), "synthesised_rejected_by_the_generator": len(rejected),
                 "rejection_messages": reasons})
    if not ctx.thorough and not only:
        accepted, harvested = S.quick_sample(harvested, accepted, seed=0)
    specs = [S.spec(c, CRITERION, PERTURBATION) for c in harvested]
    return [s for s in specs if s is not None] + accepted, info


def build(ctx):
    specs, info = select(ctx)
    gen.check_layout()
    libs, skipped = {}, {}

    def one(s):
        lib, log, r = gen.build_cached(s["slot"], s["text"], s["fname"], ["generic"], s["name"], extra=tuple(s["extra"]))
        if lib is None and not s.get("synth"):
            # does the unmodified file generate and compile in isolation?
            lib0, log0, r0 = gen.build_cached(s["slot"] + "-orig", s["original"], s["fname"], ["generic"], s["name"], extra=tuple(s["extra"][1:]))
            return s, None, log, (lib0 is not None), log0
        return s, lib, log, True, ""
    for s, lib, log, orig_ok, log0 in vfcore.pmap(one, specs, workers=min(8, max(2, vfcore.NCPU // 2))):
        if lib is not None:
            libs[s["name"]] = str(lib)
        elif gbx.tool_could_not_start(log) or gbx.tool_could_not_start(log0):
            raise vfcore.HarnessFailure("mfront could not start (build tree being relinked?): %s" % (log + log0)[-800:])
        elif s.get("synth"):
            c = s["cfg"]
            errs = [l for l in log.splitlines() if " error" in l][:6]
            # one key per (criterion, associativity): the flow and the hardening do not matter for a compilation failure
            ctx.violation("VfB_%s_%s:does-not-build" % (c["crit"], {"associated": "A", "deviatoric": "ND", "non-deviatoric": "NN"}[c["assoc"]]),
                          "synthesised configuration %s, accepted by mfront, generates code that does not compile:\n%s" % (s["name"], "\n".join(errs)[:3000]),
                          {"configuration": s["name"], "text": s["text"], "errors": errs, "log": log[-8000:]})
            skipped[s["name"]] = "generated code does not compile"
        elif orig_ok:
            ctx.violation("%s:does-not-build-with-comparison" % s["name"],
                          "the file builds unmodified but not with @CompareToNumericalJacobian injected:\n%s" % log[-3000:],
                          {"text": s["text"], "log": log[-8000:]})
        else:
            skipped[s["name"]] = (log0 or log)[-300:]
    return specs, libs, skipped, info


def run(ctx):
    specs, libs, skipped, info = build(ctx)
    ctx.cov["configuration_space"] = info
    ctx.cov["rule"] = ("case = one Newton iterate of one step of one strain path of one hypothesis of one brick configuration, at which "
                       "every jacobian block is compared with centred finite differences; distinct = iterates compared outside status switches")
    ctx.cov["configurations"] = {s["name"]: s["features"] for s in specs if s["name"] in libs}
    ctx.cov["not_built_in_isolation"] = skipped
    nsteps = ctx.n(*NSTEPS)
    todo = [s for s in specs if s["name"] in libs]

    def one(s):
        eps = epsilon_of(s["text"])
        out = {"name": s["name"], "eps": eps}
        # pass 1: the behaviour's own criterion
        res, r = drive(ctx, s, libs[s["name"]], CRITERION, PERTURBATION, nsteps, tag="c43a")
        out["main"] = (res, r, parse_stream(r.out, eps) if res is not None else None)
        # pass 2 (probe): criterion 0 -> every compared block is printed
        res0, r0 = drive(ctx, s, libs[s["name"]], 0.0, PERTURBATION, nsteps, loadings=None if not ctx.thorough else [0], tag="c43b")
        out["probe"] = (res0, r0, parse_stream(r0.out, eps) if res0 is not None else None)
        return out
    table = ctx.cov.setdefault("per_configuration", {})
    for s, o in zip(todo, vfcore.pmap(one, todo, workers=8)):
        res, r, st = o["main"]
        res0, r0, st0 = o["probe"]
        name = s["name"]
        if not gbx.fold(ctx, {"n": 0} if res is not None else None, r, what="C43 driver %s" % name):
            continue
        if res.get("skipped"):
            ctx.cov["not_built_in_isolation"][name] = res["skipped"]
            continue
        if res0 is None or st0 is None:
            ctx.inconc("probe pass failed for %s: %s" % (name, r0.err[-500:]))
            continue
        order = variable_order(st0)
        sizes = st0.get("sizes", {})
        judged, why = [], {}
        for b in st["blocks"]:
            ok, reason = judgeable(b, st, order, PERTURBATION, sizes)
            if ok:
                judged.append(b)
            else:
                why[reason] = why.get(reason, 0) + 1
        probe_ok = [b for b in st0["blocks"] if judgeable(b, st0, order, PERTURBATION, sizes)[0]]
        worst = max([b["err"] for b in probe_ok] + [0.0])
        # the generated code compares the block norm with (number of values of the block) x criterion
        wr = [(b["err"] / (max(b["nval"], 1) * CRITERION * max(1.0, b.get("amax", 0.0))), b["name"]) for b in probe_ok]
        worst_ratio = max(wr + [(0.0, "")])
        nblk = {}
        for b in probe_ok:
            nblk[b["name"]] = nblk.get(b["name"], 0) + 1
        ctx.add_eval(st["iterates"] + st["converged"])
        ctx.add_distinct_n(len({(b["hyp"], b["loading"], b["step"], b["occ"], b["iterate"]) for b in probe_ok}))
        calls = {h: (v["ok"], v["calls"]) for h, v in res["hyps"].items()}
        table[name] = {"hypotheses": sorted(res["hyps"]), "integration_variables": order, "steps": st["steps"], "newton_iterates": st["iterates"],
                       "converged_steps": st["converged"], "calls_ok/total": calls, "mismatch_blocks_judged": len(judged),
                       "mismatch_blocks_not_judged": why, "probe_blocks_compared": len(probe_ok), "probe_blocks_by_name": nblk,
                       "probe_max_difference": float("%.3g" % worst),
                       "probe_max_difference_over_threshold": [float("%.3g" % worst_ratio[0]), worst_ratio[1]]}
        if not judged:
            ctx.maxstat("max_difference_over_threshold (configurations without mismatch)", worst_ratio[0])
        if st["converged"] < 20:
            # (every step fails: nothing to compare; listed, and the run is inconclusive when this is not exceptional)
            ctx.cov.setdefault("could_not_be_driven", {})[name] = "%d converged steps of %d" % (st["converged"], st["steps"])
        elif st["iterates"] < 20 or len(st0["blocks"]) < 1:
            # (a linear residual gives identical analytical and numerical blocks: few of them are printed even with a
            # criterion of 0; the comparison code runs once per Newton iterate)
            ctx.inconc("%s: the comparison hardly ran (%d iterates, %d blocks seen with criterion 0)" % (name, st["iterates"], len(st0["blocks"])))
        if judged:
            # A wrong analytical block differs from the centred differences by the same amount whatever the
            # perturbation; truncation error of the differences (stiff residuals, small increments) scales with its
            # square.  Confirm every mismatching iterate with perturbations x10 and /10: it is reported only when the
            # same block is printed at the same iterate in the three runs with differences within a factor 2.
            def ident(b):
                return (b["hyp"], b["loading"], b["step"], b["occ"], b["iterate"], b["name"], b["idx"])
            others = []
            for fac in (10.0, 0.1):
                resx, rx = drive(ctx, s, libs[name], CRITERION, PERTURBATION * fac, nsteps, tag="c43c")
                stx = parse_stream(rx.out, o["eps"]) if resx is not None else {"blocks": [], "incs": {}}
                if resx is None:
                    ctx.count("confirmation-run-failed")
                others.append({ident(b): b["err"] for b in stx["blocks"] if judgeable(b, stx, order, PERTURBATION * fac, sizes)[0]})
            confirmed = {}
            for b in judged:
                es = [b["err"]] + [d.get(ident(b)) for d in others]
                if all(e is not None for e in es) and max(es) <= 2 * min(es):
                    confirmed.setdefault(b["name"], []).append(b)
                else:
                    ctx.count("mismatch-depending-on-the-perturbation (finite-difference error)")
            table[name]["mismatch_blocks_confirmed"] = {k: len(v) for k, v in confirmed.items()}
            table[name]["confirmation_runs_blocks"] = [len(d) for d in others]
            for nm, wit in sorted(confirmed.items()):
                if len(wit) < 3:
                    # A wrong analytical term shows at every converged inelastic step (6 to 4000 comparisons for the defects
                    # found so far).  One or two comparisons out of hundreds of the same block happen when the steps of the
                    # three runs are not the same states (the paths of non smooth criteria are sensitive: a step halved in one
                    # run only) or when a kink of the criterion lies inside the stencil: counted and listed, not reported.
                    ctx.count("isolated-mismatch (fewer than 3 comparisons of the block)")
                    table[name].setdefault("isolated_mismatches", {})[nm] = [(b["hyp"], b["loading"], b["step"], b["err"], b["thr"]) for b in wit]
                    continue
                w5 = [(b["hyp"], b["loading"], b["step"], b["iterate"], b["err"], b["thr"]) for b in wit[:6]]
                ctx.violation("%s:%s" % (name, nm), "analytical and numerical jacobian blocks %s differ above the criterion at %d iterates in %s, "
                              "by the same amount with perturbations 1e-8, 1e-9, 1e-10; first: %s" % (nm, len(wit), sorted({b["hyp"] for b in wit}), w5),
                              {"configuration": name, "features": s["features"], "block": nm, "witnesses": wit[:20], "text": s["text"]})
    nd = len(ctx.cov.get("could_not_be_driven", {}))
    ctx.require(nd <= max(1, len(table) // 20), "%d configurations of %d could not be driven: %s" % (nd, len(table), sorted(ctx.cov.get("could_not_be_driven", {}))))
    if not os.environ.get("VF_C43_ONLY"):
        ctx.require(len(table) >= (6 if not ctx.thorough else 60), "too few configurations were driven (%d)" % len(table))
