"""C14 — symbolic differentiation of tfel::math::Evaluator yields the derivative."""
import concurrent.futures as cf
import math
import random
import sys
import vfcore

sys.path.insert(0, str(vfcore.VERIF / "lib"))
sys.path.insert(0, str(vfcore.VERIF))
import exprgen as E                 # noqa: E402
from checks import c13              # noqa: E402

META = {
    "engine": "text", "level": "exploration", "design_ref": "DESIGN.md §4.2 C14",
    "technique": "random trees over the operators and the differentiable built-ins (lib/exprgen.py, domains valid on the whole box), "
                 "differentiate(v)->getValue() of the ASan+UBSan libTFELMathParser compared with a Richardson central differences (six steps, two overlapping 4-level tables that must agree) "
                 "of getValue computed in the harness; second derivatives by differentiating the derivative; trees holding a function "
                 "without chain rule must throw or still be right",
    "text": "On the sampled formulas and points the value of differentiate(v) (and of differentiate(v) then differentiate(w)) equals the "
            "Richardson finite difference of getValue (resp. of the first derivative) within 50x the estimated finite-difference error + "
            "1e-9 relative + 1e-10 of the natural scale (magnitude of the terms / variable scale); differentiate never throws on a formula made of operators, power<N>, conditionals and the functions for which "
            "Function.cxx has a chain rule, and a returned derivative of a formula holding other functions is judged the same way. "
            "Points where the difference table does not converge (kinks, domain edges) are skipped and counted.",
    "note": "Trusted: the Richardson table in harness/text/c13.cxx (step 2^-5 of the variable scale, halved five times; error estimate = disagreement of the coarse and fine tables + "
            "spread of the last extrapolants + rounding term from the reference rounding bound), lib/exprgen.py. The list of functions "
            "with a chain rule is fixed from src/Math/Function.cxx (exp sin cos tan sqrt ln/log log10 asin acos atan sinh cosh tanh).",
}

SUPPORTED = list(E.DIFFERENTIABLE_F1)
UNSUPPORTED_SMOOTH = ["exp2", "expm1", "cbrt", "log2", "log1p", "acosh", "asinh", "atanh", "erf", "erfc", "tgamma", "lgamma"]
STRATA = [("supported", 0.56), ("with-log10", 0.04), ("one-function", 0.2), ("conditional", 0.06), ("unsupported", 0.12), ("tanh-large", 0.02)]
# tanh'(x) is written 1/cosh(x)^2 by the library: cosh overflows beyond 710 (stratum tanh-large); elsewhere |x| <= 300
DOMAINS = {"tanh": (-300.0, 300.0)}


def build(ctx):
    return c13.build(ctx)


def diff_case(rng, csts, stratum):
    nv = rng.randint(1, 4)
    names = rng.sample(c13.VAR_POOL, nv)
    vs = {n: rng.choice(c13.BOXES) for n in names}
    use_c = {k: v for k, v in csts.items() if rng.random() < 0.3}
    f1 = [f for f in SUPPORTED if f != "log10"]      # log10 has strata of its own (with-log10, one-function)
    f2 = []
    if stratum == "unsupported":
        f1 = f1 + UNSUPPORTED_SMOOTH + ["abs"]
        f2 = ["hypot", "atan2", "max", "min"]
    if stratum == "with-log10":
        f1 = list(SUPPORTED)
    g = E.ExprGen(rng, vs, constants=use_c, functions1=f1, functions2=f2, conditional=False, margin=10.0, domains=DOMAINS)
    depth = rng.choice((2, 3, 3, 4, 4, 5, 6))
    if stratum == "one-function":
        # f(inner) * outer + c : every chain rule is met often and alone
        name = rng.choice(SUPPORTED)
        g.f1 = []                                     # the inner and outer parts hold no function: the rule is met alone
        inner, iv = g.arith(rng.randint(1, 3))
        dlo, dhi, img = E._DOM[name]
        if name in ("sqrt", "ln", "log", "log10"):
            dlo = 0.1
        if name in DOMAINS:
            dlo, dhi = DOMAINS[name]
        inner, iv = g.fit(inner, iv, dlo, dhi)
        if inner is None:
            return None
        t = ("f1", name, inner)
        if rng.random() < 0.5:
            o, _ = g.arith(rng.randint(1, 2))
            t = (rng.choice("+-*"), t, o)
    elif stratum == "tanh-large":
        g.f1 = []
        inner, iv = g.arith(rng.randint(1, 2))
        if not E.variables(inner):
            return None
        t = ("f1", "tanh", ("+", inner, ("num", "800", 800.0)))
    elif stratum == "conditional":
        a, _ = g.arith(depth)
        b, _ = g.arith(depth)
        c = g.logical(2, 1)
        if any(n[0] == "cst" for n in E.walk(a)):
            return None
        t = ("cond", c, a, b)
    else:
        t, _ = g.arith(depth)
        if stratum == "unsupported" and not (E.functions(t) - set(SUPPORTED) - {"power"}):
            return None
        if stratum == "with-log10" and "log10" not in E.functions(t):
            return None
    if not E.variables(t):
        return None
    return {"tree": t, "gen": g, "formula": E.to_formula(t, rng, redundant=rng.choice((0.0, 0.2)), spaces=rng.choice((0.0, 0.3)))}


def shard(args):
    seed, sh, ncases, binary, work, csts = args
    rng = random.Random((seed * 1000003 + sh) * 15485863 + 3)
    names, weights = zip(*STRATA)
    cases, lines = {}, []
    for i in range(ncases):
        st = rng.choices(names, weights)[0]
        c = None
        for _ in range(30):
            c = diff_case(rng, csts, st)
            if c is None:
                continue
            g = c["gen"]
            env = g.point(nice=0.05)
            # keep the point inside the inner 80 % of the box so that the stencil stays in the domain
            for n, (lo, hi) in g.vars.items():
                env[n] = min(max(env[n], lo + 0.1 * (hi - lo)), hi - 0.1 * (hi - lo))
            try:
                v, err, dec = E.evaluate(c["tree"], env, csts)
            except (E.DomainError, OverflowError, ZeroDivisionError, ValueError):
                c = None
                continue
            if dec == 0.0 or not math.isfinite(err):
                c = None
                continue
            break
        if c is None:
            continue
        cid = sh * 10000000 + i
        used = E.variables(c["tree"])
        w1 = rng.choice(used)
        w2 = rng.choice(used)
        varlist = [(n, env[n], g.vars[n][0], g.vars[n][1]) for n in sorted(g.vars)]
        extra = [("wrt", w1), ("ferr", repr(err * c13.U))]
        if rng.random() < 0.5:
            extra.append(("wrt2", w2))
        c.update(stratum=st, env=env, ref=v, err=err, wrt=w1, wrt2=w2, varlist=varlist, funcs=sorted(E.functions(c["tree"])))
        c["line"] = c13.line(cid, "D", c["formula"], varlist, [], extra)
        cases[str(cid)] = c
        lines.append(c["line"])
    out = {"stats": {}, "viol": [], "maxratio": {}, "samples": []}

    def stat(k, n=1):
        out["stats"][k] = out["stats"].get(k, 0) + n
    results, crashes, counters = c13.drive(binary, lines, work, "differentiate", lambda w: "the formula %r" % (cases.get(w, {}).get("formula"),))
    out["viol"] += crashes
    for k, v in counters.items():
        stat(k, v)
    for cid, c in cases.items():
        f = results.get(cid)
        if f is None or not f or f[0] != "ok":
            stat("not-evaluated")
            continue
        st = c["stratum"]
        kv = dict(x.split("=", 1) for x in f[2:] if "=" in x)
        unsupported = sorted(set(c["funcs"]) - set(SUPPORTED) - {"power", "?:"})
        rp = {"formula": c["formula"], "variables": {n: c13.hexf(v) for n, v, _, _ in c["varlist"]}, "wrt": c["wrt"], "line": c["line"],
              "functions": c["funcs"]}
        stat("n:" + st)
        for order, dk, fk, ek in ((1, "d1", "fd1", "e1"), (2, "d2", "fd2", "e2")):
            if dk not in kv:
                continue
            api = "differentiate" if order == 1 else "differentiate-twice"
            d = kv[dk]
            if d.startswith("EVALEXC:"):
                out["viol"].append(("%s:%s:derivative-evaluation-exception" % (api, st), "the %s of %r with respect to %s cannot be evaluated at a point where "
                                    "the formula is smooth: %s" % ("derivative" if order == 1 else "second derivative", c["formula"], c["wrt"], c13.unhex(d[8:])), rp))
                break
            if d.startswith("EXC:"):
                what = c13.unhex(d[4:])
                if unsupported:
                    stat("threw-on-unsupported:%s" % api)
                else:
                    out["viol"].append(("%s:%s:exception" % (api, st), "%s of %r with respect to %s throws although every function has a chain rule: %s"
                                        % (api, c["formula"], c["wrt"], what), rp))
                break
            dv = float.fromhex(d)
            if kv.get(fk, "NA") == "NA":
                stat("skipped-fd-failed:%s" % api)
                continue
            fd, fe = float.fromhex(kv[fk]), float.fromhex(kv[ek])
            scale = max(abs(dv), abs(fd))
            if not math.isfinite(fe) or fe > 1e-4 * abs(fd) + 1e-12:
                stat("skipped-fd-unconverged:%s" % api)
                continue
            # rounding of the derivative expression itself: its terms have the magnitude of the terms of the formula (the
            # running bound `err` sums them) divided by the variable scale once per differentiation; 1e-10 of that is far
            # below what a wrong rule produces and far above cancellation noise (d2/dx2 of -89*x/x is 1e-13, not 0)
            xs = 1.0
            for wn in ([c["wrt"]] if order == 1 else [c["wrt"], c["wrt2"]]):
                lo, hi = c["gen"].vars[wn]
                xs *= max(abs(c["env"][wn]), 0.05 * (hi - lo))
            natural = max(c["err"], abs(c["ref"])) / xs
            tol = 50 * fe + 1e-9 * scale + 1e-10 * natural + 1e-13
            ratio = abs(dv - fd) / tol if dv == dv else float("inf")
            cls = st
            if st == "one-function":
                cls = "one-function:" + [x for x in c["funcs"] if x in SUPPORTED][0]
            key = "%s:%s" % (api, cls)
            out["maxratio"][key] = max(out["maxratio"].get(key, 0.0), ratio if math.isfinite(ratio) else 1e300)
            stat("judged:%s:%s" % (api, st))
            if unsupported:
                stat("returned-on-unsupported:%s" % api)
            if len(out["samples"]) < 1:
                out["samples"].append({"formula": c["formula"], "wrt": c["wrt"], "derivative": dv, "finite_difference": fd})
            if not (ratio <= 1):
                # name the chain rules met by the formula: a wrong rule shows up under its own key
                k2 = key
                rp.update(derivative=c13.hexf(dv), finite_difference=c13.hexf(fd), fd_error=c13.hexf(fe))
                out["viol"].append((k2, "d/d%s of %r = %r, finite difference %r +- %.2g" % (c["wrt"] if order == 1 else c["wrt"] + "," + c["wrt2"],
                                                                                              c["formula"], dv, fd, fe), rp))
    return out


def run(ctx):
    b = build(ctx)["asan"]
    if ctx.replay and isinstance(ctx.replay.get("case"), dict) and ctx.replay["case"].get("line"):
        return c13.replay_one(ctx, b, ctx.replay["case"])
    csts = c13.constants()
    ctx.cov["rule"] = ("one case = a random tree over + - * / ** power<N>, unary minus and the functions with a chain rule (stratum 'unsupported': "
                       "also the other documented functions), 1-4 variables, one point in the inner 80 % of the box, a variable to differentiate "
                       "by (and a second one half of the time); judged when the Richardson table converges (error estimate < 1e-4 relative); "
                       "distinct = distinct (formula, variable)")
    nshards = vfcore.NCPU
    n = ctx.n(10000, 300000)
    with cf.ProcessPoolExecutor(nshards) as ex:
        outs = list(ex.map(shard, [(ctx.seed, i, (n + nshards - 1) // nshards, str(b), str(ctx.work), csts) for i in range(nshards)]))
    st = c13.fold(ctx, outs, "differentiation")
    judged = sum(v for k, v in st.items() if k.startswith("judged:"))
    ctx.add_eval(judged)
    ctx.add_distinct_n(sum(v for k, v in st.items() if k.startswith("judged:differentiate:")))
    ctx.require(st.get("judged:differentiate:supported", 0) >= 0.25 * n * 0.56, "first derivatives judged: %d" % st.get("judged:differentiate:supported", 0))
    ctx.require(st.get("judged:differentiate-twice:supported", 0) >= 0.08 * n * 0.56, "second derivatives judged: %d" % st.get("judged:differentiate-twice:supported", 0))
    ctx.require(st.get("judged:differentiate:one-function", 0) >= 0.3 * n * 0.2, "one-function stratum judged: %d" % st.get("judged:differentiate:one-function", 0))
    ctx.require(st.get("threw-on-unsupported:differentiate", 0) >= 20, "trees with an unsupported function that threw: %d" % st.get("threw-on-unsupported:differentiate", 0))
    for f in SUPPORTED:
        k = "differentiate:one-function:%s" % f
        ctx.require(k in ctx.cov["differentiation"]["max_err_over_tol"], "chain rule of %s never judged alone" % f)
    ctx.assumptions += ["a derivative is judged only where four halvings of the central difference agree to 1e-4 (kinks and domain edges are skipped)",
                        "differentiate may throw when the formula holds a function without chain rule, even if that function does not depend on the variable"]
