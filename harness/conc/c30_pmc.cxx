// ProcessManager-c.c (plain C helpers around the wait macros) compiled as C++ for the TSan build
#include "/repo/src/System/ProcessManager-c.c"
