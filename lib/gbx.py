"""gbx.py — host side (no numpy) of the generated-behaviour monitors C41–C44, C55:
build sets of behaviours in parallel through gen.build_cached, run a numpy monitor in a
`python3-vt` worker process, fold its report into the Ctx."""
import json
import os
import shutil
import sys

import gen
import vfcore
from vfcore import VERIF, REPO

CORPUS = VERIF / "corpus" / "gen"
PY_VT = shutil.which("python3-vt") or "python3-vt"


def call_vt(ctx, module, function, args, timeout=3600, tag="w", env=None, python=None):
    """vfcore.call_worker with the numpy interpreter; returns (result or None, Result)"""
    f = ctx.work / ("%s-%s.json" % (tag, vfcore.sha(json.dumps(args, sort_keys=True, default=str))[:10]))
    f.write_text(json.dumps(args, default=str))
    e = {"LD_LIBRARY_PATH": vfcore.ld_path("plain"), "OMP_NUM_THREADS": "1", "OPENBLAS_NUM_THREADS": "1",
         "MKL_NUM_THREADS": "1"}
    if env:
        e.update(env)
    r = vfcore.run([python or PY_VT, str(VERIF / "lib/worker.py"), module, function, str(f)], timeout=timeout,
                   cwd=ctx.work, env=e)
    res = None
    for line in reversed(r.out.splitlines()):
        if line.startswith("@@RESULT "):
            res = json.loads(line[9:])
            break
    return res, r


def tool_could_not_start(log):
    return any(x in log for x in ("error while loading shared libraries", "file too short", "cannot open shared object file",
                                  "No such file or directory: '/verif/build"))


def build_all(ctx, pid, specs, workers=None):
    """specs: list of dict(slot, name, text, fname[, key]).  Builds every one with
    gen.build_cached (parallel).  A file that does not generate/compile is a violation of the
    property being checked (key `<key or name>:does-not-build`).  Returns {name: libpath}."""
    vfcore.ensure_tree("plain")
    gen.check_layout()

    def one(s):
        try:
            lib, log, r = gen.build_cached(s["slot"], s["text"], s["fname"], ["generic"], s["name"],
                                           extra=tuple(s.get("extra", ())))
            return s, lib, log
        except Exception as e:  # noqa
            return s, None, "harness exception: %r" % (e,)

    out = {}
    for s, lib, log in vfcore.pmap(one, specs, workers=workers or min(8, max(2, vfcore.NCPU // 2))):
        if lib is None:
            if log.startswith("harness exception") or tool_could_not_start(log):
                # (the build tree is being relinked by a concurrent run after a change of /repo: not an observation)
                raise vfcore.HarnessFailure(log[-1500:])
            ctx.violation("%s:does-not-build" % s.get("key", s["name"]),
                          "well-formed file %s does not generate/compile:\n%s" % (s["fname"], log[-3000:]),
                          {"file": s["fname"], "text": s["text"], "log": log[-8000:]})
        else:
            out[s["name"]] = str(lib)
    return out


def fold(ctx, res, r, what="worker"):
    """common folding of a worker report: crash -> violation, None -> inconclusive.
    report keys understood: n, distinct, viol[{key, what, case}], strata{key:{n, skipped, max_ratio,...}},
    samples[], counters{}"""
    crash = ctx.classify_crash(r)
    if res is None:
        if crash and crash != "hang":
            ctx.violation("crash:%s" % crash, "generated behaviour crashed the caller (%s): %s\n%s" % (what, crash, r.err[-2500:]),
                          {"stderr": r.err[-6000:], "stdout_tail": r.out[-2000:]})
        else:
            ctx.inconc("%s failed: rc=%s timed_out=%s %s" % (what, r.rc, r.timed_out, r.err[-2500:]))
        return False
    ctx.add_eval(res.get("n", 0))
    ctx.add_distinct_n(res.get("distinct", 0))
    tab = ctx.cov.setdefault("strata", {})
    for k, s in sorted(res.get("strata", {}).items()):
        t = tab.setdefault(k, {})
        for kk, vv in s.items():
            if kk.startswith("max"):
                t[kk] = max(t.get(kk, 0.0), float("%.3g" % vv))
            else:
                t[kk] = t.get(kk, 0) + vv
    for s in res.get("samples", []):
        ctx.sample(s)
    for k, v in res.get("counters", {}).items():
        ctx.count(k, v)
    for v in res.get("viol", []):
        ctx.violation(v["key"], v.get("what", v["key"]), v.get("case"))
    if res.get("nviol", 0) > len(res.get("viol", [])):
        ctx.count("violations_not_listed", res["nviol"] - len(res["viol"]))
    return True


def repo_text(rel):
    return (REPO / rel).read_text()
