"""C54 — mtest and ptest inputs never crash the driver (DESIGN.md §4.3)."""
import base64
import re
import shutil

import fuzz
import gen
import vfcore
from vfcore import REPO, VERIF

META = {
    "engine": "fuzz", "level": "exploration", "design_ref": "DESIGN.md §4.3 C54",
    "technique": "out-of-process systematic keyword sweep + mutation fuzzing (byte, token, keyword-dictionary, splice, nesting, hostile numbers, name aliasing) of the ASan+UBSan+assert build of mtest (both schemes) on the repository's .mtest/.ptest corpus bound to freshly generated behaviours, with an exit classifier",
    "text": "A systematic sweep places every keyword of both schemes (read from the binary) alone after a minimal header, right after the first statement and at the end of a complete seed, followed by varied argument shapes; then mutated .mtest and .ptest inputs (repository corpus with its build-time placeholders bound to behaviours generated and compiled in this run, plus four complete seeds that really execute) are fed to the sanitizer-instrumented real mtest binary. Death by signal other than the documented terminate path, sanitizer report, failed assertion or confirmed hang (watchdog twice) is a violation with the input as witness; the libstdc++ 'terminate called after throwing …what():' abort is mtest's documented error report. Sizes that legitimately request long computations are capped by the mutator (@Times subdivisions, sub-steps).",
    "note": "Trusted: the classifier; behaviours are loaded from plain (uninstrumented) generated libraries. 'allocation-size-too-big'/'out-of-memory' under ASan are counted as resource exhaustion, not judged.",
}

BEH = {"Elasticity": "Elasticity.mfront", "Norton": "Norton.mfront", "Plasticity": "Plasticity.mfront"}


def build(ctx):
    libs = {}
    for name, f in BEH.items():
        src = REPO / "mfront/tests/behaviours" / f
        lib, log, r = gen.build_cached("beh-" + name, src.read_text(), f, ["generic"], name)
        if lib is None:
            raise vfcore.HarnessFailure("cannot build %s: %s" % (name, log[-2000:]))
        libs[name] = lib
    return libs


def bind(data, libs, g):
    """replace the cmake-time placeholders of the repository files"""
    txt = data.decode("utf-8", "replace")
    for name, lib in libs.items():
        txt = txt.replace("@LIB_%s@" % name, str(lib))
    lib = str(libs[g.choice(sorted(libs))])
    m = re.search(r"@library@\s+'(\w+)'", txt)
    if m and m.group(1) in libs:
        lib = str(libs[m.group(1)])
    txt = txt.replace("@library@", "'%s'" % lib).replace("@mplibrary@", "'%s'" % lib).replace("@interface@", "generic")
    txt = txt.replace("@top_srcdir@", str(REPO)).replace("@xml_output@", "false").replace("@reference_file@", "'/nonexistent/ref.txt'")
    txt = txt.replace("@tangent_operator@", "DSIG_DF").replace("@stress_measure@", "CAUCHY").replace("@behaviour@", "'Elasticity'")
    return txt.encode()


def cap_sizes(data):
    """keep legitimately long computations out: cap `in N` subdivisions and sub-steps"""
    def f(m):
        try:
            return m.group(1) + str(min(int(m.group(2)), 200)).encode()
        except ValueError:
            return m.group(0)
    data = re.sub(rb"(\bin\s+)(\d+)", f, data)
    data = re.sub(rb"(@MaximumNumberOfSubSteps\s+)(\d+)", lambda m: m.group(1) + str(min(int(m.group(2)), 8)).encode(), data)
    data = re.sub(rb"(@MaximumNumberOfIterations\s+)(\d+)", lambda m: m.group(1) + str(min(int(m.group(2)), 200)).encode(), data)
    return data


def run(ctx):
    libs = build(ctx)
    vfcore.ensure_tree("asan")
    env = {"LD_LIBRARY_PATH": vfcore.ld_path("asan") + ":" + vfcore.ld_path("plain"),
           "ASAN_OPTIONS": vfcore.SAN_ENV["ASAN_OPTIONS"] + ":max_allocation_size_mb=8192:malloc_context_size=12"}
    mtest = str(vfcore.tool("asan", "mtest"))
    dictionary = fuzz.keyword_dictionary(mtest, lambda d: ["--scheme=" + d, "--help-keywords-list"], ["mtest", "ptest"], env)
    own = sorted((VERIF / "corpus/mtest").glob("*.mtest")) + sorted((VERIF / "corpus/mtest").glob("*.ptest"))
    gsel = vfcore.rng(ctx.seed, "c54-corpus")
    repo_m = sorted(p for p in REPO.rglob("*.mtest") if "_build" not in p.parts)
    repo_p = sorted(p for p in REPO.rglob("*.ptest") if "_build" not in p.parts)
    files = own * 20 + gsel.sample(repo_m, min(len(repo_m), 400)) + repo_p
    if len(dictionary) < 40:
        ctx.inconc("keyword dictionary too small: %d" % len(dictionary))
    n = ctx.n(400, 20000)
    ctx.cov["rule"] = ("execution = (seed .mtest/.ptest file with placeholders bound, mutation kind); distinct = distinct sha1 of the mutated input; "
                       "non-trivial = the input differs from its bound seed")
    ctx.cov.update({"seed_files": len(set(files)), "dictionary_keywords": len(dictionary)})
    pool = [bind(f.read_bytes(), libs, gsel) for f in gsel.sample(files, min(len(files), 200))]

    # sanity: the four complete seeds really execute (otherwise the fuzz only scratches the parser)
    ok = 0
    for f in own:
        d = ctx.work / ("seed-" + f.stem)
        d.mkdir()
        (d / f.name).write_bytes(bind(f.read_bytes(), libs, gsel))
        r = vfcore.run([mtest, "--verbose=quiet", f.name], timeout=120, cwd=d, env=env)
        crash = ctx.classify_crash(r, recognised_terminate=True)
        if crash:
            ctx.violation("mtest:valid-seed:%s:%s" % (f.name, crash), "mtest crashes on the valid seed %s: %s\n%s" % (f.name, crash, r.err[-2000:]),
                          {"seed": f.name})
        elif r.rc == 0:
            ok += 1
        else:
            ctx.count("own-seed-not-running:" + f.name)
            ctx.cov.setdefault("own_seed_errors", {})[f.name] = (r.err + r.out)[-300:]
        shutil.rmtree(d, ignore_errors=True)
    ctx.cov["own_seeds_running"] = ok
    ctx.require(ok >= 3, "only %d of the %d complete seeds run to the end" % (ok, len(own)))

    def one(i):
        g = vfcore.rng(ctx.seed, "c54", i)
        f = g.choice(files)
        data = bind(f.read_bytes(), libs, g)
        kind, mut = fuzz.mutate(g, data, pool, dictionary)
        mut = cap_sizes(mut)
        ext = ".ptest" if f.suffix == ".ptest" else ".mtest"
        d = ctx.work / ("x%d" % i)
        d.mkdir()
        (d / ("in" + ext)).write_bytes(mut)
        cmd = [mtest, "--verbose=quiet", "in" + ext]
        if g.random() < 0.1:
            cmd.insert(1, "--scheme=" + g.choice(["mtest", "ptest"]))
        r = vfcore.run(cmd, timeout=60, cwd=d, env=env)
        if r.timed_out:
            r2 = vfcore.run(cmd, timeout=150, cwd=d, env=env)
            if not r2.timed_out:
                r = r2
        crash = ctx.classify_crash(r, recognised_terminate=True)
        res = (i, f, kind, ext, crash, ("success" if r.rc == 0 else "error") if not crash else crash, mut if crash else None,
               vfcore.sha(mut), mut != data, (r.err[-2500:] if crash else ""))
        shutil.rmtree(d, ignore_errors=True)
        return res

    # ---- systematic keyword sweep: every keyword of both schemes alone after a minimal header, right after the first statement
    # and at the end of a complete seed that really executes
    gs = vfcore.rng(ctx.seed, "c54-sweep")
    sweep = []
    for scheme, ext in (("mtest", ".mtest"), ("ptest", ".ptest")):
        r = vfcore.run([mtest, "--scheme=" + scheme, "--help-keywords-list"], timeout=300, env=env)
        kws = sorted({m.group(1).encode() for m in re.finditer(r"(@[A-Za-z_0-9]+)", r.out + r.err)})
        seedf = next((f for f in own if f.suffix == ext), None)
        real = bind(seedf.read_bytes(), libs, gs) if seedf is not None else b"@Author x;\n"
        for label, data in fuzz.keyword_sweep(gs, kws, (b"@Author x;", real), ctx.thorough, nshapes=2):
            sweep.append((ext, label, data))
    # self-referential definitions: every statement of the corpus of the form  @Keyword<...> 'name' 'expression'  (function
    # evolutions, @Real, material properties given by formulae...) is rewritten so that the expression refers to the name it defines
    selfref, seen_kw = [], {}
    pat = re.compile(rb"(@\w+(?:<[^>\n]*>)?)\s+(['\"])(\w+)\2\s+(['\"])([^'\"\n]*)\4")
    for f in own + gsel.sample(repo_m, min(len(repo_m), 150)) + repo_p:
        data = bind(f.read_bytes(), libs, gsel)
        for m in pat.finditer(data):
            kw = m.group(1)
            if seen_kw.get(kw, 0) >= (6 if ctx.thorough else 2):
                continue
            seen_kw[kw] = seen_kw.get(kw, 0) + 1
            q, name = m.group(2), m.group(3)
            for expr in (name, b"2*" + name + b"+1"):
                stmt = kw + b" " + q + name + q + b" " + q + expr + q
                selfref.append((f.suffix if f.suffix in (".mtest", ".ptest") else ".mtest", "%s/self-reference" % kw.decode(),
                                data[:m.start()] + stmt + data[m.end():]))
    sweep += selfref
    ctx.cov["keyword_sweep"] = {"inputs_run": len(sweep), "self_referential_definitions": len(selfref), "keywords_with_a_named_expression": sorted(k.decode() for k in seen_kw)}

    def one_sweep(args):
        k, (ext, label, data) = args
        d = ctx.work / ("s%d" % k)
        d.mkdir()
        (d / ("in" + ext)).write_bytes(cap_sizes(data))
        cmd = [mtest, "--verbose=quiet", "in" + ext]
        r = vfcore.run(cmd, timeout=60, cwd=d, env=env)
        if r.timed_out:
            r2 = vfcore.run(cmd, timeout=150, cwd=d, env=env)
            if not r2.timed_out:
                r = r2
        crash = ctx.classify_crash(r, recognised_terminate=True)
        shutil.rmtree(d, ignore_errors=True)
        return ext, label, data, crash, (r.err[-2500:] if crash else ""), r.rc

    nsw = {"error": 0, "success": 0, "crash": 0}
    for ext, label, data, crash, err, rc in vfcore.pmap(one_sweep, list(enumerate(sweep)), workers=vfcore.NCPU):
        ctx.add_eval()
        ctx.add_distinct(vfcore.sha(data))
        if crash and not (crash.startswith("asan:allocation-size-too-big") or crash.startswith("asan:out-of-memory")):
            nsw["crash"] += 1
            ctx.violation("mtest%s:keyword-sweep:%s:%s" % (ext, label.split("/")[0], crash), "mtest on keyword %s (%s): %s\n%s" % (label, ext, crash, err),
                          {"keyword_and_placement": label, "input_base64": base64.b64encode(data).decode()})
        else:
            nsw["success" if rc == 0 else "error"] += 1
    ctx.cov["keyword_sweep"]["outcomes"] = nsw
    ctx.require(len(sweep) > 100, "keyword sweep too small (%d)" % len(sweep))

    classes, kinds, exts = {}, {}, {}
    for i, f, kind, ext, crash, cls, mut, h, nontrivial, err in vfcore.pmap(one, range(n), workers=vfcore.NCPU):
        ctx.add_eval()
        if nontrivial:
            ctx.add_distinct(h)
        classes[cls.split(":")[0]] = classes.get(cls.split(":")[0], 0) + 1
        kinds[kind] = kinds.get(kind, 0) + 1
        exts[ext] = exts.get(ext, 0) + 1
        if crash:
            if crash.startswith("asan:allocation-size-too-big") or crash.startswith("asan:out-of-memory"):
                ctx.count("resource-exhaustion-under-asan")
                continue
            ctx.violation("mtest%s:%s" % (ext, crash), "mtest on a %s-mutation of %s: %s\n%s" % (kind, f.name, crash, err),
                          {"seed_file": str(f), "mutation": kind, "index": i, "input_base64": base64.b64encode(mut).decode()})
        if i < 4:
            ctx.sample({"seed_file": f.name, "mutation": kind, "outcome": cls})
    ctx.cov.update({"outcome_classes": classes, "mutation_kinds": kinds, "schemes": exts})
    # the complete seeds are the control group (required above: ok >= 3).  Among the mutated and swept inputs only 1-2 % run to
    # the end, so a proportional threshold on that count is a coin toss on some seeds (seed 4: 1 of 400); what must not happen is
    # that none at all does, which would mean that the bound libraries are not loadable and only the parser is exercised
    deep = classes.get("success", 0) + nsw["success"]
    ctx.cov["mutated_or_swept_inputs_run_to_the_end"] = deep
    ctx.require(deep >= 1, "no mutated or swept input ran to the end")
