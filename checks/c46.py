"""C46 — the mfront inter-process lock provides mutual exclusion (DESIGN.md §4.5)."""
import json
import os
import shutil
import vfcore
from vfcore import VERIF

META = {
    "engine": "conc", "level": "exploration", "design_ref": "DESIGN.md §4.5 C46",
    "technique": "histories of real mfront processes in a private /dev/shm; hook event log (enter/exit markers, hold delay injected inside the section) checked offline for overlapping holders; semaphore value read at every quiescent point",
    "text": "Generated histories (k sequential runs that do or do not take the lock, exiting normally or with an error, then m concurrent runs in one directory with a hook-injected hold time inside the critical section) are executed with the real mfront binary; the monitor rejects any two processes inside a guarded section at overlapping times and any semaphore value above the one it was created with. Only executed schedules are judged; the 'all interleavings (model)' half of the quantifier is out of reach for runtime monitoring.",
    "note": "Trusted: CLOCK_MONOTONIC comparable across processes; the enter marker is written after sem_wait returned and the exit marker before sem_post, so logged intervals are inside the real critical sections. Runs killed while holding the lock are excluded (property speaks of normal exits).",
}

RUNS = {
    "mp-c": (["--interface=c", "mp.mfront"], True),
    "mp-cxx": (["--interface=c++", "mp.mfront"], True),
    "beh": (["--interface=generic", "beh.mfront"], True),
    "bad": (["--interface=c", "bad.mfront"], None),   # error exit; may or may not reach the lock
    "nolock": (["--list-stress-criteria"], False),
}


def build(ctx):
    return {"hook": vfcore.hooklib(),
            "semval": vfcore.compile_c("semval", [VERIF / "harness/conc/semval.c"])}


def gen_history(g):
    k = g.randint(0, 5)
    seq = [g.choice(list(RUNS)) for _ in range(k)]
    m = g.randint(2, 8)
    par = [g.choice(["mp-c", "mp-cxx", "beh"]) for _ in range(m)]
    hold = g.choice([2000, 10000, 20000, 40000])
    return {"seq": seq, "par": par, "hold_us": hold, "second_round": g.random() < 0.3}


def run_history(ctx, b, idx, h):
    w = ctx.work / ("h%d" % idx)
    w.mkdir()
    for f in (VERIF / "corpus/c46").glob("*.mfront"):
        shutil.copy(f, w)
    log = w / "hook.log"
    mf = vfcore.tool("plain", "mfront")
    steps = []
    for name in h["seq"]:
        steps.append({"par": False, "runs": [{"cwd": str(w), "args": RUNS[name][0]}]})
    delays = "lock.enter=%d" % h["hold_us"]
    steps.append({"par": True, "runs": [{"cwd": str(w), "args": RUNS[n][0], "delays": delays} for n in h["par"]]})
    if h["second_round"]:
        steps.append({"par": True, "runs": [{"cwd": str(w), "args": RUNS[n][0], "delays": delays} for n in h["par"][:3]]})
    spec = {"mfront": str(mf), "semval": str(b["semval"]), "semname": "/mfront-%d" % os.geteuid(),
            "env": {"LD_PRELOAD": str(b["hook"]), "VF_HOOK_LOG": str(log), "VF_HOOK_SEED": str(ctx.seed + idx),
                    "LD_LIBRARY_PATH": vfcore.ld_path("plain")},
            "steps": steps}
    (w / "spec.json").write_text(json.dumps(spec))
    cmd = vfcore.isolated(["python3", str(VERIF / "harness/conc/c46_driver.py"), str(w / "spec.json")])
    r = vfcore.run(cmd, timeout=400, cwd=w)
    return idx, h, r, vfcore.read_hooklog(log)


def run(ctx):
    b = build(ctx)
    vfcore.ensure_tree("plain")
    if not vfcore.unshare_prefix():
        ctx.inconc("unshare -m with a private /dev/shm is not available: the named semaphore cannot be isolated")
        return
    n = ctx.n(48, 1500)
    hs = [(i, gen_history(vfcore.rng(ctx.seed, "c46", i))) for i in range(n)]
    ctx.cov["rule"] = ("history = k in 0..5 sequential mfront runs drawn from %s, then m in 2..8 concurrent lock-taking runs in the "
                       "same directory with a hold delay injected inside the critical section; distinct = distinct (seq, par, hold) "
                       "tuples; non-trivial = at least two processes entered a guarded section in the concurrent step" % sorted(RUNS))
    sections = 0
    maxsem = 0
    contended = 0
    min_gap_ns = None
    for idx, h, r, ev in vfcore.pmap(lambda a: run_history(ctx, b, a[0], a[1]), hs, workers=8):
        ctx.add_eval()
        if r.timed_out or r.rc != 0:
            ctx.inconc("history %d: driver failed rc=%s %s" % (idx, r.rc, r.err[-500:]))
            continue
        res = json.loads(r.out.strip().splitlines()[-1])
        # (i) semaphore value at quiescent points
        for si, st in enumerate(res["steps"]):
            hung = [x for x in st["runs"] if x["rc"] == "timeout"]
            if hung:
                ctx.violation("hang:step-after-%d-runs" % si, "mfront run(s) never finished in history %s (lock never granted?)" % h,
                              {"history": h, "step": si})
            if st["sem"] not in ("none", "error"):
                v = int(st["sem"])
                maxsem = max(maxsem, v)
                if v > 1:
                    kinds = h["seq"][:si + 1] if si < len(h["seq"]) else ["concurrent"]
                    ctx.violation("semvalue>1:after-%s" % ("normal-exit" if kinds[-1] != "bad" else "error-exit"),
                                  "semaphore value %d (> initial 1) at the quiescent point after step %d of history %s: "
                                  "%d holders would be admitted" % (v, si, h, v), {"history": h, "step": si, "sem": v})
                    break
            elif st["sem"] == "error":
                ctx.inconc("cannot read semaphore")
        # (ii) overlap of critical sections
        depth = 0
        inside = {}
        last_exit = None
        pids_in = set()
        for ns, pid, tid, site, _ in ev:
            if site == "lock.enter":
                sections += 1
                pids_in.add(pid)
                if last_exit is not None and last_exit[1] != pid:
                    gap = ns - last_exit[0]
                    min_gap_ns = gap if min_gap_ns is None else min(min_gap_ns, gap)
                if inside:
                    other = next(iter(inside))
                    ctx.violation("overlap:two-holders",
                                  "process %d entered a lock-protected section at t=%d ns while process %d was inside (since %d) in history %s"
                                  % (pid, ns, other, inside[other], h), {"history": h, "events": ev[:200]})
                inside[pid] = ns
            elif site == "lock.exit":
                inside.pop(pid, None)
                last_exit = (ns, pid)
        if len(pids_in) >= 2:
            contended += 1
            ctx.add_distinct(vfcore.sha(json.dumps(h, sort_keys=True)))
        ctx.sample({"history": h, "sem_after_steps": [s["sem"] for s in res["steps"]], "sections": len([e for e in ev if e[3] == "lock.enter"])}, cap=4)
    ctx.cov.update({"critical_sections_observed": sections, "histories_with_2+_processes_in_sections": contended,
                    "max_semaphore_value_seen": maxsem,
                    "min_gap_between_sections_of_different_processes_ns": min_gap_ns})
    ctx.require(sections >= 4 * n // 2, "too few critical sections observed (%d): hook not reached" % sections)
    ctx.require(contended >= n // 2, "too few histories with concurrent holders candidates (%d)" % contended)
