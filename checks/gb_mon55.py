"""gb_mon55.py — numpy monitor of C55 (worker side): a small-strain linear elastic behaviour used
through @StrainMeasure GreenLagrange / Hencky returns the Saint-Venant Kirchhoff / Hencky
hyperelastic stress in the requested stress measure, and the requested tangent operator is the
derivative of the returned stress.

Reference (independent, 3x3 numpy): C = F^T F = sum c_i N_i x N_i (numpy.linalg.eigh),
  E_GL = (C - I)/2, E_log = sum ln(c_i)/2 N_i x N_i,
  GreenLagrange: S = lambda tr(E_GL) I + 2 mu E_GL
  Hencky       : T = lambda tr(E_log) I + 2 mu E_log, dual to E_log:  S : dE_GL = T : dE_log  for all dE_GL
                 =>  S = T : d(log C)/dC = sum_ij theta_ij (N_i.T.N_j) N_i x N_j,
                 theta_ij = (ln c_i - ln c_j)/(c_i - c_j)  (1/c_i when c_i = c_j)
  sigma = F S F^T / det F ,  PK1 = F S.
The conversion T -> S is checked at start-up by finite differences of E_log (work conjugacy)."""
import math
import random

import numpy as np

import gbnp
from gbnp import SSIZE, TSIZE, st2m, m2st, t2m, m2t
from checks import gb_mon41 as M
from checks.gb_mon41 import fl, hexs

ULP = gbnp.EPS
HYP_DIM = gbnp.gen.HYP_DIM


def log_strain(F):
    c, N = np.linalg.eigh(F.T @ F)
    return (N * (0.5 * np.log(c))) @ N.T, c, N


def dual_of_log(T, c, N):
    """S such that S : dE_GL = T : dE_log"""
    Tn = N.T @ T @ N
    S = np.zeros((3, 3))
    for i in range(3):
        for j in range(3):
            if abs(c[i] - c[j]) > 1e-9 * (c[i] + c[j]):
                th = (math.log(c[i]) - math.log(c[j])) / (c[i] - c[j])
            else:
                # expansion of the divided difference of log around the mean
                m = 0.5 * (c[i] + c[j])
                d = (c[i] - c[j]) / m
                th = (1 + d * d / 12) / m
            S += th * Tn[i, j] * np.outer(N[:, i], N[:, j])
    return S


def reference(measure, young, nu, F):
    la, mu = gbnp.lame(young, nu)
    J = np.linalg.det(F)
    if measure == "GreenLagrange":
        E = 0.5 * (F.T @ F - np.eye(3))
        S = la * np.trace(E) * np.eye(3) + 2 * mu * E
    else:
        El, c, N = log_strain(F)
        T = la * np.trace(El) * np.eye(3) + 2 * mu * El
        S = dual_of_log(T, c, N)
    sig = F @ S @ F.T / J
    P = F @ S
    return {"S": S, "sig": sig, "P": P}


def self_test():
    g = random.Random(7)
    for _ in range(20):
        F = rand_F(g, 3)
        El, c, N = log_strain(F)
        T = np.array([[g.uniform(-1, 1) for _ in range(3)] for _ in range(3)])
        T = T + T.T
        S = dual_of_log(T, c, N)
        dE = np.array([[g.uniform(-1, 1) for _ in range(3)] for _ in range(3)])
        dE = dE + dE.T
        # directional finite difference of E_log along dE_GL (C = 2 E + I)
        C = F.T @ F

        def elog(Cx):
            cc, NN = np.linalg.eigh(Cx)
            return (NN * (0.5 * np.log(cc))) @ NN.T
        h = 1e-5
        d1 = (elog(C + 2 * h * dE) - elog(C - 2 * h * dE)) / (2 * h)
        d2 = (elog(C + h * dE) - elog(C - h * dE)) / h
        dEl = (4 * d2 - d1) / 3
        a, b = float(np.sum(S * dE)), float(np.sum(T * dEl))
        assert abs(a - b) <= 1e-7 * (abs(a) + abs(b) + 1e-3), (a, b)
    # coaxial closed form S = sum T_i / c_i N_i x N_i
    F = rand_F(g, 3)
    El, c, N = log_strain(F)
    T = 3.0 * np.trace(El) * np.eye(3) + 2 * El
    S1 = dual_of_log(T, c, N)
    Tn = N.T @ T @ N
    S2 = sum(Tn[i, i] / c[i] * np.outer(N[:, i], N[:, i]) for i in range(3))
    assert np.allclose(S1, S2, atol=1e-12)


def rand_F(g, dim, lo=0.5, hi=2.0, max_angle=math.pi):
    """F = R U, principal stretches log-uniform in [lo, hi]"""
    st = [math.exp(g.uniform(math.log(lo), math.log(hi))) for _ in range(3)]
    if dim == 3:
        Q = gbnp.rand_rotation(g)
        R = gbnp.rand_rotation(g, max_angle)
    elif dim == 2:
        Q = gbnp.rot_z(g.uniform(-math.pi, math.pi))
        R = gbnp.rot_z(g.uniform(-max_angle, max_angle))
    else:
        Q = np.eye(3)
        R = np.eye(3)
    U = Q @ np.diag(st) @ Q.T
    return R @ U


def min_gap(F):
    c = np.sqrt(np.linalg.eigvalsh(F.T @ F))
    return float(min(abs(c[0] - c[1]), abs(c[1] - c[2]), abs(c[0] - c[2])))


def st_mandel_basis(dim):
    out = []
    for k in range(SSIZE[dim]):
        v = np.zeros(SSIZE[dim])
        v[k] = 1.0
        out.append(st2m(v))
    return out


def sqrtm_sym(A):
    w, V = np.linalg.eigh(A)
    return (V * np.sqrt(w)) @ V.T


def mon(R, s, g, ncase, nfd):
    lib = gbnp.gen.load(s["lib"])
    name, measure = s["name"], s["measure"]
    for hyp in gbnp.hypotheses(lib, name):
        dim = HYP_DIM[hyp]
        ns, nt = SSIZE[dim], TSIZE[dim]
        # one entry point; buffers large enough for every (stress measure, operator) choice
        b = gbnp.B(lib, name, hyp, ngrad=nt, nthf=nt, ktsize=max(nt * nt, 36) + 4)
        for icase in range(ncase):
            young, nu = M.rand_elastic(g)
            la, mu = gbnp.lame(young, nu)
            stratum = g.choice(["general", "general", "general", "two-equal-stretches", "spherical", "small-strain"])
            if stratum == "general":
                F1 = rand_F(g, dim)
            elif stratum == "small-strain":
                F1 = rand_F(g, dim, 0.999, 1.001)
            elif stratum == "spherical":
                x = math.exp(g.uniform(math.log(0.5), math.log(2.0)))
                F1 = (gbnp.rand_rotation(g) if dim == 3 else (gbnp.rot_z(g.uniform(-math.pi, math.pi)) if dim == 2 else np.eye(3))) * x
            else:
                a, c_ = [math.exp(g.uniform(math.log(0.5), math.log(2.0))) for _ in range(2)]
                Q = gbnp.rand_rotation(g) if dim == 3 else np.eye(3)
                Rr = gbnp.rand_rotation(g) if dim == 3 else (gbnp.rot_z(g.uniform(-math.pi, math.pi)) if dim == 2 else np.eye(3))
                F1 = Rr @ (Q @ np.diag([a, a, c_]) @ Q.T)
            F0 = rand_F(g, dim, 0.8, 1.25)
            gap = min_gap(F1)
            f0v, f1v = m2t(F0, dim), m2t(F1, dim)
            mp = b.pack_mp(YoungModulus=young, PoissonRatio=nu)
            ref = reference(measure, young, nu, F1)
            ref0 = reference(measure, young, nu, F0)
            sscale = float(np.max(np.abs(ref["S"]))) * max(1.0, float(np.max(np.abs(F1))) ** 2) + 1e-3 * young * 1e-6
            # conditioning of the spectral formulas when two stretches are close but different
            cond = 1.0 if (gap == 0.0 or gap > 1e-2 or stratum in ("two-equal-stretches", "spherical")) else 1e-2 / gap
            # ---- finite-difference references of the documented operator flavours (+ dtau/dDF, K[2]=3 of
            # Integrate.hxx::getTangentOperator), built once per case from the behaviour's own stress output in the stress
            # measure each flavour differentiates (that output is judged against the closed form below)
            FLAV = {0: ("dsig_dF", 0, ns, nt), 1: ("dS_dEGL", 1, ns, ns), 2: ("dPK1_dF", 2, nt, nt), 3: ("dtau_dDF", 0, ns, nt)}
            refs = {}
            if icase < nfd:
                thf_of = {0: m2st(ref0["sig"], dim), 1: m2st(ref0["S"], dim), 2: m2t(ref0["P"], dim)}
                Rp = F1 @ np.linalg.inv(sqrtm_sym(F1.T @ F1))
                for to, (key_t, smf, nrow, ncol) in FLAV.items():
                    if to == 1:
                        x0 = m2st(0.5 * (F1.T @ F1 - np.eye(3)), dim)

                        def f(x, smf=smf, nrow=nrow):
                            U = sqrtm_sym(2 * st2m(x) + np.eye(3))
                            q = b.call(0, 1.0, f0v, m2t(Rp @ U, dim), thf_of[smf], mp, [], b.pack_esv(), b.pack_esv(), K_extra=(smf, 1))
                            return np.array(q["thf"][:nrow]) if q["rc"] == 1 else None
                    elif to == 3:
                        x0 = m2t(F1 @ np.linalg.inv(F0), dim)

                        def f(x, smf=smf, nrow=nrow):
                            Fx = t2m(x) @ F0
                            q = b.call(0, 1.0, f0v, m2t(Fx, dim), thf_of[smf], mp, [], b.pack_esv(), b.pack_esv(), K_extra=(smf, 0))
                            return np.linalg.det(Fx) * np.array(q["thf"][:nrow]) if q["rc"] == 1 else None
                    else:
                        x0 = f1v

                        def f(x, smf=smf, nrow=nrow, to=to):
                            q = b.call(0, 1.0, f0v, x, thf_of[smf], mp, [], b.pack_esv(), b.pack_esv(), K_extra=(smf, to))
                            return np.array(q["thf"][:nrow]) if q["rc"] == 1 else None
                    J, E = gbnp.richardson_jacobian(f, x0, np.full(ncol, 2e-5))
                    R.n += 6 * ncol
                    if any(j is None for j in J):
                        refs[to] = None
                    else:
                        refs[to] = (np.array(J).T, float(np.max(np.array(E))))
            for sm in (0, 1, 2):
                key_m = {0: "Cauchy", 1: "PK2", 2: "PK1"}[sm]
                thf0 = {0: m2st(ref0["sig"], dim), 1: m2st(ref0["S"], dim), 2: m2t(ref0["P"], dim)}[sm]
                exp = {0: m2st(ref["sig"], dim), 1: m2st(ref["S"], dim), 2: m2t(ref["P"], dim)}[sm]
                for to in (0, 1, 2, 3):
                    key_t, smf, nrow, ncol = FLAV[to]
                    o = b.call(4, 1.0, f0v, f1v, thf0, mp, [], b.pack_esv(), b.pack_esv(), K_extra=(sm, to))
                    R.n += 1
                    case = lambda: {"behaviour": name, "hyp": hyp, "young": young, "nu": nu, "F0": hexs(f0v), "F1": hexs(f1v), "K1": sm, "K2": to,
                                    "stratum": stratum, "stretch_gap": gap, "rc": o["rc"], "msg": o["msg"], "thf": fl(o["thf"][:len(exp)]),
                                    "expected": fl(exp)}
                    if o["rc"] != 1:
                        R.violation("%s:%s:%s/%s:integration-failed" % (name, hyp, key_m, key_t),
                                    "elastic finite-strain step returned %d: %s" % (o["rc"], o["msg"]), case())
                        continue
                    got = np.array(o["thf"][:len(exp)])
                    R.rec("%s:%s:stress:%s" % (name, hyp, key_m), float(np.max(np.abs(got - exp))), 1e-12 * cond * sscale, case,
                          "returned %s stress differs from the %s reference (operator request %s): got %s expected %s"
                          % (key_m, "Saint-Venant Kirchhoff" if measure == "GreenLagrange" else "Hencky", key_t, fl(got), fl(exp)),
                          vkey="%s:%s:stress:%s:with-%s:%s" % (name, hyp, key_m, key_t, stratum))
                    # the stress must not depend on the operator requested (nor on its request)
                    if to == 0:
                        o0 = b.call(0, 1.0, f0v, f1v, thf0, mp, [], b.pack_esv(), b.pack_esv(), K_extra=(sm, to))
                        R.n += 1
                        R.rec("%s:%s:stress-independent-of-request:%s" % (name, hyp, key_m),
                              float(np.max(np.abs(np.array(o0["thf"][:len(exp)]) - got))) if o0["rc"] == 1 else float("inf"), 1e-11 * sscale, case,
                              "stress returned without operator request differs")
                    if icase >= nfd:
                        continue
                    # ---- the operator of flavour K[2] must be the same derivative whatever the stress measure K[1] requested
                    skey = "%s:%dD:tangent:%s:with-%s" % (name, dim, key_t, key_m)
                    if refs.get(to) is None:
                        R.skip(skey)
                        continue
                    Jm, est = refs[to]
                    K = np.array(o["K"][:nrow * ncol]).reshape(nrow, ncol)
                    kscale = max(float(np.max(np.abs(K))), float(np.max(np.abs(Jm))))
                    if not (est <= 1e-6 * kscale):
                        R.skip(skey)
                        continue
                    err = float(np.max(np.abs(K - Jm)))
                    tol = 50 * est + 1e-7 * cond * kscale + 64 * ULP * sscale / (2e-5 / 4)
                    R.rec(skey, err, tol,
                          lambda: dict(case(), K=fl(K.ravel()), FD=fl(Jm.ravel()), fd_error_estimate=est),
                          "operator %s returned with the %s stress measure differs from the finite-difference derivative: max|K-FD|=%.4g (|K|max=%.4g)"
                          % (key_t, key_m, err, kscale), vkey=skey)
            if icase < 1 and hyp == "Tridimensional":
                R.samples.append({"behaviour": name, "hyp": hyp, "F1": fl(f1v), "young": young, "nu": nu, "sig": fl(m2st(ref["sig"], dim))})
        R.distinct += ncase


def run(group, seed, ncase, nfd):
    self_test()
    R = M.Strata()
    for s in group:
        mon(R, s, random.Random("c55/%s/%s" % (seed, s["name"])), ncase, nfd)
    return R.report()
