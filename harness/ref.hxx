// ref.hxx — slow, obvious long-double reference models (3x3 matrices, 3x3x3x3 tensors,
// cyclic Jacobi) used by the math monitors.  Written from the *definitions* (storage
// conventions documented in docs/web/tensors.md), never from the TFEL code paths.
#ifndef VERIF_REF_HXX
#define VERIF_REF_HXX
#include <array>
#include <cmath>
#include <algorithm>
#include "vfh.hxx"

namespace ref {
using L = long double;
using M3 = std::array<std::array<L, 3>, 3>;
using V3 = std::array<L, 3>;
struct T4 { L v[3][3][3][3]; };

inline M3 zero() { M3 m{}; for (auto& r : m) r.fill(0); return m; }
inline M3 eye() { M3 m = zero(); m[0][0] = m[1][1] = m[2][2] = 1; return m; }
inline M3 mul(const M3& a, const M3& b) {
  M3 c = zero();
  for (int i = 0; i < 3; ++i) for (int j = 0; j < 3; ++j) for (int k = 0; k < 3; ++k) c[i][j] += a[i][k] * b[k][j];
  return c;
}
inline M3 tr(const M3& a) { M3 c; for (int i = 0; i < 3; ++i) for (int j = 0; j < 3; ++j) c[i][j] = a[j][i]; return c; }
inline M3 add(const M3& a, const M3& b, L s = 1) { M3 c; for (int i = 0; i < 3; ++i) for (int j = 0; j < 3; ++j) c[i][j] = a[i][j] + s * b[i][j]; return c; }
inline M3 scal(const M3& a, L s) { M3 c; for (int i = 0; i < 3; ++i) for (int j = 0; j < 3; ++j) c[i][j] = s * a[i][j]; return c; }
inline L trace(const M3& a) { return a[0][0] + a[1][1] + a[2][2]; }
inline L det(const M3& a) {
  return a[0][0] * (a[1][1] * a[2][2] - a[1][2] * a[2][1]) - a[0][1] * (a[1][0] * a[2][2] - a[1][2] * a[2][0]) +
         a[0][2] * (a[1][0] * a[2][1] - a[1][1] * a[2][0]);
}
inline L dot(const M3& a, const M3& b) { L s = 0; for (int i = 0; i < 3; ++i) for (int j = 0; j < 3; ++j) s += a[i][j] * b[i][j]; return s; }
inline L norm(const M3& a) { return std::sqrt(dot(a, a)); }
inline L maxabs(const M3& a) { L s = 0; for (auto& r : a) for (L x : r) s = std::max(s, std::fabs(x)); return s; }
inline M3 inv(const M3& a) {
  const L d = det(a);
  M3 c;
  c[0][0] = (a[1][1] * a[2][2] - a[1][2] * a[2][1]) / d;
  c[0][1] = (a[0][2] * a[2][1] - a[0][1] * a[2][2]) / d;
  c[0][2] = (a[0][1] * a[1][2] - a[0][2] * a[1][1]) / d;
  c[1][0] = (a[1][2] * a[2][0] - a[1][0] * a[2][2]) / d;
  c[1][1] = (a[0][0] * a[2][2] - a[0][2] * a[2][0]) / d;
  c[1][2] = (a[0][2] * a[1][0] - a[0][0] * a[1][2]) / d;
  c[2][0] = (a[1][0] * a[2][1] - a[1][1] * a[2][0]) / d;
  c[2][1] = (a[0][1] * a[2][0] - a[0][0] * a[2][1]) / d;
  c[2][2] = (a[0][0] * a[1][1] - a[0][1] * a[1][0]) / d;
  return c;
}
inline M3 sym(const M3& a) { return scal(add(a, tr(a)), 0.5L); }
inline M3 dev(const M3& a) { M3 c = a; L t = trace(a) / 3; for (int i = 0; i < 3; ++i) c[i][i] -= t; return c; }
inline L dist(const M3& a, const M3& b) { return norm(add(a, b, -1)); }

// ---- storage conventions -------------------------------------------------------------
// stensor<N>: [xx yy zz | sqrt2 xy | sqrt2 xz  sqrt2 yz]   sizes 3,4,6
inline constexpr int ssize(int N) { return N == 1 ? 3 : (N == 2 ? 4 : 6); }
inline constexpr int tsize(int N) { return N == 1 ? 3 : (N == 2 ? 5 : 9); }
static const int SI[6] = {0, 1, 2, 0, 0, 1};
static const int SJ[6] = {0, 1, 2, 1, 2, 2};
// tensor<N>: [xx yy zz | xy yx | xz zx yz zy]
static const int TI[9] = {0, 1, 2, 0, 1, 0, 2, 1, 2};
static const int TJ[9] = {0, 1, 2, 1, 0, 2, 0, 2, 1};
static const L SQ2 = 1.41421356237309504880168872420969808L;

template <typename S>
inline M3 from_st(const S& s, int N) {
  M3 m = zero();
  for (int k = 0; k < ssize(N); ++k) {
    L v = static_cast<L>(s[k]);
    if (k < 3) m[k][k] = v;
    else { m[SI[k]][SJ[k]] = v / SQ2; m[SJ[k]][SI[k]] = v / SQ2; }
  }
  return m;
}
// vector (size ssize(N)) of a symmetric matrix
inline std::array<L, 6> to_st(const M3& m, int N) {
  std::array<L, 6> s{};
  for (int k = 0; k < ssize(N); ++k) s[k] = (k < 3) ? m[k][k] : SQ2 * 0.5L * (m[SI[k]][SJ[k]] + m[SJ[k]][SI[k]]);
  return s;
}
template <typename T>
inline M3 from_t(const T& t, int N) {
  M3 m = zero();
  for (int k = 0; k < tsize(N); ++k) m[TI[k]][TJ[k]] = static_cast<L>(t[k]);
  return m;
}
inline std::array<L, 9> to_t(const M3& m, int N) {
  std::array<L, 9> t{};
  for (int k = 0; k < tsize(N); ++k) t[k] = m[TI[k]][TJ[k]];
  return t;
}
// is the matrix representable in dimension N (no out-of-plane shear)?
inline bool fits(const M3& m, int N) {
  for (int i = 0; i < 3; ++i) for (int j = 0; j < 3; ++j) {
    if (i == j) continue;
    bool allowed = (N == 3) || (N == 2 && i < 2 && j < 2);
    if (!allowed && m[i][j] != 0) return false;
  }
  return true;
}

// ---- fourth order ---------------------------------------------------------------------
inline T4 t4zero() { T4 t; std::memset(&t, 0, sizeof t); return t; }
// st2tost2 (ssize x ssize, Mandel weights) -> full tensor with minor symmetries
template <typename A>
inline T4 from_st2tost2(const A& a, int N) {
  T4 t = t4zero();
  const int n = ssize(N);
  for (int p = 0; p < n; ++p) for (int q = 0; q < n; ++q) {
    L w = static_cast<L>(a(p, q));
    if (p >= 3) w /= SQ2;
    if (q >= 3) w /= SQ2;
    int i = SI[p], j = SJ[p], k = SI[q], l = SJ[q];
    t.v[i][j][k][l] = w; t.v[j][i][k][l] = w; t.v[i][j][l][k] = w; t.v[j][i][l][k] = w;
  }
  return t;
}
// component (p,q) of the st2tost2 representing a minor-symmetric T4
inline L st2tost2_comp(const T4& t, int p, int q) {
  L w = t.v[SI[p]][SJ[p]][SI[q]][SJ[q]];
  if (p >= 3) w *= SQ2;
  if (q >= 3) w *= SQ2;
  return w;
}
template <typename A>
inline T4 from_t2tot2(const A& a, int N) {
  T4 t = t4zero();
  const int n = tsize(N);
  for (int p = 0; p < n; ++p) for (int q = 0; q < n; ++q) t.v[TI[p]][TJ[p]][TI[q]][TJ[q]] = static_cast<L>(a(p, q));
  return t;
}
// t2tost2: rows symmetric (Mandel), columns full
template <typename A>
inline T4 from_t2tost2(const A& a, int N) {
  T4 t = t4zero();
  for (int p = 0; p < ssize(N); ++p) for (int q = 0; q < tsize(N); ++q) {
    L w = static_cast<L>(a(p, q));
    if (p >= 3) w /= SQ2;
    t.v[SI[p]][SJ[p]][TI[q]][TJ[q]] = w; t.v[SJ[p]][SI[p]][TI[q]][TJ[q]] = w;
  }
  return t;
}
// st2tot2: rows full, columns symmetric (Mandel)
template <typename A>
inline T4 from_st2tot2(const A& a, int N) {
  T4 t = t4zero();
  for (int p = 0; p < tsize(N); ++p) for (int q = 0; q < ssize(N); ++q) {
    L w = static_cast<L>(a(p, q));
    if (q >= 3) w /= SQ2;
    t.v[TI[p]][TJ[p]][SI[q]][SJ[q]] = w; t.v[TI[p]][TJ[p]][SJ[q]][SI[q]] = w;
  }
  return t;
}
inline M3 ddot(const T4& t, const M3& m) {
  M3 r = zero();
  for (int i = 0; i < 3; ++i) for (int j = 0; j < 3; ++j) for (int k = 0; k < 3; ++k) for (int l = 0; l < 3; ++l)
    r[i][j] += t.v[i][j][k][l] * m[k][l];
  return r;
}
inline M3 ddot(const M3& m, const T4& t) {
  M3 r = zero();
  for (int i = 0; i < 3; ++i) for (int j = 0; j < 3; ++j) for (int k = 0; k < 3; ++k) for (int l = 0; l < 3; ++l)
    r[k][l] += m[i][j] * t.v[i][j][k][l];
  return r;
}
inline T4 ddot(const T4& a, const T4& b) {
  T4 r = t4zero();
  for (int i = 0; i < 3; ++i) for (int j = 0; j < 3; ++j) for (int k = 0; k < 3; ++k) for (int l = 0; l < 3; ++l)
    for (int m = 0; m < 3; ++m) for (int n = 0; n < 3; ++n) r.v[i][j][k][l] += a.v[i][j][m][n] * b.v[m][n][k][l];
  return r;
}
inline T4 otimes(const M3& a, const M3& b) {
  T4 r;
  for (int i = 0; i < 3; ++i) for (int j = 0; j < 3; ++j) for (int k = 0; k < 3; ++k) for (int l = 0; l < 3; ++l)
    r.v[i][j][k][l] = a[i][j] * b[k][l];
  return r;
}
inline L t4norm(const T4& a) { L s = 0; const L* p = &a.v[0][0][0][0]; for (int i = 0; i < 81; ++i) s += p[i] * p[i]; return std::sqrt(s); }
inline L t4dist(const T4& a, const T4& b) {
  L s = 0; const L* p = &a.v[0][0][0][0]; const L* q = &b.v[0][0][0][0];
  for (int i = 0; i < 81; ++i) s += (p[i] - q[i]) * (p[i] - q[i]);
  return std::sqrt(s);
}
// restrict a T4 to the components representable in dimension N (others zeroed) — used to
// compare with library objects that simply do not store them
inline bool in_dim(int i, int j, int N) { return i == j || N == 3 || (N == 2 && i < 2 && j < 2); }
inline T4 restrict_dim(const T4& a, int N) {
  T4 r = a;
  for (int i = 0; i < 3; ++i) for (int j = 0; j < 3; ++j) for (int k = 0; k < 3; ++k) for (int l = 0; l < 3; ++l)
    if (!in_dim(i, j, N) || !in_dim(k, l, N)) r.v[i][j][k][l] = 0;
  return r;
}

// ---- rotations -------------------------------------------------------------------------
inline M3 rot_from_quat(L w, L x, L y, L z) {
  L n = std::sqrt(w * w + x * x + y * y + z * z);
  w /= n; x /= n; y /= n; z /= n;
  M3 r;
  r[0][0] = 1 - 2 * (y * y + z * z); r[0][1] = 2 * (x * y - z * w); r[0][2] = 2 * (x * z + y * w);
  r[1][0] = 2 * (x * y + z * w); r[1][1] = 1 - 2 * (x * x + z * z); r[1][2] = 2 * (y * z - x * w);
  r[2][0] = 2 * (x * z - y * w); r[2][1] = 2 * (y * z + x * w); r[2][2] = 1 - 2 * (x * x + y * y);
  return r;
}
// random rotation; in dimension 1 the identity, in dimension 2 a rotation about z
inline M3 random_rotation(vf::Rng& g, int N, int kind = 0) {
  if (N == 1) return eye();
  if (N == 2) {
    L a = kind == 1 ? 0 : (kind == 2 ? 1.57079632679489661923L : g.uni(-3.2, 3.2));
    if (kind == 3) a = g.uni(-1e-6, 1e-6);
    M3 r = eye();
    r[0][0] = std::cos(a); r[0][1] = -std::sin(a); r[1][0] = std::sin(a); r[1][1] = std::cos(a);
    return r;
  }
  if (kind == 1) return eye();
  if (kind == 2) {  // signed permutation with det +1
    M3 r = zero();
    int p[3] = {0, 1, 2};
    for (int i = 2; i > 0; --i) std::swap(p[i], p[g.irange(0, i)]);
    for (int i = 0; i < 3; ++i) r[i][p[i]] = g.sign();
    if (det(r) < 0) for (int j = 0; j < 3; ++j) r[0][j] = -r[0][j];
    return r;
  }
  if (kind == 3) return rot_from_quat(1, g.uni(-1e-6, 1e-6), g.uni(-1e-6, 1e-6), g.uni(-1e-6, 1e-6));
  return rot_from_quat(g.normal(), g.normal(), g.normal(), g.normal());
}

// ---- cyclic Jacobi (long double) -------------------------------------------------------
// eigenvalues in w (unsorted), eigenvectors as columns of v
inline void jacobi(M3 a, V3& w, M3& v) {
  v = eye();
  for (int sweep = 0; sweep < 100; ++sweep) {
    L off = std::fabs(a[0][1]) + std::fabs(a[0][2]) + std::fabs(a[1][2]);
    L diag = std::fabs(a[0][0]) + std::fabs(a[1][1]) + std::fabs(a[2][2]);
    if (off == 0 || off <= 1e-40L * diag) break;
    for (int p = 0; p < 2; ++p) for (int q = p + 1; q < 3; ++q) {
      if (a[p][q] == 0) continue;
      L theta = (a[q][q] - a[p][p]) / (2 * a[p][q]);
      L t = (theta >= 0 ? 1 : -1) / (std::fabs(theta) + std::sqrt(theta * theta + 1));
      L c = 1 / std::sqrt(t * t + 1), s = t * c;
      for (int k = 0; k < 3; ++k) { L akp = a[k][p], akq = a[k][q]; a[k][p] = c * akp - s * akq; a[k][q] = s * akp + c * akq; }
      for (int k = 0; k < 3; ++k) { L apk = a[p][k], aqk = a[q][k]; a[p][k] = c * apk - s * aqk; a[q][k] = s * apk + c * aqk; }
      for (int k = 0; k < 3; ++k) { L vkp = v[k][p], vkq = v[k][q]; v[k][p] = c * vkp - s * vkq; v[k][q] = s * vkp + c * vkq; }
    }
  }
  for (int i = 0; i < 3; ++i) w[i] = a[i][i];
}
inline V3 eigvals_sorted(const M3& a) {
  V3 w; M3 v; jacobi(a, w, v);
  std::sort(w.begin(), w.end());
  return w;
}
// f(A) = sum f(l_i) n_i x n_i
template <typename F>
inline M3 isofun(const M3& a, F f) {
  V3 w; M3 v; jacobi(a, w, v);
  M3 r = zero();
  for (int k = 0; k < 3; ++k) { L fk = f(w[k]); for (int i = 0; i < 3; ++i) for (int j = 0; j < 3; ++j) r[i][j] += fk * v[i][k] * v[j][k]; }
  return r;
}

// ---- random symmetric / general matrices in dimension N -------------------------------
inline M3 random_sym(vf::Rng& g, int N, L scale = 1) {
  M3 m = zero();
  for (int k = 0; k < ssize(N); ++k) { L v = scale * g.uni(-1, 1); m[SI[k]][SJ[k]] = v; m[SJ[k]][SI[k]] = v; }
  return m;
}
inline M3 random_gen(vf::Rng& g, int N, L scale = 1) {
  M3 m = zero();
  for (int k = 0; k < tsize(N); ++k) m[TI[k]][TJ[k]] = scale * g.uni(-1, 1);
  return m;
}
// deformation gradient F = R U, principal stretches in [smin,smax], representable in dim N
inline M3 random_F(vf::Rng& g, int N, L smin = 0.5L, L smax = 2.0L) {
  M3 q = random_rotation(g, N), r = random_rotation(g, N);
  M3 d = zero();
  for (int i = 0; i < 3; ++i) d[i][i] = g.uni(smin, smax);
  M3 u = mul(mul(q, d), tr(q));
  return mul(r, u);
}

}  // namespace ref
#endif
