/* c30_child CODE DELAY_US SIG — test child: sleeps DELAY_US then exits with CODE, or kills itself with SIG (>0) */
#include <signal.h>
#include <stdlib.h>
#include <sys/resource.h>
#include <time.h>
#include <unistd.h>
int main(int argc, char** argv) {
  if (argc < 4) return 99;
  int code = atoi(argv[1]);
  long us = atol(argv[2]);
  int sig = atoi(argv[3]);
  if (us > 0) { struct timespec d = {us / 1000000, (us % 1000000) * 1000}; nanosleep(&d, 0); }
  if (sig > 0) {
    struct rlimit rl = {0, 0};
    setrlimit(RLIMIT_CORE, &rl);
    signal(sig, SIG_DFL);
    kill(getpid(), sig);
    pause();
  }
  return code;
}
