"""C17 — expression templates and views behave like eager element-wise code."""
import sys
from pathlib import Path

import vfcore

sys.path.insert(0, str(vfcore.VERIF / "lib"))
import etgen  # noqa: E402

META = {
    "engine": "math", "level": "exploration", "design_ref": "DESIGN.md §4.1 C17",
    "technique": "per-seed generated C++ programs (lib/etgen.py: one TFEL statement each, operator trees over arrays and "
                 "documented views) compiled with ASan+UBSan+assert; every store (heap buffer with red zones or the object's "
                 "storage) is guard-patterned with NaN-boxed counters and diffed cell by cell against an image computed by "
                 "plain scalar loops on snapshots taken before the statement, through index tables the generator derives "
                 "from the documented mappings",
    "text": "Random programs `D op E` (op in = += -= *= /=, element accesses [] and (), named lazy sub-expressions) over "
            "tvector, tmatrix, vector, matrix, fsarray, runtime_array, stensor and tensor operands of float / double / long "
            "double, with scalars, unary minus, eval, + - , scalar*x, x*scalar, x/scalar and the diadic product; operands and "
            "destinations are plain objects or views (map on pointers and on tvector with offset, const views, slice, "
            "row_view, column_view, submatrix_view, CoalescedView, StridedCoalescedView, ViewsArray elements incl. strided, "
            "StridedCoalescedViewsArray elements, map_derivative, map_derivative_strided). A fixed quota of the programs (28 of 128 / "
            "108 of 600) is reserved for the partial views row_view<I,J,K>, column_view<I,J,K>, submatrix_view<I,J,R,C> (and the "
            "full row / column views, tvector slices; const and non-const overloads) of NON-SQUARE tmatrix<N,M>, with K = 1, an "
            "interior K and the maximal K, as element reads, destination of = += *=, destination aliased with the right-hand "
            "side, next to another sub-view of the same matrix, and const view read into a plain object. A second quota (49 of 128 / "
            "147 of 600) plans `x /= s` and `x *= s` with an int literal |s| >= 2, a float scalar against a double / long double "
            "array and a scalar of the array's own type on every destination kind with its own operator/= (tvector, tmatrix, "
            "stensor, tensor, vector, matrix, runtime_array, View, ViewsArray and StridedCoalescedViewsArray elements, "
            "sub-views). Each program runs on fresh random "
            "operand values per draw; the destination must equal the naive element-wise value BITWISE (same IEEE operations "
            "in the same association; only `/= s`, which the library implements as a multiplication by 1/s, gets 64 ulp), "
            "every other cell of every store must be untouched, and ASan/UBSan/assert must stay silent. Aliasing: the "
            "destination used as an operand and a second view object on exactly the same cells are judged; views of the same "
            "store on disjoint cells are judged; overlapping-but-different views are only recorded. Held on the programs "
            "and draws executed only.",
    "note": "Trusted: g++ (no FP contraction: x86-64 baseline, -ffp-contract=off), the sanitizer runtimes, the documented "
            "contiguous row-major storage of the plain objects reached through data(). Two fixed compile probes "
            "(harness/math/c17_probe_*.cxx) watch two things the generator has to work around: the include-guard clash of "
            "Forward/runtime_array.hxx with Forward/fsarray.hxx (judged: key C17:View<runtime_array>:map:...) and the "
            "non-instantiable ViewsArray::operator*= (recorded). Products other than scalar ones and the diadic product "
            "(matrix*vector, contractions) are not element-wise and belong to C01/C02.",
}

H = vfcore.VERIF / "harness/math"
GEN = vfcore.CACHE / "c17_gen"
FLAGS = ("-ffp-contract=off",)


def _write(tu):
    GEN.mkdir(parents=True, exist_ok=True)
    p = GEN / (tu["name"] + ".cxx")
    if not p.exists() or p.read_text() != tu["source"]:
        p.write_text(tu["source"])
    return p


def build(ctx):
    tus = etgen.generate(ctx.seed, ctx.tier)
    vfcore.ensure_tree("asan")    # once, before the parallel compilations
    vfcore.ensure_tree("plain")

    def one(tu):
        p = _write(tu)
        b, log = vfcore.compile_cxx(tu["name"], [p], "asan", flags=FLAGS, allow_fail=True)
        return tu, b, log
    out = vfcore.pmap(one, tus, workers=min(12, vfcore.NCPU))
    probes = {}
    for nm in ("c17_probe_guard", "c17_probe_viewsarray"):
        b, log = vfcore.compile_cxx(nm, [H / (nm + ".cxx")], "plain", allow_fail=True)
        probes[nm] = (b, log)
    return {"tus": out, "probes": probes}


def _first_errors(log, n=6):
    return "\n".join([l for l in log.splitlines() if " error: " in l or "required from here" in l][:n])


def run(ctx):
    b = build(ctx)
    ctx.cov["rule"] = ("program = one generated statement (destination kind, assignment operator, operator tree, operand kinds, "
                       "view layouts: offsets / strides / pointer tables, aliasing pattern, scalar type) from (VERIF_SEED, tier); "
                       "evaluation = one draw of all operand values and scalars for one program; distinct = hash of the "
                       "snapshots + scalars + program id; a draw is non-trivial by construction (random values in every "
                       "mapped cell, sentinels elsewhere)")
    # ---- fixed probes
    g, glog = b["probes"]["c17_probe_guard"]
    ctx.count("probe:map<runtime_array>-after-fsarray:" + ("compiles" if g else "rejected"))
    if g is None:
        if "map<" in glog or "runtime_array" in glog:
            ctx.violation("View<runtime_array>:map:not-compilable-once-fsarray.hxx-is-included",
                          "map<runtime_array<double>>(n, p) does not compile in a translation unit that included "
                          "TFEL/Math/fsarray.hxx (or tvector.hxx) first: Forward/runtime_array.hxx reuses the include guard of "
                          "Forward/fsarray.hxx, MathObjectTraits<runtime_array<T>> is never seen\n" + _first_errors(glog),
                          {"source": str(H / "c17_probe_guard.cxx"), "compiler_output": glog[-3000:]})
        else:
            ctx.inconc("c17_probe_guard failed for an unexpected reason: " + glog[-1500:])
    v, vlog = b["probes"]["c17_probe_viewsarray"]
    ctx.count("probe:ViewsArray*=scalar:" + ("compiles" if v else "rejected (recorded, not judged)"))
    # ---- generated programs
    draws = ctx.n(1000, 10000)
    bad = [(tu, log) for tu, bn, log in b["tus"] if bn is None]
    for tu, log in bad:
        # a generated statement uses only operations the library documents: a compile failure is either a
        # slip of the generator or a library defect; it is never silently dropped
        ctx.inconc("generated translation unit %s does not compile:\n%s" % (tu["name"], _first_errors(log, 12)))
    if ctx.replay:
        return replay(ctx, b)
    jobs = [(tu, bn) for tu, bn, log in b["tus"] if bn is not None]
    shards = 1 if not ctx.thorough else 3
    runs = [(tu, bn, i) for tu, bn in jobs for i in range(shards)]
    per = (draws + shards - 1) // shards

    def one(j):
        tu, bn, i = j
        cmd = [bn, "--seed", ctx.seed, "--cases", per, "--shard", i, "--nshards", shards, "--tier", ctx.tier]
        return j, vfcore.run(cmd, timeout=3600, cwd=ctx.work)
    summ = {}
    for (tu, bn, i), r in vfcore.pmap(one, runs, workers=min(16, vfcore.NCPU)):
        ctx.fold_events(r, summ, where="%s shard %d/%d" % (tu["name"], i, shards),
                        replay_base={"harness": str(bn), "tu": tu["name"], "shard": i, "nshards": shards, "cases": per,
                                     "source": str(GEN / (tu["name"] + ".cxx"))})
    infos = [i for tu, bn in jobs for i in tu["programs"]]
    need = {}
    for i in infos:
        if i["mode"] != 2:
            k = (i["api"], i["stratum"])
            need[k] = need.get(k, 0) + per * shards
    ctx.merge_summary(summ, [(a, s, n) for (a, s), n in sorted(need.items())])
    # ---- coverage description
    ctx.cov["programs"] = len(infos)
    ctx.cov["draws_per_program"] = per * shards
    ctx.cov["translation_units"] = len(b["tus"])
    for i in infos:
        ctx.count("dst:" + i["dst"])
        ctx.count("op:" + i["op"])
        ctx.count("alias:" + i["alias"])
        ctx.count("T:" + i["T"])
        ctx.count("family:" + i["shape"][0])
        for k in i["rhs_kinds"]:
            ctx.count("rhs:" + k)
        if i["mode"] == 2:
            ctx.count("programs_recorded_only(overlapping views)")
    # sub-view quota (lib/etgen.py, SUBVIEW_TABLE): partial views of NON-SQUARE matrices
    sv = [i for i in infos if "subview" in i]
    ctx.cov["subview_programs"] = len(sv)
    for i in sv:
        x = i["subview"]
        ctx.count("subview:%s:%s:K=%s" % (x["which"], x["use"], x["kmode"]))
    for w in ("col3", "row3", "sub"):
        big = [i for i in sv if i["subview"]["which"] == w and i["subview"]["kmode"] != "1"]
        ctx.require(len(big) >= 3, "fewer than 3 programs exercise the partial view '%s' with K >= 2 on a non-square matrix" % w)
    # scale quota (lib/etgen.py, scale_table): `/=` and `*=` by an int literal (|s| >= 2), by a float against a
    # double / long double array and by a scalar of the array's type, on every destination kind that implements
    # its own operator/=; a planned (kind, operator, scalar kind) with fewer events than one program's draws
    # makes the run inconclusive
    sq = [i for i in infos if "scalequota" in i]
    ctx.cov["scale_quota_programs"] = len(sq)
    have = {}
    for i in sq:
        x = i["scalequota"]
        key = (x["kind"], x["op"], x["scalar"])
        n = summ.get((i["api"], i["stratum"]), {}).get("n", 0)
        have[key] = have.get(key, 0) + min(n, per * shards)
        ctx.count("scale:%s:%s:%s" % key)
    for g in sorted(set(tu["group"] for tu, bn in jobs)):
        for e in etgen.scale_table(g, ctx.tier, ctx.seed):
            ctx.require(have.get(e, 0) >= per * shards,
                        "planned scale stratum %s %s (%s scalar) observed %d < %d events" % (e[0], e[1], e[2], have.get(e, 0), per * shards))
    for i in infos[:6]:
        ctx.sample({"program": i["statement"], "T": i["T"], "api": i["api"], "stratum": i["stratum"]}, cap=14)
    ctx.assumptions += [
        "bitwise equality is demanded for = += -= *= and for every expression (unary minus, + -, scalar*x, x*scalar, x/scalar, eval, "
        "diadic product): the expression templates perform the same IEEE operations element by element in the association written; "
        "`x /= s` is implemented as x *= (1/s) in GenericFixedSizeArray/GenericRuntimeArray/View and is allowed 64 ulp",
        "index mappings taken from the documentation: contiguous View at the given pointer/offset; CoalescedView component i at "
        "ptrs[i]; StridedCoalescedView component i at p + i*stride; tmatrix row-major (i*M + j), row_view<I,J,K>, "
        "column_view<I,J,K> (column I, rows J..J+K-1), submatrix_view<I,J,R,C>; ViewsArray object k at offset + k*stride; "
        "StridedCoalescedViewsFixedSizeVector component c of object k at c*M + k; map_derivative<I,J> component (a,b) at "
        "element (I+a, J+b) of the matrix; map_derivative_strided at p + ((I+a)*M + J+b)*stride",
        "overlapping-but-different views on the two sides of an assignment have no documented semantics: executed under the "
        "sanitizers, outcome counted (counters 'note:overlap:*'), never judged",
        "operand magnitudes are within 1e-3..1e3 (or 0): no overflow / underflow in the generated trees",
    ]


def replay(ctx, b):
    c = ctx.replay.get("case") or {}
    e = c.get("event") or {}
    pid = (e.get("in") or {}).get("prog_id")
    name = c.get("tu")
    for tu, bn, log in b["tus"]:
        if bn is not None and (tu["name"] == name or any(i["pid"] == pid for i in tu["programs"])):
            cmd = [bn, "--seed", ctx.seed, "--cases", c.get("cases", 1000), "--shard", c.get("shard", 0),
                   "--nshards", c.get("nshards", 1), "--tier", ctx.tier, "--only", e.get("case", 0)]
            if pid is not None:
                cmd += ["--prog", pid]
            r = vfcore.run(cmd, timeout=600, cwd=ctx.work)
            summ = {}
            ctx.fold_events(r, summ, where="replay", replay_base=c)
            ctx.merge_summary(summ)
            return
    ctx.inconc("replay: program not found in the regenerated translation units")
