"""Shared machinery of the `mtest` engine checks (C48, C49, C50, C51, C53): behaviours built
from the reference files of /repo/mfront/tests/behaviours (plus the /verif control blocks),
mtest input generation (mixed control, evolutions, time grids), runs in private directories,
result-file parsing and python-side evaluation of the generated evolutions.

Nothing here decides a verdict: the checks do."""
import math
import os
import re
import struct
from pathlib import Path

import vfcore
import gen

REF = vfcore.REPO / "mfront/tests/behaviours"
CORPUS = vfcore.VERIF / "corpus/mtest"


def _ref(name):
    return (REF / (name + ".mfront")).read_text()


def _scripted(name):
    """reference behaviour `name` renamed Vf<name> + the step-refusal control blocks"""
    t = _ref(name)
    decls = (CORPUS / "vfctl_decls.mfront.in").read_text()
    t2 = re.sub(r"@Behaviour\s+%s\s*;" % name, "@Behaviour Vf%s;" % name, t, count=1)
    # declarations must precede every code block (and follow @UseQt): they go before the first
    # @MaterialProperty of the reference file
    i = t2.find("@MaterialProperty")
    if t2 == t or i < 0:
        raise vfcore.HarnessFailure("cannot rename/extend behaviour %s" % name)
    t2 = t2[:i] + decls + "\n" + t2[i:]
    return t2 + "\n" + (CORPUS / "vfctl_blocks.mfront.in").read_text()


def _hypo():
    t = (CORPUS / "VfHypo.mfront.in").read_text()
    return t.replace("@VFCTL_DECLS@", (CORPUS / "vfctl_decls.mfront.in").read_text()).replace(
        "@VFCTL_BLOCKS@", (CORPUS / "vfctl_blocks.mfront.in").read_text())


# name -> (text builder, behaviour name inside the library)
SPECS = {
    "VfHypo": (_hypo, "VfHypo"),
    "Elasticity": (lambda: _ref("Elasticity"), "Elasticity"),
    "Norton": (lambda: _ref("Norton"), "Norton"),
    "Plasticity": (lambda: _ref("Plasticity"), "Plasticity"),
    "ImplicitNorton": (lambda: _ref("ImplicitNorton"), "ImplicitNorton"),
    "VfNorton": (lambda: _scripted("Norton"), "VfNorton"),
    "VfImplicitNorton": (lambda: _scripted("ImplicitNorton"), "VfImplicitNorton"),
    "VfPlasticity": (lambda: _scripted("Plasticity"), "VfPlasticity"),
    "VfEcho": (lambda: (CORPUS / "VfEcho.mfront").read_text(), "VfEcho"),
}

# base law of each behaviour (decides material properties and loading amplitudes)
LAW = {"VfHypo": "hypo", "Elasticity": "elastic", "VfEcho": "elastic", "Norton": "norton", "VfNorton": "norton",
       "ImplicitNorton": "inorton", "VfImplicitNorton": "inorton", "Plasticity": "plastic", "VfPlasticity": "plastic"}
SCRIPTED = {"VfNorton", "VfImplicitNorton", "VfPlasticity", "VfHypo"}

# hypotheses each behaviour is generated for (reference files: Elasticity and ImplicitNorton declare ".+")
_STD = ["Tridimensional", "Axisymmetrical", "PlaneStrain", "GeneralisedPlaneStrain", "AxisymmetricalGeneralisedPlaneStrain"]
HYPS = {"Elasticity": _STD + ["PlaneStress"], "ImplicitNorton": _STD + ["PlaneStress"], "VfImplicitNorton": _STD + ["PlaneStress"],
        "VfHypo": _STD, "Norton": _STD, "VfNorton": _STD, "Plasticity": _STD, "VfPlasticity": _STD, "VfEcho": _STD}

# names of the components as documented in docs/mtest/mtest/ImposedStrain.md / ImposedStress.md
ALL_E = {"AxisymmetricalGeneralisedPlaneStrain": ["ERR", "EZZ", "ETT"], "Axisymmetrical": ["ERR", "EZZ", "ETT", "ERZ"],
         "PlaneStress": ["EXX", "EYY", "EZZ", "EXY"], "PlaneStrain": ["EXX", "EYY", "EZZ", "EXY"],
         "GeneralisedPlaneStrain": ["EXX", "EYY", "EZZ", "EXY"], "Tridimensional": ["EXX", "EYY", "EZZ", "EXY", "EXZ", "EYZ"]}
# (the documentation also lists EZZ for PlaneStress and SZZ for PlaneStrain; mtest reports such problems as
# not converging / singular, i.e. they never complete, so the generator does not spend runs on them)
IMPOSABLE_E = dict(ALL_E, PlaneStrain=["EXX", "EYY", "EXY"], PlaneStress=["EXX", "EYY", "EXY"])
IMPOSABLE_S = {h: ["S" + c[1:] for c in v] for h, v in ALL_E.items()}
IMPOSABLE_S["PlaneStress"] = ["SXX", "SYY", "SXY"]
IMPOSABLE_S["PlaneStrain"] = ["SXX", "SYY", "SXY"]


def build_one(name):
    text, bname = SPECS[name][0](), SPECS[name][1]
    lib, log, r = gen.build_cached("mt." + name.lower(), text, bname + ".mfront", ["generic"], bname)
    return name, lib, log


def build_libs(names):
    """build (cached) the behaviours in parallel -> {name: library path}"""
    vfcore.ensure_tree("plain")
    out = {}
    for name, lib, log in vfcore.pmap(build_one, list(names), workers=min(8, len(names))):
        if lib is None:
            raise vfcore.HarnessFailure("behaviour %s does not generate/compile:\n%s" % (name, log[-3000:]))
        out[name] = lib
    return out


def env(extra=None):
    e = {"LD_LIBRARY_PATH": vfcore.ld_path("plain")}
    if os.environ.get("VF_MTEST_LIBPATH"):
        # validation of the monitors themselves against a privately patched libTFELMTest / libTFELCheck built under /tmp
        # (never set by ./vf or the manifest commands)
        e["LD_LIBRARY_PATH"] = os.environ["VF_MTEST_LIBPATH"] + ":" + e["LD_LIBRARY_PATH"]
    if extra:
        e.update(extra)
    return e


def run_mtest(cwd, fname, args=(), timeout=120, extra_env=None):
    return vfcore.run([vfcore.tool("plain", "mtest")] + list(args) + [fname], timeout=timeout, cwd=cwd, env=env(extra_env), merge=True)


def fl(x):
    """decimal text that strtod maps back to exactly the same double"""
    return repr(float(x))


def num(x):
    """constant inside a formula; negative values are parenthesised (`a+-b` hits the known
    evaluator defect of C13, which is not the subject of the mtest checks)"""
    return "(%s)" % fl(x) if float(x) < 0 else fl(x)


def bits(x):
    return struct.unpack("<q", struct.pack("<d", x))[0]


def ulp(x):
    x = abs(x)
    if x == 0 or not math.isfinite(x):
        return 5e-324
    return math.ulp(x)


# ------------------------------------------------------------------------------ evolutions

class Evo:
    """an evolution given to mtest and evaluated independently here"""

    def __init__(self, kind, text, fn, desc):
        self.kind, self.text, self.fn, self.desc = kind, text, fn, desc   # kind: 'evolution' | 'function'

    def __call__(self, t):
        return self.fn(t)


def lpi(points):
    """piecewise linear, constant outside (docs/mtest/Evolution.md)"""
    pts = sorted(points)

    def f(t):
        if t <= pts[0][0]:
            return pts[0][1]
        if t >= pts[-1][0]:
            return pts[-1][1]
        for (t0, v0), (t1, v1) in zip(pts, pts[1:]):
            if t0 <= t <= t1:
                if t1 == t0:
                    return v1
                return v0 + (v1 - v0) * ((t - t0) / (t1 - t0))
        raise AssertionError
    txt = "{" + ",".join("%s:%s" % (fl(t), fl(v)) for t, v in pts) + "}"
    return Evo("evolution", txt, f, {"lpi": pts})


def constant(v):
    return Evo("evolution", fl(v), lambda t: v, {"const": v})


def rand_function(g, amp, T):
    """a formula of t from a small family, with its python twin"""
    k = g.randrange(6)
    a = amp * g.uniform(0.3, 1.0) * g.choice([-1, 1])
    if k == 0:
        w = g.uniform(0.5, 6.0) / T
        return Evo("function", "'%s*sin(%s*t)'" % (num(a), fl(w)), lambda t: a * math.sin(w * t), {"fn": "a*sin(w*t)", "a": a, "w": w})
    if k == 1:
        return Evo("function", "'%s*t/%s'" % (num(a), fl(T)), lambda t: a * t / T, {"fn": "a*t/T", "a": a, "T": T})
    if k == 2:
        tau = T * g.uniform(0.05, 1.0)
        return Evo("function", "'%s*(1-exp(-t/%s))'" % (num(a), fl(tau)), lambda t: a * (1 - math.exp(-t / tau)),
                   {"fn": "a*(1-exp(-t/tau))", "a": a, "tau": tau})
    if k == 3:
        return Evo("function", "'%s*(t/%s)**2'" % (num(a), fl(T)), lambda t: a * (t / T) ** 2, {"fn": "a*(t/T)**2", "a": a, "T": T})
    if k == 4:
        w = g.uniform(0.5, 6.0) / T
        b = amp * g.uniform(-0.3, 0.3)
        return Evo("function", "'%s*(1-cos(%s*t))+%s*t/%s'" % (num(a), fl(w), num(b), fl(T)),
                   lambda t: a * (1 - math.cos(w * t)) + b * t / T, {"fn": "a*(1-cos(w*t))+b*t/T", "a": a, "w": w, "b": b})
    return Evo("function", "'%s*sqrt(t/%s)'" % (num(a), fl(T)), lambda t: a * math.sqrt(t / T), {"fn": "a*sqrt(t/T)", "a": a, "T": T})


def rand_lpi(g, amp, t0, t1, inside=None):
    """random table; with probability 1/2 (or when inside is True) its range is strictly inside
    ]t0,t1[ so that the constant branches outside the table are exercised"""
    n = g.randrange(2, 6)
    if inside is None:
        inside = g.random() < 0.5
    lo, hi = (t0 + 0.2 * (t1 - t0), t0 + 0.8 * (t1 - t0)) if inside else (t0, t1)
    ts = sorted({lo + (hi - lo) * g.random() for _ in range(n - 2)} | {lo, hi})
    vs = [amp * g.uniform(-1, 1) for _ in ts]
    if not inside and g.random() < 0.7:
        vs[0] = 0.0
    return lpi(list(zip(ts, vs)))


# ------------------------------------------------------------------------------ time grids

def rand_times(g, nsteps, wild=True, t0=0.0):
    """strictly increasing grid; `wild`: steps log-uniform over 10 decades (tiny/huge ratios)"""
    ts = [t0]
    for _ in range(nsteps):
        if wild:
            dt = 10.0 ** g.uniform(-5, 3.5)
        else:
            dt = g.uniform(0.5, 2.0)
        nt = ts[-1] + dt
        if nt <= ts[-1]:
            nt = math.nextafter(ts[-1], math.inf)
        ts.append(nt)
    return ts


# ------------------------------------------------------------------------------ materials

def rand_material(g, law):
    """material properties (mtest names) + loading amplitudes (strain, stress) keeping the problem tame"""
    E = 10.0 ** g.uniform(10.3, 11.5)
    nu = g.uniform(0.05, 0.45)
    mp = {"YoungModulus": E, "PoissonRatio": nu}
    info = {"E": E, "nu": nu}
    if law == "elastic":
        eamp, samp = 10.0 ** g.uniform(-5, -2.5), E * 10.0 ** g.uniform(-5, -3)
    elif law == "hypo":
        # rate-form law with explicit flow: the reference rate is set by the caller from the duration (see c50)
        eamp = 10.0 ** g.uniform(-4, -2)
        samp = E * eamp * g.uniform(0.3, 1.0)
        mp.update({"ReferenceCreepRate": 0.0, "ReferenceStress": E * eamp})
        info.update({"sref": E * eamp})
    elif law == "norton":
        n = g.uniform(3.0, 8.2)
        s_ref = 10.0 ** g.uniform(7.3, 8.0)          # stress giving a creep rate of rate_ref
        rate_ref = 10.0 ** g.uniform(-7, -4)
        A = rate_ref / s_ref ** n
        mp.update({"NortonCoefficient": A, "NortonExponent": n})
        info.update({"A": A, "n": n})
        samp = s_ref * g.uniform(0.3, 1.0)
        eamp = samp / E * g.uniform(0.5, 2.0)
    elif law == "inorton":
        info.update({"A": 8.e-67, "n": 8.2})
        samp = 10.0 ** g.uniform(7.0, 7.7)
        eamp = samp / E * g.uniform(0.5, 2.0)
    elif law == "plastic":
        H = E * 10.0 ** g.uniform(-2, 0)
        s0 = 10.0 ** g.uniform(7.5, 8.5)
        mp.update({"H": H, "s0": s0})
        info.update({"H": H, "s0": s0})
        samp = s0 * g.uniform(0.5, 2.0)
        eamp = s0 / E * g.uniform(0.5, 4.0)
    else:
        raise ValueError(law)
    return mp, info, eamp, samp


# ------------------------------------------------------------------------------ mtest files

def mtest_text(lib, bname, hyp, mp, times, constraints, eeps, seps, extra=(), esv=None, prec=17, maxsub=1, itermax=None,
               wrapper=None, temperature=None):
    """constraints: list of (kind 'E'|'S', component, Evo); wrapper: None | 'LogarithmicStrain1D' |
    'SmallStrainTridimensionalBehaviourWrapper' (mtest/src/*BehaviourWrapper.cxx reachable from the input file)"""
    L = ["@OutputFilePrecision %d;" % prec, "@ModellingHypothesis '%s';" % hyp,
         "@Behaviour<generic%s> '%s' '%s';" % ("," + wrapper if wrapper else "", lib, bname)]
    for k, v in mp.items():
        L.append("@MaterialProperty<constant> '%s' %s;" % (k, fl(v)))
    if temperature is None:
        L.append("@ExternalStateVariable 'Temperature' 293.15;")
    else:
        L.append("@ExternalStateVariable<%s> 'Temperature' %s;" % (temperature.kind, temperature.text))
    for k, ev in (esv or {}).items():
        L.append("@ExternalStateVariable<%s> '%s' %s;" % (ev.kind, k, ev.text))
    L.append("@StrainEpsilon %s;" % fl(eeps))
    L.append("@StressEpsilon %s;" % fl(seps))
    L.append("@MaximumNumberOfSubSteps %d;" % maxsub)
    if itermax:
        L.append("@MaximumNumberOfIterations %d;" % itermax)
    for kind, comp, ev in constraints:
        L.append("@Imposed%s<%s> '%s' %s;" % ("Strain" if kind == "E" else "Stress", ev.kind, comp, ev.text))
    L += list(extra)
    L.append("@Times {%s};" % ",".join(fl(t) for t in times))
    return "\n".join(L) + "\n"


def rand_control(g, hyp, eamp, samp, t0, t1, pfree=0.3, pstress=0.35, shear_scale=0.5):
    """mixed control: every imposable component is strain-, stress- or un-controlled"""
    cons = []
    T = t1 - t0
    for i, (e, allc) in enumerate(zip(ALL_E[hyp], ALL_E[hyp])):
        s = "S" + e[1:]
        u = g.random()
        scale = shear_scale if i >= 3 else 1.0
        can_e, can_s = e in IMPOSABLE_E[hyp], s in IMPOSABLE_S[hyp]
        if u < pfree or not (can_e or can_s):
            continue
        want_s = (u < pfree + pstress)
        if want_s and not can_s:
            want_s = False
        if not want_s and not can_e:
            want_s = True
        amp = (samp if want_s else eamp) * scale
        k = g.random()
        if k < 0.45:
            ev = rand_lpi(g, amp, t0, t1)
        elif k < 0.9:
            ev = rand_function(g, amp, T)
        else:
            ev = constant(amp * g.uniform(-1, 1))
        cons.append(("S" if want_s else "E", s if want_s else e, ev))
    if not cons:
        e = IMPOSABLE_E[hyp][0]
        cons.append(("E", e, rand_lpi(g, eamp, t0, t1, inside=False)))
    return cons


# ------------------------------------------------------------------------------ results

class Res:
    """parsed mtest result file: names (column -> name), rows of floats, raw tokens"""

    def __init__(self, path):
        self.names, self.rows, self.raw = [], [], []
        self.ok = False
        try:
            txt = Path(path).read_text()
        except OSError:
            return
        for line in txt.splitlines():
            if line.startswith("#"):
                m = re.match(r"#\s*(first|\d+)\s+column\s*:\s*(.*)$", line)
                if m:
                    d = m.group(2).strip()
                    p = re.search(r"\(([^()]+)\)\s*$", d)
                    self.names.append("time" if m.group(1) == "first" else (p.group(1) if p else d))
                continue
            tok = line.split()
            if not tok:
                continue
            try:
                self.rows.append([float(x) for x in tok])
            except ValueError:
                return
            self.raw.append(tok)
        self.ok = bool(self.rows) and all(len(r) == len(self.names) for r in self.rows)

    def col(self, name):
        return self.names.index(name)


def completed(r):
    """did the mtest run complete (every requested time solved)?"""
    return r.rc == 0 and not r.timed_out


RE_RESOL = re.compile(r"^resolution from (\S+) to (\S+)\s*$")


def parse_log(out):
    """verbose (level1+) log -> list of attempts {t0, t1, iters, ok} + global counters"""
    att = []
    cur = None
    stats = {}
    for line in out.splitlines():
        m = RE_RESOL.match(line)
        if m:
            cur = {"t0": m.group(1), "t1": m.group(2), "iters": 0, "ok": False}
            att.append(cur)
            continue
        if cur is not None and line.startswith("iteration "):
            cur["iters"] += 1
        elif cur is not None and line.startswith("convergence, after"):
            cur["ok"] = True
        m = re.match(r"^-number of (period|iterations|sub-steps):\s*(\d+)", line)
        if m:
            stats[m.group(1)] = int(m.group(2))
    return att, stats


def replay_time_loop(times, attempts, eps=2.220446049250313e-16):
    """Follow GenericSolver::execute's time arithmetic (dt = te-ti; `dt *= 0.5` after a refused
    attempt; `t += dt` after an accepted one; stop when |te-t| < max(100 eps (te-ti), 4 eps max|t|) or te < t;
    dt clipped to te-t).  The replay only *labels* what the log shows: when the log does not follow it
    (e.g. the implementation takes one sub-step more) the verdict comes from the imposed-loading comparisons.
    through the accepted/refused attempts listed by the verbose log.
    -> (list of per-interval dicts {ti, te, accepted: [(t_begin, t_end)], t_final, dt_last}, consumed all attempts?)
    The log prints times with 6 digits only: the exact values come from redoing the same IEEE
    operations; the printed values are used as a cross-check (5e-5 relative)."""
    out = []
    k = 0
    ok = True
    for ti, te in zip(times, times[1:]):
        t, dt = ti, te - ti
        # end test of GenericSolver::execute (after the fix of the C48 overshoot finding: tolerance relative to |t| as well,
        # and the sub-step is clipped to the remaining time)
        t_eps = max((te - ti) * 100 * eps, 4 * eps * max(abs(ti), abs(te)))
        acc = []
        end = False
        while not end:
            if k >= len(attempts):
                ok = False
                break
            a = attempts[k]
            k += 1
            try:
                p0, p1 = float(a["t0"]), float(a["t1"])
                if abs(p0 - t) > 5e-5 * max(abs(t), 1e-300) + 1e-300 or abs(p1 - (t + dt)) > 5e-5 * max(abs(t + dt), 1e-300) + 1e-300:
                    ok = False
            except ValueError:
                ok = False
            if a["ok"]:
                acc.append((t, t + dt))
                t += dt
                end = (abs(te - t) < t_eps) or (te < t)
            else:
                dt *= 0.5
            if not end and dt > te - t:
                dt = te - t
        out.append({"ti": ti, "te": te, "accepted": acc, "t_final": t, "dt_last": dt})
        if not ok:
            break
    return out, ok and k == len(attempts)
