// C22 (part b) — Barlat 2004 (Yld2004-18p).  See c22_common.hxx for the driver.
#define VFH_MAIN
#include "c22_common.hxx"
#include "TFEL/Material/Hosford1972YieldCriterion.hxx"
#include "TFEL/Material/Barlat2004YieldCriterion.hxx"

namespace c22 { vf::Reporter R; }
using namespace c22;
namespace tmat = tfel::material;

struct Barlat : NoClass {
  static constexpr const char* name = "Barlat2004";
  static constexpr int id = 5;
  static constexpr bool isotropic = false, homogeneous = true, eigen = true, porous = false, has_ref = true;
  static constexpr double smin = -6, smax = 9;
  struct P {
    L a = 8;
    L c1[9], c2[9];  // c12 c21 c13 c31 c23 c32 c44 c55 c66
    bool identity = false;
    void gen(vf::Rng& g, int) {
      static const double A[] = {2, 4, 6, 8, 10, 12, 20};
      a = g.irange(0, 3) == 0 ? L(double(g.uni(2, 12))) : L(A[g.irange(0, 6)]);
      identity = g.irange(0, 4) == 0;
      for (int i = 0; i < 9; ++i) { c1[i] = identity ? 1.0L : L(double(g.uni(0.6, 1.4))); c2[i] = identity ? 1.0L : L(double(g.uni(0.6, 1.4))); }
    }
    void dump(vf::J& j) const { j.f("a", a).arr("c1", c1, c1 + 9).arr("c2", c2, c2 + 9); }
    uint64_t hash() const { double d[19]; d[0] = double(a); for (int i = 0; i < 9; ++i) { d[1 + i] = double(c1[i]); d[10 + i] = double(c2[i]); } return vf::hash_arr(d, 19); }
  };
  template <unsigned short N, typename T>
  static auto lt(const L* c) { return tmat::makeBarlatLinearTransformation<N, T>(T(c[0]), T(c[1]), T(c[2]), T(c[3]), T(c[4]), T(c[5]), T(c[6]), T(c[7]), T(c[8])); }
  template <unsigned short N, typename T>
  static T value(const tfm::stensor<N, T>& s, const P& p, T seps) { return tmat::computeBarlatStress(s, lt<N, T>(p.c1), lt<N, T>(p.c2), T(p.a), seps); }
  template <unsigned short N, typename T>
  static void normal(const tfm::stensor<N, T>& s, const P& p, T seps, Out& o) {
    auto [v, n] = tmat::computeBarlatStressNormal(s, lt<N, T>(p.c1), lt<N, T>(p.c2), T(p.a), seps);
    o.v = v; put_n<N, T>(o, n);
  }
  template <unsigned short N, typename T>
  static void second(const tfm::stensor<N, T>& s, const P& p, T seps, Out& o) {
    auto [v, n, dn] = tmat::computeBarlatStressSecondDerivative(s, lt<N, T>(p.c1), lt<N, T>(p.c2), T(p.a), seps);
    o.v = v; put_n<N, T>(o, n); put_dn<N, T>(o, dn);
  }
  // tfel-material.md: s' = C':M:sigma with the documented matrix of C' acting on (xx yy zz xy xz yz)
  static M3 transformed(const M3& A, const L* c) {
    const M3 s = dev(A);
    M3 t = zero();
    t[0][0] = -c[0] * s[1][1] - c[2] * s[2][2];
    t[1][1] = -c[1] * s[0][0] - c[4] * s[2][2];
    t[2][2] = -c[3] * s[0][0] - c[5] * s[1][1];
    t[0][1] = t[1][0] = c[6] * s[0][1];
    t[0][2] = t[2][0] = c[7] * s[0][2];
    t[1][2] = t[2][1] = c[8] * s[1][2];
    return t;
  }
  static L ref(const M3& A, const P& p) {
    const V3 w1 = eigvals_sorted(transformed(A, p.c1)), w2 = eigvals_sorted(transformed(A, p.c2));
    L m = 0;
    for (int i = 0; i < 3; ++i) for (int j = 0; j < 3; ++j) m = dmax(m, std::fabs(w1[i] - w2[j]));
    if (m == 0) return 0;
    L sum = 0;
    for (int i = 0; i < 3; ++i) for (int j = 0; j < 3; ++j) sum += std::pow(std::fabs(w1[i] - w2[j]) / m, p.a);
    return m * std::pow(sum / 4, 1 / p.a);
  }
  static L value_cond(const M3& A, const P& p) { return (1 + p.a / 8) * dmax(eigen_cond(transformed(A, p.c1)), eigen_cond(transformed(A, p.c2))); }
  static L gaprel(const M3& A, int, const P& p) { return std::min(min_gap_rel(transformed(A, p.c1)), min_gap_rel(transformed(A, p.c2))); }
  static bool differentiable(const M3&, const P&) { return true; }
  template <unsigned short N, typename D>
  static void extra(vf::Reporter& R, char* api, size_t na, const char* S, uint64_t idx, uint64_t h, const tfm::stensor<N, double>& sd, const P& p, double seps,
                    double v0, const Out& o1, const Out&, const Tol& K, D&& dump) {
    if (!p.identity) return;
    // documented: identity linear transformations (all c = 1) give the Hosford stress
    const L eps = std::numeric_limits<double>::epsilon();
    const M3 A = from_st(sd, N);
    const double hv = tmat::computeHosfordStress(sd, double(p.a), seps);
    std::snprintf(api, na, "%s<%d>:%s", name, int(N), "Barlat(identity)=Hosford");
    R.check(api, S, idx, h, std::fabs(L(v0) - L(hv)), K.invariance * eps * dmax(norm(A), std::fabs(L(hv))) * (1 + p.a / 8) * eigen_cond(dev(A)), dump);
    if (min_gap_rel(A) > 1e-8L && norm(dev(A)) > 1e-3L * norm(A)) {
      auto [hv2, hn] = tmat::computeHosfordStressNormal(sd, double(p.a), seps);
      L e = 0; for (int k = 0; k < ssize(N); ++k) e = dmax(e, std::fabs(o1.n[k] - L(hn[k])));
      std::snprintf(api, na, "%s<%d>:%s", name, int(N), "Barlat(identity).normal=Hosford.normal");
      R.check(api, S, idx, h, e, K.invariance * eps * (1 + 1 / min_gap_rel(A)) * (1 + p.a / 8) * norm(A) / norm(dev(A)), dump);
      (void)hv2;
    }
  }
};

int main(int argc, char** argv) {
  vf::Args a(argc, argv);
  Tol K;
  for (long i = 0; i < a.cases; ++i) {
    const uint64_t idx = a.only >= 0 ? uint64_t(a.only) : a.gidx(i);
    run_all_dims<Barlat>(a, idx, K);
    if (a.only >= 0) break;
  }
  R.finish();
  return 0;
}
